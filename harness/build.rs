//! Detects verification hook H3 (the `#[cfg(capy_verif)] pub mod verif` op log in
//! `crates/topo/src/lib.rs`, see HOOK.patch) in whatever `topo` checkout Cargo.toml
//! points at, and sets `--cfg topo_h3` accordingly.  Code that needs the hook is
//! written under `#[cfg(topo_h3)]` and must have a fallback, so the harness builds
//! against both a patched and an unpatched compiler tree.
use std::path::PathBuf;

const DEFAULT_TOPO: &str = "/repo/crates/topo";

/// `topo = { path = "..." }` in Cargo.toml, no toml parser needed for this one shape.
fn topo_path(manifest: &str) -> Option<String> {
    for line in manifest.lines() {
        let line = line.trim();
        if line.starts_with('#') {
            continue;
        }
        let Some(rest) = line.strip_prefix("topo") else { continue };
        let rest = rest.trim_start();
        let Some(rest) = rest.strip_prefix('=') else { continue };
        let Some(at) = rest.find("path") else { continue };
        let after = &rest[at + "path".len()..];
        let after = after.trim_start();
        let Some(after) = after.strip_prefix('=') else { continue };
        let after = after.trim_start();
        let Some(after) = after.strip_prefix('"') else { continue };
        let Some(end) = after.find('"') else { continue };
        return Some(after[..end].to_string());
    }
    None
}

fn main() {
    println!("cargo:rustc-check-cfg=cfg(topo_h3)");
    println!("cargo:rustc-check-cfg=cfg(capy_verif)");
    println!("cargo:rerun-if-changed=Cargo.toml");
    println!("cargo:rerun-if-changed=build.rs");

    let manifest_dir = PathBuf::from(std::env::var("CARGO_MANIFEST_DIR").unwrap_or_else(|_| ".".into()));
    let manifest = std::fs::read_to_string(manifest_dir.join("Cargo.toml")).unwrap_or_default();
    let topo = topo_path(&manifest).unwrap_or_else(|| DEFAULT_TOPO.to_string());
    let mut topo = PathBuf::from(topo);
    if topo.is_relative() {
        topo = manifest_dir.join(topo);
    }
    let lib = topo.join("src").join("lib.rs");
    println!("cargo:rerun-if-changed={}", lib.display());

    let src = std::fs::read_to_string(&lib).unwrap_or_default();
    if src.contains("pub mod verif") && src.contains("LoggedOp") && src.contains("start_with_limit") {
        // `topo::verif` only exists when topo itself is compiled with `--cfg capy_verif`
        // (.cargo/config.toml passes it to every crate).  If somebody builds without it,
        // fall back to the hook-absent path instead of failing to compile.
        let flags = std::env::var("CARGO_ENCODED_RUSTFLAGS").unwrap_or_default();
        if flags.contains("capy_verif") {
            println!("cargo:rustc-cfg=topo_h3");
        } else {
            println!("cargo:warning=topo has hook H3 but --cfg capy_verif is not in RUSTFLAGS; building without topo_h3");
        }
    }
}
