//! C19 — calls across the C boundary pass values intact.
//!
//! Stream 1 (in-process, hook `codegen::verif::x86_64_sysv_abi`): for generated signatures the
//! `FnAbi` the code generator computes is compared with the Lean model
//! (`CapyV.Abi.fnTyToAbi`, model ≠ implementation ⇒ `disagree`), and the register / stack
//! assignment Cranelift derives from it is compared with the psABI assignment
//! (`CapyV.SysV.assign`, implementation ≠ spec ⇒ `oracle_fail`).
//!
//! Stream 2 (end to end, the decisive oracle): generated signatures, one C translation unit
//! compiled by the host gcc (callees that print what they received and return known values,
//! callers that call back into Capy through a function pointer) linked with the object the
//! real `capy` CLI produced for the mirror Capy program; every value printed on either side
//! must equal the value that was passed.
use crate::e2e;
use crate::lean;
use crate::report::Report;
use crate::rng::Rng;
use crate::ty::{self, T};
use hir::common::Ty;
use serde_json::{json, Value};
use std::collections::BTreeMap;
use std::panic::{catch_unwind, AssertUnwindSafe};
use std::path::PathBuf;
use std::process::{Command, Stdio};
use std::sync::atomic::{AtomicUsize, Ordering};
use std::sync::{Arc, Mutex};
use std::time::{Duration, Instant};

// ---------------------------------------------------------------------------------------
// signatures
// ---------------------------------------------------------------------------------------

#[derive(Clone, Copy, Debug, PartialEq, Eq, PartialOrd, Ord)]
enum Sc {
    I8, I16, I32, I64, U8, U16, U32, U64, Isize, Usize, Bool, Char, F32, F64, Ptr, OptPtr, FnPtr,
}
const ALL_SC: [Sc; 17] = [
    Sc::I8, Sc::I16, Sc::I32, Sc::I64, Sc::U8, Sc::U16, Sc::U32, Sc::U64, Sc::Isize, Sc::Usize,
    Sc::Bool, Sc::Char, Sc::F32, Sc::F64, Sc::Ptr, Sc::OptPtr, Sc::FnPtr,
];

impl Sc {
    fn name(self) -> &'static str {
        match self {
            Sc::I8 => "i8", Sc::I16 => "i16", Sc::I32 => "i32", Sc::I64 => "i64",
            Sc::U8 => "u8", Sc::U16 => "u16", Sc::U32 => "u32", Sc::U64 => "u64",
            Sc::Isize => "isize", Sc::Usize => "usize", Sc::Bool => "bool", Sc::Char => "char",
            Sc::F32 => "f32", Sc::F64 => "f64", Sc::Ptr => "ptr", Sc::OptPtr => "optptr", Sc::FnPtr => "fnptr",
        }
    }
    fn parse(s: &str) -> Option<Sc> {
        ALL_SC.iter().copied().find(|x| x.name() == s)
    }
    fn size(self) -> u32 {
        match self {
            Sc::I8 | Sc::U8 | Sc::Bool | Sc::Char => 1,
            Sc::I16 | Sc::U16 => 2,
            Sc::I32 | Sc::U32 | Sc::F32 => 4,
            _ => 8,
        }
    }
    fn is_float(self) -> bool {
        matches!(self, Sc::F32 | Sc::F64)
    }
    fn capy(self) -> &'static str {
        match self {
            Sc::Ptr => "^i32",
            Sc::OptPtr => "?^i32",
            Sc::FnPtr => "Fn_T",
            other => other.name(),
        }
    }
    fn c(self) -> &'static str {
        match self {
            Sc::I8 => "int8_t", Sc::I16 => "int16_t", Sc::I32 => "int32_t", Sc::I64 => "int64_t",
            Sc::U8 => "uint8_t", Sc::U16 => "uint16_t", Sc::U32 => "uint32_t", Sc::U64 => "uint64_t",
            Sc::Isize => "ptrdiff_t", Sc::Usize => "size_t", Sc::Bool => "_Bool", Sc::Char => "char",
            Sc::F32 => "float", Sc::F64 => "double", Sc::Ptr | Sc::OptPtr => "int32_t *", Sc::FnPtr => "fn_t",
        }
    }
    fn ty(self) -> T {
        match self {
            Sc::I8 => ty::i(8), Sc::I16 => ty::i(16), Sc::I32 => ty::i(32), Sc::I64 => ty::i(64),
            Sc::U8 => ty::u(8), Sc::U16 => ty::u(16), Sc::U32 => ty::u(32), Sc::U64 => ty::u(64),
            Sc::Isize => ty::i(255), Sc::Usize => ty::u(255),
            Sc::Bool => Ty::Bool.into(), Sc::Char => Ty::Char.into(),
            Sc::F32 => ty::f(32), Sc::F64 => ty::f(64),
            Sc::Ptr => ty::ptr(false, ty::i(32)),
            Sc::OptPtr => ty::opt(ty::ptr(false, ty::i(32))),
            Sc::FnPtr => ty::fnptr(&[], ty::i(64)),
        }
    }
}

#[derive(Clone, Debug, PartialEq, Eq)]
enum Fld {
    S(Sc),
    A(Sc, u32),
    /// an earlier struct of the same signature, by index
    N(usize),
}

#[derive(Clone, Debug, PartialEq, Eq)]
enum PTy {
    S(Sc),
    St(usize),
    Void,
}

#[derive(Clone, Debug, PartialEq, Eq)]
struct Sig {
    structs: Vec<Vec<Fld>>,
    params: Vec<PTy>,
    ret: PTy,
}

impl Sig {
    /// `structs | params | ret`, e.g. `i8,f32*3/N0,u64|S1,ptr,f64|S0`
    fn text(&self) -> String {
        let fld = |f: &Fld| match f {
            Fld::S(s) => s.name().to_string(),
            Fld::A(s, n) => format!("{}*{}", s.name(), n),
            Fld::N(j) => format!("N{j}"),
        };
        let pty = |p: &PTy| match p {
            PTy::S(s) => s.name().to_string(),
            PTy::St(j) => format!("S{j}"),
            PTy::Void => "void".to_string(),
        };
        format!(
            "{}|{}|{}",
            self.structs.iter().map(|s| s.iter().map(fld).collect::<Vec<_>>().join(",")).collect::<Vec<_>>().join("/"),
            self.params.iter().map(pty).collect::<Vec<_>>().join(","),
            pty(&self.ret)
        )
    }
    fn parse(s: &str) -> Option<Sig> {
        let parts: Vec<&str> = s.split('|').collect();
        if parts.len() != 3 {
            return None;
        }
        let mut structs = vec![];
        if !parts[0].is_empty() {
            for st in parts[0].split('/') {
                let mut fs = vec![];
                for f in st.split(',') {
                    if let Some(j) = f.strip_prefix('N') {
                        fs.push(Fld::N(j.parse().ok()?));
                    } else if let Some((a, n)) = f.split_once('*') {
                        fs.push(Fld::A(Sc::parse(a)?, n.parse().ok()?));
                    } else {
                        fs.push(Fld::S(Sc::parse(f)?));
                    }
                }
                structs.push(fs);
            }
        }
        let pty = |p: &str| -> Option<PTy> {
            if p == "void" {
                Some(PTy::Void)
            } else if let Some(sc) = Sc::parse(p) {
                Some(PTy::S(sc))
            } else {
                Some(PTy::St(p.strip_prefix('S')?.parse().ok()?))
            }
        };
        let mut params = vec![];
        if !parts[1].is_empty() {
            for p in parts[1].split(',') {
                params.push(pty(p)?);
            }
        }
        Some(Sig { structs, params, ret: pty(parts[2])? })
    }

    /// natural-alignment C layout: (sizeof, alignof)
    fn struct_layout(&self, j: usize) -> (u32, u32) {
        let (mut cur, mut al) = (0u32, 1u32);
        for f in &self.structs[j] {
            let (s, a) = match f {
                Fld::S(sc) => (sc.size(), sc.size()),
                Fld::A(sc, n) => (sc.size() * n, sc.size()),
                Fld::N(k) => self.struct_layout(*k),
            };
            cur = cur.div_ceil(a) * a + s;
            al = al.max(a);
        }
        (cur.div_ceil(al) * al, al)
    }
    /// Capy's layout of the struct: (size without tail padding, align); a nested struct member
    /// occupies its *size*, so a following field may sit in what C treats as tail padding
    fn capy_layout(&self, j: usize) -> (u32, u32) {
        let (mut cur, mut al) = (0u32, 1u32);
        for f in &self.structs[j] {
            let (s, a) = match f {
                Fld::S(sc) => (sc.size(), sc.size()),
                Fld::A(sc, n) => (sc.size() * n, sc.size()),
                Fld::N(k) => self.capy_layout(*k),
            };
            cur = cur.div_ceil(a) * a + s;
            al = al.max(a);
        }
        (cur, al)
    }
    /// some nested struct member has tail padding (C and Capy then disagree on the offsets of
    /// the members after it: a layout matter outside C19's quantifier, see REPORT)
    fn nested_tail_padding(&self) -> bool {
        self.structs.iter().any(|fs| fs.iter().any(|f| matches!(f, Fld::N(k) if self.capy_layout(*k).0 != self.struct_layout(*k).0)))
    }
    fn struct_ty(&self, j: usize, uid_base: u32) -> T {
        let ms: Vec<T> = self.structs[j]
            .iter()
            .map(|f| match f {
                Fld::S(sc) => sc.ty(),
                Fld::A(sc, n) => ty::arr(*n as u64, sc.ty()),
                Fld::N(k) => self.struct_ty(*k, uid_base),
            })
            .collect();
        ty::strukt(uid_base + j as u32, &ms)
    }
    fn pty_ty(&self, p: &PTy, uid_base: u32) -> T {
        match p {
            PTy::S(sc) => sc.ty(),
            PTy::St(j) => self.struct_ty(*j, uid_base),
            PTy::Void => Ty::Void.into(),
        }
    }
    /// (access path, scalar) of every leaf of a value of type `p`, in declaration order
    fn leaves(&self, p: &PTy) -> Vec<(String, Sc)> {
        fn go(sig: &Sig, j: usize, prefix: &str, out: &mut Vec<(String, Sc)>) {
            for (k, f) in sig.structs[j].iter().enumerate() {
                match f {
                    Fld::S(sc) => out.push((format!("{prefix}.f{k}"), *sc)),
                    Fld::A(sc, n) => {
                        for e in 0..*n {
                            out.push((format!("{prefix}.f{k}[{e}]"), *sc));
                        }
                    }
                    Fld::N(m) => go(sig, *m, &format!("{prefix}.f{k}"), out),
                }
            }
        }
        match p {
            PTy::S(sc) => vec![(String::new(), *sc)],
            PTy::St(j) => {
                let mut out = vec![];
                go(self, *j, "", &mut out);
                out
            }
            PTy::Void => vec![],
        }
    }
    fn has_fnptr(&self) -> bool {
        let in_struct = self.structs.iter().any(|s| s.iter().any(|f| matches!(f, Fld::S(Sc::FnPtr) | Fld::A(Sc::FnPtr, _))));
        in_struct || self.params.iter().chain(std::iter::once(&self.ret)).any(|p| *p == PTy::S(Sc::FnPtr))
    }
    fn nontrivial(&self) -> bool {
        let ints = self.params.iter().filter(|p| matches!(p, PTy::S(s) if !s.is_float())).count();
        let floats = self.params.iter().filter(|p| matches!(p, PTy::S(s) if s.is_float())).count();
        !self.structs.is_empty() || ints > 6 || floats > 8
    }
    /// drop structs that are no longer referenced (after shrinking) and renumber
    fn gc(&self) -> Sig {
        let mut used = vec![false; self.structs.len()];
        fn mark(sig: &Sig, j: usize, used: &mut Vec<bool>) {
            if used[j] {
                return;
            }
            used[j] = true;
            for f in &sig.structs[j] {
                if let Fld::N(k) = f {
                    mark(sig, *k, used);
                }
            }
        }
        for p in self.params.iter().chain(std::iter::once(&self.ret)) {
            if let PTy::St(j) = p {
                mark(self, *j, &mut used);
            }
        }
        let mut map = vec![usize::MAX; self.structs.len()];
        let mut structs = vec![];
        for j in 0..self.structs.len() {
            if used[j] {
                map[j] = structs.len();
                structs.push(
                    self.structs[j]
                        .iter()
                        .map(|f| match f {
                            Fld::N(k) => Fld::N(map[*k]),
                            o => o.clone(),
                        })
                        .collect(),
                );
            }
        }
        let re = |p: &PTy| match p {
            PTy::St(j) => PTy::St(map[*j]),
            o => o.clone(),
        };
        Sig { structs, params: self.params.iter().map(re).collect(), ret: re(&self.ret) }
    }
}

// ---------------------------------------------------------------------------------------
// generators
// ---------------------------------------------------------------------------------------

fn gen_struct(rng: &mut Rng, sig: &mut Sig, allow_tail: bool) -> usize {
    loop {
        let small = rng.chance(3, 5);
        let nf = 1 + rng.below(5) as usize;
        let mut fs = vec![];
        for _ in 0..nf {
            let sc = if small && rng.chance(1, 2) {
                *rng.pick(&[Sc::I8, Sc::U8, Sc::I16, Sc::U16, Sc::Bool, Sc::Char, Sc::F32, Sc::I32, Sc::U32])
            } else {
                *rng.pick(&ALL_SC)
            };
            let r = rng.below(20);
            if r < 13 || (small && r < 16) {
                fs.push(Fld::S(sc));
            } else if r < 18 {
                let n = if small { 1 + rng.below(3) } else { 1 + rng.below(8) } as u32;
                let sc = if matches!(sc, Sc::Ptr | Sc::OptPtr | Sc::FnPtr) { Sc::I16 } else { sc };
                fs.push(Fld::A(sc, n));
            } else if !sig.structs.is_empty() {
                let k = rng.below(sig.structs.len() as u64) as usize;
                if allow_tail || sig.capy_layout(k).0 == sig.struct_layout(k).0 {
                    fs.push(Fld::N(k));
                } else {
                    fs.push(Fld::S(sc));
                }
            } else {
                fs.push(Fld::S(sc));
            }
        }
        sig.structs.push(fs);
        let j = sig.structs.len() - 1;
        let (size, _) = sig.struct_layout(j);
        let limit = if small { 16 } else { 64 };
        if (1..=limit).contains(&size) {
            return j;
        }
        sig.structs.pop();
    }
}

fn gen_pty(rng: &mut Rng, sig: &mut Sig, allow_tail: bool) -> PTy {
    if rng.chance(9, 20) {
        PTy::S(*rng.pick(&ALL_SC))
    } else if !sig.structs.is_empty() && rng.chance(1, 5) {
        PTy::St(rng.below(sig.structs.len() as u64) as usize)
    } else {
        PTy::St(gen_struct(rng, sig, allow_tail))
    }
}

/// `allow_tail`: nested struct members with tail padding may occur (in-process stream only)
fn gen_sig(rng: &mut Rng, allow_tail: bool) -> Sig {
    let mut sig = Sig { structs: vec![], params: vec![], ret: PTy::Void };
    let n = if rng.chance(1, 3) { rng.below(9) } else { 4 + rng.below(5) } as usize;
    for _ in 0..n {
        let p = gen_pty(rng, &mut sig, allow_tail);
        sig.params.push(p);
    }
    sig.ret = if rng.chance(1, 7) { PTy::Void } else { gen_pty(rng, &mut sig, allow_tail) };
    sig.gc()
}

/// Signatures that put the register files under pressure: 6-14 parameters drawn from `i64`, `f64`
/// and the two-eightbyte structs `{i64,i64}`, `{f64,f64}`, `{i64,f64}`, `{f64,i64}` (and the
/// one-eightbyte `{i64}`, `{f64}`), biased per signature towards one class, so that one class runs
/// out while the other still has room, mixed structs arrive at exactly that point and later
/// structs must find the registers the rejected one did not take (seeded change C19_1).
fn gen_sig_pressure(rng: &mut Rng) -> Sig {
    let structs = vec![
        vec![Fld::S(Sc::I64), Fld::S(Sc::I64)],
        vec![Fld::S(Sc::F64), Fld::S(Sc::F64)],
        vec![Fld::S(Sc::I64), Fld::S(Sc::F64)],
        vec![Fld::S(Sc::F64), Fld::S(Sc::I64)],
        vec![Fld::S(Sc::I64)],
        vec![Fld::S(Sc::F64)],
        vec![Fld::S(Sc::F32), Fld::S(Sc::F32), Fld::S(Sc::I32)],
    ];
    let mut sig = Sig { structs, params: vec![], ret: PTy::Void };
    let n = 6 + rng.below(9) as usize;
    let bias = rng.below(3); // 0: integer-heavy, 1: sse-heavy, 2: even
    for _ in 0..n {
        let int_side: [PTy; 3] = [PTy::S(Sc::I64), PTy::St(0), PTy::St(4)];
        let sse_side: [PTy; 3] = [PTy::S(Sc::F64), PTy::St(1), PTy::St(5)];
        let mixed: [PTy; 3] = [PTy::St(2), PTy::St(3), PTy::St(6)];
        let r = rng.below(10);
        let p = match (bias, r) {
            (_, 0..=2) => rng.pick(&mixed).clone(),
            (0, 3..=7) | (2, 3..=5) => rng.pick(&int_side).clone(),
            _ => rng.pick(&sse_side).clone(),
        };
        sig.params.push(p);
    }
    sig.ret = match rng.below(4) {
        0 => PTy::Void,
        1 => PTy::St(2),
        2 => PTy::St(0),
        _ => PTy::S(Sc::I64),
    };
    sig.gc()
}

/// exhaustive small domain: every struct of one or two scalar fields and every array-of-scalar
/// struct, as return value and as the argument after a prefix of `gi` i64 and `gf` f64 arguments
fn small_domain(quick: bool) -> Vec<Sig> {
    let mut shapes: Vec<Vec<Fld>> = vec![];
    for a in ALL_SC {
        shapes.push(vec![Fld::S(a)]);
        for b in ALL_SC {
            shapes.push(vec![Fld::S(a), Fld::S(b)]);
        }
        for n in 1..=9u32 {
            if a.size() * n <= 64 {
                shapes.push(vec![Fld::A(a, n)]);
            }
        }
    }
    for a in [Sc::I8, Sc::I16, Sc::F32, Sc::I32, Sc::F64, Sc::Ptr, Sc::FnPtr] {
        for b in [Sc::U8, Sc::F32, Sc::U32, Sc::F64, Sc::I64] {
            for c in [Sc::Bool, Sc::I16, Sc::F32, Sc::F64, Sc::OptPtr] {
                shapes.push(vec![Fld::S(a), Fld::S(b), Fld::S(c)]);
            }
        }
    }
    let prefixes: Vec<(usize, usize)> = if quick {
        vec![(0, 0), (4, 0), (5, 0), (6, 0), (0, 7), (0, 8), (5, 7)]
    } else {
        let mut v = vec![];
        for gi in 0..=7 {
            for gf in [0usize, 6, 7, 8, 9] {
                v.push((gi, gf));
            }
        }
        v
    };
    let mut out = vec![];
    for sc in ALL_SC {
        out.push(Sig { structs: vec![], params: vec![PTy::S(sc)], ret: PTy::S(sc) });
        // a scalar after every register of its class is taken
        let mut params = vec![PTy::S(if sc.is_float() { Sc::F64 } else { Sc::I64 }); if sc.is_float() { 8 } else { 6 }];
        params.push(PTy::S(sc));
        out.push(Sig { structs: vec![], params, ret: PTy::Void });
    }
    for sh in &shapes {
        for &(gi, gf) in &prefixes {
            let mut params = vec![PTy::S(Sc::I64); gi];
            params.extend(vec![PTy::S(Sc::F64); gf]);
            params.push(PTy::St(0));
            if params.len() > 8 + 9 {
                continue;
            }
            params.push(PTy::S(Sc::I32));
            params.push(PTy::S(Sc::F32));
            out.push(Sig { structs: vec![sh.clone()], params, ret: if gi == 0 && gf == 0 { PTy::St(0) } else { PTy::Void } });
        }
    }
    // a function pointer before the arguments (the case the pinned tree gets wrong)
    for sh in &shapes {
        for gi in [3usize, 4, 5] {
            let mut params = vec![PTy::S(Sc::FnPtr)];
            params.extend(vec![PTy::S(Sc::I64); gi]);
            params.push(PTy::St(0));
            out.push(Sig { structs: vec![sh.clone()], params, ret: PTy::Void });
        }
    }
    out
}

// ---------------------------------------------------------------------------------------
// stream 1: FnAbi of the implementation vs model, its assignment vs psABI
// ---------------------------------------------------------------------------------------

#[derive(Clone, Debug, PartialEq)]
enum Pm {
    Cast(Vec<String>),
    Direct(String),
    Indirect(Option<u64>),
}

fn pm_str(p: &Pm) -> String {
    match p {
        Pm::Cast(t) => format!("cast[{}]", t.join(",")),
        Pm::Direct(t) => format!("direct({t})"),
        Pm::Indirect(Some(n)) => format!("indirect({n})"),
        Pm::Indirect(None) => "indirect(-)".into(),
    }
}

/// matching close bracket of the bracket at byte `open`
fn matching(s: &[u8], open: usize) -> Option<usize> {
    let mut depth = 0i32;
    for (k, &c) in s.iter().enumerate().skip(open) {
        match c {
            b'(' | b'[' | b'{' => depth += 1,
            b')' | b']' | b'}' => {
                depth -= 1;
                if depth == 0 {
                    return Some(k);
                }
            }
            _ => {}
        }
    }
    None
}

fn parse_pm(s: &str) -> Option<Pm> {
    let s = s.trim();
    if let Some(rest) = s.strip_prefix("Cast {") {
        let a = rest.find("tys: [")? + 6;
        let b = a + rest[a..].find(']')?;
        let tys = rest[a..b]
            .split(',')
            .map(|t| t.trim().trim_start_matches("types::").to_lowercase())
            .filter(|t| !t.is_empty())
            .collect();
        Some(Pm::Cast(tys))
    } else if let Some(rest) = s.strip_prefix("Direct(") {
        let b = rest.find(')')?;
        Some(Pm::Direct(rest[..b].trim().trim_start_matches("types::").to_lowercase()))
    } else if let Some(rest) = s.strip_prefix("Indirect(") {
        if let Some(r2) = rest.strip_prefix("Some(") {
            let b = r2.find(')')?;
            Some(Pm::Indirect(Some(r2[..b].parse().ok()?)))
        } else {
            Some(Pm::Indirect(None))
        }
    } else {
        None
    }
}

/// `FnAbi { args: [(PassMode, idx), …], ret: Option<PassMode>, simple_ret: bool }` (Debug)
fn parse_abi(dbg: &str) -> Option<(Vec<(Pm, u64)>, Option<Pm>)> {
    let b = dbg.as_bytes();
    let a0 = dbg.find("args: [")? + 6;
    let a1 = matching(b, a0)?;
    let inner = &dbg[a0 + 1..a1];
    let ib = inner.as_bytes();
    let mut args = vec![];
    let mut k = 0;
    while k < ib.len() {
        if ib[k] == b'(' {
            let e = matching(ib, k)?;
            let tup = &inner[k + 1..e];
            let comma = tup.rfind(',')?;
            let idx: u64 = tup[comma + 1..].trim().parse().ok()?;
            args.push((parse_pm(&tup[..comma])?, idx));
            k = e + 1;
        } else {
            k += 1;
        }
    }
    let rest = &dbg[a1..];
    let r0 = rest.find("ret: ")? + 5;
    let r = &rest[r0..];
    let ret = if r.starts_with("None") { None } else { Some(parse_pm(r.strip_prefix("Some(")?)?) };
    Some((args, ret))
}

fn abi_str(abi: &(Vec<(Pm, u64)>, Option<Pm>)) -> String {
    format!(
        "ret={} args=[{}]",
        abi.1.as_ref().map(pm_str).unwrap_or("none".into()),
        abi.0.iter().map(|(p, i)| format!("{}@{}", pm_str(p), i)).collect::<Vec<_>>().join(" ")
    )
}

/// what Cranelift's System V lowering does with the signature `FnAbi::to_cl` builds
fn cl_assign(abi: &(Vec<(Pm, u64)>, Option<Pm>)) -> String {
    fn param(t: &str, g: &mut u32, x: &mut u32, out: &mut Vec<String>) {
        if t.starts_with('f') {
            if *x < 8 {
                out.push(format!("x{x}"));
                *x += 1;
            } else {
                out.push("s8".into());
            }
        } else if t == "i128" {
            if *g + 2 <= 6 {
                out.push(format!("g{g}"));
                out.push(format!("g{}", *g + 1));
                *g += 2;
            } else {
                out.push("s16".into());
            }
        } else if *g < 6 {
            out.push(format!("g{g}"));
            *g += 1;
        } else {
            out.push("s8".into());
        }
    }
    let (mut g, mut x) = (0u32, 0u32);
    let ret = match &abi.1 {
        None => "none".to_string(),
        Some(Pm::Indirect(_)) => {
            g = 1;
            "sret".to_string()
        }
        Some(Pm::Cast(tys)) => {
            let (mut rg, mut rx) = (0, 0);
            let l: Vec<String> = tys
                .iter()
                .map(|t| {
                    if t.starts_with('f') {
                        rx += 1;
                        format!("x{}", rx - 1)
                    } else {
                        rg += 1;
                        format!("g{}", rg - 1)
                    }
                })
                .collect();
            format!("regs[{}]", l.join(","))
        }
        Some(Pm::Direct(t)) => format!("regs[{}]", if t.starts_with('f') { "x0" } else { "g0" }),
    };
    let mut args = vec![];
    for (pm, idx) in &abi.0 {
        let mut l = vec![];
        match pm {
            Pm::Cast(tys) => {
                for t in tys {
                    param(t, &mut g, &mut x, &mut l);
                }
            }
            Pm::Direct(t) => param(t, &mut g, &mut x, &mut l),
            Pm::Indirect(Some(n)) => l.push(format!("s{n}")),
            Pm::Indirect(None) => param("i64", &mut g, &mut x, &mut l),
        }
        args.push(format!("{}:{}", idx, l.join(",")));
    }
    format!("ret={} args=[{}]", ret, args.join(" "))
}

struct Abi3 {
    impl_abi: String,
    impl_assign: String,
    raw: String,
}

fn impl_abi(sig: &Sig, uid_base: u32) -> Abi3 {
    let params: Vec<_> = sig.params.iter().map(|p| ty::param(sig.pty_ty(p, uid_base))).collect();
    let ret = sig.pty_ty(&sig.ret, uid_base);
    match catch_unwind(AssertUnwindSafe(|| codegen::verif::x86_64_sysv_abi(&params, ret, 64))) {
        Ok(dbg) => match parse_abi(&dbg) {
            Some(abi) => Abi3 { impl_abi: abi_str(&abi), impl_assign: cl_assign(&abi), raw: dbg },
            None => Abi3 { impl_abi: format!("UNPARSED {dbg}"), impl_assign: "UNPARSED".into(), raw: dbg },
        },
        Err(_) => Abi3 { impl_abi: "PANIC".into(), impl_assign: "PANIC".into(), raw: "PANIC".into() },
    }
}

fn lean_req(op: &str, sig: &Sig, uid_base: u32) -> String {
    let mut parts = vec![ty::sexp(&sig.pty_ty(&sig.ret, uid_base))];
    for p in &sig.params {
        parts.push(ty::sexp(&sig.pty_ty(p, uid_base)));
    }
    format!("C19 {op} {}", parts.join(" | "))
}

/// (model abi, model assignment, spec assignment)
fn split3(ans: &str) -> (String, String, String) {
    let v: Vec<&str> = ans.split(" ; ").collect();
    if v.len() == 3 {
        (v[0].to_string(), v[1].to_string(), v[2].to_string())
    } else {
        (ans.to_string(), ans.to_string(), ans.to_string())
    }
}

fn assign_label(sig: &Sig, impl_assign: &str) -> String {
    if impl_assign == "PANIC" {
        if sig.has_fnptr() { "assign:panic-fnptr".into() } else { "assign:panic".into() }
    } else if sig.has_fnptr() {
        "assign:fnptr-not-counted".into()
    } else {
        "assign:other".into()
    }
}

fn stream_abi(rep: &mut Report, sigs: &[Sig]) {
    let reqs: Vec<String> = sigs.iter().enumerate().map(|(k, s)| lean_req("sig", s, 1000 + 16 * k as u32)).collect();
    let answers = lean::ask(&reqs);
    for (k, sig) in sigs.iter().enumerate() {
        let im = impl_abi(sig, 1000 + 16 * k as u32);
        let (m_abi, m_assign, spec) = split3(&answers[k]);
        let text = sig.text();
        rep.case(if sig.nontrivial() { Some(text.clone()) } else { None });
        for part in im.impl_abi.split(|c| c == ' ' || c == '=') {
            if let Some(p) = part.find(|c| c == '[' || c == '(') {
                let kind = &part[..p];
                if matches!(kind, "cast" | "direct" | "indirect") {
                    rep.hit(&format!("abi:{kind}"));
                }
            }
        }
        if spec.contains("sret") {
            rep.hit("abi:sret");
        }
        if answers[k] != "?" {
            if im.impl_abi != m_abi {
                rep.disagree(json!({"kind": "abi", "sig": text}), json!(im.impl_abi), json!(m_abi));
            } else if im.impl_assign != m_assign {
                // the Rust and the Lean copy of the Cranelift assigner differ: harness bug
                rep.disagree(json!({"kind": "cl_assign", "sig": text}), json!(im.impl_assign), json!(m_assign));
            }
            if im.impl_assign != spec {
                rep.oracle_fail(
                    &assign_label(sig, &im.impl_assign),
                    json!({"kind": "abi", "sig": text}),
                    json!(format!("{} => {}", im.impl_abi, im.impl_assign)),
                    json!(spec),
                    "registers / stack slots Cranelift derives from the FnAbi of fn_ty_to_abi vs the psABI assignment",
                );
            }
        }
        if k < 3 {
            rep.sample(json!({"sig": text, "impl": im.impl_abi, "assign": im.impl_assign, "spec": spec}));
        }
        let _ = &im.raw;
    }
    rep.traces_validated += sigs.len() as u64;
}

// ---------------------------------------------------------------------------------------
// stream 2: end to end against gcc
// ---------------------------------------------------------------------------------------

#[derive(Clone, Debug)]
enum Val {
    Int(i128),
    Flt(f64),
    PtrTo(i32),
    Nil,
    Fun(i64),
}

fn gen_val(rng: &mut Rng, sc: Sc) -> Val {
    let int = |rng: &mut Rng, lo: i128, hi: i128| -> Val {
        let v = match rng.below(8) {
            0 => lo,
            1 => hi,
            2 => 0,
            3 => {
                if lo < 0 { -1 } else { 1 }
            }
            _ => {
                let span = (hi - lo + 1) as u128;
                let r = ((rng.next() as u128) << 64 | rng.next() as u128) % span;
                lo + r as i128
            }
        };
        Val::Int(v)
    };
    match sc {
        // `-128` is the negation of the literal 128, which Capy range-checks against i8 (C09's
        // subject, not this property's): the most negative value of each width is left out
        Sc::I8 => int(rng, -127, 127),
        Sc::I16 => int(rng, -32767, 32767),
        Sc::I32 => int(rng, -2147483647, 2147483647),
        Sc::I64 | Sc::Isize => int(rng, -9223372036854775807, 9223372036854775807),
        Sc::U8 => int(rng, 0, 255),
        Sc::U16 => int(rng, 0, 65535),
        Sc::U32 => int(rng, 0, 4294967295),
        Sc::U64 | Sc::Usize => int(rng, 0, 18446744073709551615),
        Sc::Bool => Val::Int(rng.below(2) as i128),
        Sc::Char => Val::Int(*rng.pick(b"abcdefghijklmnopqrstuvwxyzABCDEFGHIJKLMNOPQRSTUVWXYZ0123456789") as i128),
        // dyadic rationals: exact in f32 and f64 and in both languages' decimal literals
        Sc::F32 | Sc::F64 => Val::Flt(rng.range(-80000, 80000) as f64 / 8.0),
        Sc::Ptr => Val::PtrTo(rng.range(-1000000, 1000000) as i32),
        Sc::OptPtr => {
            if rng.chance(1, 3) { Val::Nil } else { Val::PtrTo(rng.range(0, 1000000) as i32) }
        }
        Sc::FnPtr => Val::Fun(rng.range(-1000000000, 1000000000)),
    }
}

/// the text the C helper prints for this leaf
fn expect_text(sc: Sc, v: &Val) -> String {
    match (sc, v) {
        (Sc::F32, Val::Flt(f)) => format!("f{:08x}", (*f as f32).to_bits()),
        (Sc::F64, Val::Flt(f)) => format!("d{:016x}", f.to_bits()),
        (_, Val::Int(i)) => format!("{i}"),
        (_, Val::PtrTo(p)) => format!("{p}"),
        (_, Val::Nil) => "-1".into(),
        (_, Val::Fun(r)) => format!("{r}"),
        _ => "?".into(),
    }
}

fn flt_lit(f: f64) -> String {
    format!("{:.3}", f)
}

struct Names {
    k: usize,
}
impl Names {
    fn st(&self, j: usize) -> String {
        format!("S{}_{}", self.k, j)
    }
    fn pty_c(&self, p: &PTy) -> String {
        match p {
            PTy::S(sc) => sc.c().to_string(),
            PTy::St(j) => self.st(*j),
            PTy::Void => "void".into(),
        }
    }
    fn pty_capy(&self, p: &PTy) -> String {
        match p {
            PTy::S(sc) => sc.capy().to_string(),
            PTy::St(j) => self.st(*j),
            PTy::Void => "void".into(),
        }
    }
}

/// values of every leaf of every parameter and of the result, for one call direction
#[derive(Clone)]
struct CallVals {
    args: Vec<Vec<Val>>,
    ret: Vec<Val>,
}

fn gen_vals(rng: &mut Rng, sig: &Sig) -> CallVals {
    CallVals {
        args: sig.params.iter().map(|p| sig.leaves(p).iter().map(|(_, sc)| gen_val(rng, *sc)).collect()).collect(),
        ret: sig.leaves(&sig.ret).iter().map(|(_, sc)| gen_val(rng, *sc)).collect(),
    }
}

/// C statement printing one leaf
fn c_print(tag: u64, e: &str, sc: Sc) -> String {
    match sc {
        Sc::I8 | Sc::I16 | Sc::I32 | Sc::I64 | Sc::Isize | Sc::Bool | Sc::Char => format!("pr_i({tag}, (int64_t){e});"),
        Sc::U8 | Sc::U16 | Sc::U32 | Sc::U64 | Sc::Usize => format!("pr_u({tag}, (uint64_t){e});"),
        Sc::F32 => format!("pr_f({tag}, {e});"),
        Sc::F64 => format!("pr_d({tag}, {e});"),
        Sc::Ptr => format!("pr_i({tag}, *{e});"),
        Sc::OptPtr => format!("pr_i({tag}, {e} ? *{e} : -1);"),
        Sc::FnPtr => format!("pr_i({tag}, {e}());"),
    }
}

/// Capy statement printing one leaf
fn capy_print(tag: u64, e: &str, sc: Sc) -> String {
    match sc {
        Sc::I8 | Sc::I16 | Sc::I32 | Sc::I64 | Sc::Isize => format!("pr_i({tag}, i64.({e}));"),
        Sc::Bool => format!("if {e} {{ pr_i({tag}, 1); }} else {{ pr_i({tag}, 0); }}"),
        Sc::Char => format!("pr_u({tag}, u64.(u8.({e})));"),
        Sc::U8 | Sc::U16 | Sc::U32 | Sc::U64 | Sc::Usize => format!("pr_u({tag}, u64.({e}));"),
        Sc::F32 => format!("pr_f({tag}, {e});"),
        Sc::F64 => format!("pr_d({tag}, {e});"),
        Sc::Ptr => format!("pr_i({tag}, i64.({e}^));"),
        Sc::OptPtr => format!("if {e} == nil {{ pr_i({tag}, -1); }} else {{ pr_i({tag}, i64.(#unwrap({e})^)); }}"),
        Sc::FnPtr => format!("{{ fp_tmp := {e}; pr_i({tag}, fp_tmp()); }}"),
    }
}

struct Gen {
    c: String,
    capy: String,
    capy_main: String,
    fn_counter: usize,
}

impl Gen {
    /// C expression of a scalar value; function values get a static C function
    fn c_scalar(&mut self, sc: Sc, v: &Val) -> String {
        match v {
            Val::Int(i) => {
                if sc == Sc::Bool {
                    format!("{i}")
                } else {
                    format!("({})0x{:x}ULL", sc.c(), (*i as i64) as u64)
                }
            }
            Val::Flt(f) => {
                if sc == Sc::F32 { format!("{}f", flt_lit(*f)) } else { flt_lit(*f) }
            }
            Val::PtrTo(p) => format!("get_ptr({p})"),
            Val::Nil => "0".into(),
            Val::Fun(r) => {
                self.fn_counter += 1;
                let name = format!("cfn_{}", self.fn_counter);
                self.c.push_str(&format!("static int64_t {name}(void) {{ return {r}LL; }}\n"));
                name
            }
        }
    }
    /// Capy expression of a scalar value; function values get a top-level Capy function
    fn capy_scalar(&mut self, sc: Sc, v: &Val) -> String {
        match v {
            Val::Int(i) => match sc {
                Sc::Bool => (if *i != 0 { "true" } else { "false" }).to_string(),
                Sc::Char => format!("'{}'", (*i as u8) as char),
                _ => format!("{i}"),
            },
            Val::Flt(f) => flt_lit(*f),
            Val::PtrTo(p) => {
                if sc == Sc::OptPtr { format!("?^i32.(get_ptr({p}))") } else { format!("get_ptr({p})") }
            }
            Val::Nil => "?^i32.(nil)".into(),
            Val::Fun(r) => {
                self.fn_counter += 1;
                let name = format!("capyfn_{}", self.fn_counter);
                self.capy.push_str(&format!("{name} :: () -> i64 {{ {r} }}\n"));
                name
            }
        }
    }
}

/// Capy literal of a whole value of type `p` (leaf values consumed in declaration order)
fn capy_literal(g: &mut Gen, sig: &Sig, nm: &Names, p: &PTy, vals: &mut std::slice::Iter<Val>) -> String {
    fn st(g: &mut Gen, sig: &Sig, nm: &Names, j: usize, vals: &mut std::slice::Iter<Val>) -> String {
        let mut fs = vec![];
        for (k, f) in sig.structs[j].iter().enumerate() {
            let e = match f {
                Fld::S(sc) => g.capy_scalar(*sc, vals.next().unwrap()),
                Fld::A(sc, n) => {
                    let items: Vec<String> = (0..*n).map(|_| g.capy_scalar(*sc, vals.next().unwrap())).collect();
                    format!("{}.[{}]", sc.capy(), items.join(", "))
                }
                Fld::N(m) => st(g, sig, nm, *m, vals),
            };
            fs.push(format!("f{k} = {e}"));
        }
        format!("{}.{{ {} }}", nm.st(j), fs.join(", "))
    }
    match p {
        PTy::S(sc) => g.capy_scalar(*sc, vals.next().unwrap()),
        PTy::St(j) => st(g, sig, nm, *j, vals),
        PTy::Void => String::new(),
    }
}

const C_PRELUDE: &str = r#"#include <stdio.h>
#include <stdint.h>
#include <stddef.h>
#include <string.h>
typedef int64_t (*fn_t)(void);
void pr_i(int64_t tag, int64_t v) { printf("%lld=%lld\n", (long long)tag, (long long)v); }
void pr_u(int64_t tag, uint64_t v) { printf("%lld=%llu\n", (long long)tag, (unsigned long long)v); }
void pr_d(int64_t tag, double v) { uint64_t b; memcpy(&b, &v, 8); printf("%lld=d%016llx\n", (long long)tag, (unsigned long long)b); }
void pr_f(int64_t tag, float v) { uint32_t b; memcpy(&b, &v, 4); printf("%lld=f%08x\n", (long long)tag, b); }
int32_t *get_ptr(int32_t v) { static int32_t tab[65536]; static int n; tab[n] = v; return &tab[n++]; }
void done(void) { printf("done\n"); fflush(stdout); }
"#;

const CAPY_PRELUDE: &str = r#"Fn_T :: () -> i64;
pr_i :: (tag: i64, v: i64) extern;
pr_u :: (tag: i64, v: u64) extern;
pr_d :: (tag: i64, v: f64) extern;
pr_f :: (tag: i64, v: f32) extern;
get_ptr :: (v: i32) -> ^i32 extern;
done :: () extern;
"#;

fn tag_base(k: usize, site: u64) -> u64 {
    ((k as u64) * 4 + site) * 1000
}

/// Appends signature `k` to the program; returns the expected `tag -> text` map.
fn emit_sig(g: &mut Gen, k: usize, sig: &Sig, va: &CallVals, vb: &CallVals) -> BTreeMap<u64, String> {
    let nm = Names { k };
    let mut expect = BTreeMap::new();
    // type definitions
    for (j, fs) in sig.structs.iter().enumerate() {
        let mut cdef = String::from("typedef struct { ");
        let mut capydef = format!("{} :: struct {{ ", nm.st(j));
        for (n, f) in fs.iter().enumerate() {
            match f {
                Fld::S(sc) => {
                    cdef.push_str(&format!("{} f{n}; ", sc.c()));
                    capydef.push_str(&format!("f{n}: {}, ", sc.capy()));
                }
                Fld::A(sc, len) => {
                    cdef.push_str(&format!("{} f{n}[{len}]; ", sc.c()));
                    capydef.push_str(&format!("f{n}: [{len}]{}, ", sc.capy()));
                }
                Fld::N(m) => {
                    cdef.push_str(&format!("{} f{n}; ", nm.st(*m)));
                    capydef.push_str(&format!("f{n}: {}, ", nm.st(*m)));
                }
            }
        }
        cdef.push_str(&format!("}} {};\n", nm.st(j)));
        capydef.push_str("};\n");
        g.c.push_str(&cdef);
        g.capy.push_str(&capydef);
    }
    let c_params: Vec<String> = sig.params.iter().enumerate().map(|(n, p)| format!("{} a{n}", nm.pty_c(p))).collect();
    let c_param_tys: Vec<String> = sig.params.iter().map(|p| nm.pty_c(p)).collect();
    let capy_params: Vec<String> = sig.params.iter().enumerate().map(|(n, p)| format!("a{n}: {}", nm.pty_capy(p))).collect();
    let void_list = |v: &Vec<String>| if v.is_empty() { "void".to_string() } else { v.join(", ") };
    let capy_ret = if sig.ret == PTy::Void { String::new() } else { format!(" -> {}", nm.pty_capy(&sig.ret)) };
    let ret_leaves = sig.leaves(&sig.ret);

    // ---- C statements building a value of type p in variable `var`
    fn c_build(g: &mut Gen, sig: &Sig, nm: &Names, p: &PTy, var: &str, vals: &[Val]) -> String {
        let mut s = String::new();
        match p {
            PTy::Void => {}
            PTy::S(sc) => {
                let e = g.c_scalar(*sc, &vals[0]);
                s.push_str(&format!("  {} {var} = {e};\n", nm.pty_c(p)));
            }
            PTy::St(_) => {
                s.push_str(&format!("  {} {var}; memset(&{var}, 0x5a, sizeof {var});\n", nm.pty_c(p)));
                for ((path, sc), v) in sig.leaves(p).iter().zip(vals.iter()) {
                    let e = g.c_scalar(*sc, v);
                    s.push_str(&format!("  {var}{path} = {e};\n"));
                }
            }
        }
        s
    }

    // ---- direction A: Capy calls the C callee
    let mut body = String::new();
    let mut t = tag_base(k, 0);
    for (n, p) in sig.params.iter().enumerate() {
        for ((path, sc), v) in sig.leaves(p).iter().zip(va.args[n].iter()) {
            body.push_str(&format!("  {}\n", c_print(t, &format!("a{n}{path}"), *sc)));
            expect.insert(t, expect_text(*sc, v));
            t += 1;
        }
    }
    let build_ret = c_build(g, sig, &nm, &sig.ret, "r", &va.ret);
    g.c.push_str(&format!("{} c_callee_{k}({}) {{\n{body}{build_ret}  return{};\n}}\n",
        nm.pty_c(&sig.ret), void_list(&c_params), if sig.ret == PTy::Void { "" } else { " r" }));
    g.capy.push_str(&format!("c_callee_{k} :: ({}){capy_ret} extern;\n", capy_params.join(", ")));
    let mut call_args = vec![];
    for (n, p) in sig.params.iter().enumerate() {
        let mut it = va.args[n].iter();
        call_args.push(capy_literal(g, sig, &nm, p, &mut it));
    }
    if sig.ret == PTy::Void {
        g.capy_main.push_str(&format!("    c_callee_{k}({});\n", call_args.join(", ")));
    } else {
        g.capy_main.push_str(&format!("    r{k} := c_callee_{k}({});\n", call_args.join(", ")));
        let mut t = tag_base(k, 1);
        for ((path, sc), v) in ret_leaves.iter().zip(va.ret.iter()) {
            g.capy_main.push_str(&format!("    {}\n", capy_print(t, &format!("r{k}{path}"), *sc)));
            expect.insert(t, expect_text(*sc, v));
            t += 1;
        }
    }

    // ---- direction B: the C caller calls the Capy callee through a function pointer
    let mut cbody = String::new();
    let mut t = tag_base(k, 2);
    for (n, p) in sig.params.iter().enumerate() {
        for ((path, sc), v) in sig.leaves(p).iter().zip(vb.args[n].iter()) {
            cbody.push_str(&format!("    {}\n", capy_print(t, &format!("a{n}{path}"), *sc)));
            expect.insert(t, expect_text(*sc, v));
            t += 1;
        }
    }
    let mut it = vb.ret.iter();
    let ret_lit = capy_literal(g, sig, &nm, &sig.ret, &mut it);
    let ret_stmt = if sig.ret == PTy::Void { String::new() } else { format!("    ret_v : {} = {ret_lit};\n    ret_v\n", nm.pty_capy(&sig.ret)) };
    g.capy.push_str(&format!("capy_callee_{k} :: ({}){capy_ret} {{\n{cbody}{ret_stmt}}}\n", capy_params.join(", ")));
    g.capy.push_str(&format!("c_caller_{k} :: (fp: ({}) -> {}) extern;\n", capy_params.join(", "), nm.pty_capy(&sig.ret)));
    let mut caller = String::new();
    for (n, p) in sig.params.iter().enumerate() {
        caller.push_str(&c_build(g, sig, &nm, p, &format!("a{n}"), &vb.args[n]));
    }
    let arg_names: Vec<String> = (0..sig.params.len()).map(|n| format!("a{n}")).collect();
    if sig.ret == PTy::Void {
        caller.push_str(&format!("  fp({});\n", arg_names.join(", ")));
    } else {
        caller.push_str(&format!("  {} r = fp({});\n", nm.pty_c(&sig.ret), arg_names.join(", ")));
        let mut t = tag_base(k, 3);
        for ((path, sc), v) in ret_leaves.iter().zip(vb.ret.iter()) {
            caller.push_str(&format!("  {}\n", c_print(t, &format!("r{path}"), *sc)));
            expect.insert(t, expect_text(*sc, v));
            t += 1;
        }
    }
    g.c.push_str(&format!("void c_caller_{k}({} (*fp)({})) {{\n{caller}}}\n", nm.pty_c(&sig.ret), void_list(&c_param_tys)));
    g.capy_main.push_str(&format!("    c_caller_{k}(capy_callee_{k});\n"));
    expect
}

struct Prog {
    capy: String,
    c: String,
    opt: &'static str,
    /// per signature: expected tag → text
    expect: Vec<BTreeMap<u64, String>>,
}

fn make_prog(sigs: &[(Sig, u64)], opt: &'static str) -> Prog {
    let mut g = Gen { c: C_PRELUDE.to_string(), capy: CAPY_PRELUDE.to_string(), capy_main: String::new(), fn_counter: 0 };
    let mut expect = vec![];
    for (k, (sig, vseed)) in sigs.iter().enumerate() {
        let mut vr = Rng::new(*vseed);
        let va = gen_vals(&mut vr, sig);
        let vb = gen_vals(&mut vr, sig);
        expect.push(emit_sig(&mut g, k, sig, &va, &vb));
    }
    let capy = format!("{}main :: () {{\n{}    done();\n}}\n", g.capy, g.capy_main);
    Prog { capy, c: g.c, opt, expect }
}

#[derive(Default, Clone)]
struct RunOut {
    stage: String,
    detail: String,
    lines: BTreeMap<u64, String>,
    done: bool,
}

fn sh(mut cmd: Command, deadline: Duration) -> (Option<i32>, String, bool) {
    cmd.stdin(Stdio::null()).stdout(Stdio::piped()).stderr(Stdio::piped());
    let mut child = match cmd.spawn() {
        Ok(c) => c,
        Err(e) => return (Some(-2), format!("spawn failed: {e}"), false),
    };
    let mut so = child.stdout.take().unwrap();
    let mut se = child.stderr.take().unwrap();
    let t1 = std::thread::spawn(move || {
        let mut v = vec![];
        let _ = std::io::Read::read_to_end(&mut so, &mut v);
        v
    });
    let t2 = std::thread::spawn(move || {
        let mut v = vec![];
        let _ = std::io::Read::read_to_end(&mut se, &mut v);
        v
    });
    let start = Instant::now();
    let mut timeout = false;
    let status = loop {
        match child.try_wait() {
            Ok(Some(s)) => break Some(s),
            Ok(None) => {
                if start.elapsed() > deadline {
                    let _ = child.kill();
                    timeout = true;
                    break child.wait().ok();
                }
                std::thread::sleep(Duration::from_millis(3));
            }
            Err(_) => break None,
        }
    };
    let out = t1.join().unwrap_or_default();
    let err = t2.join().unwrap_or_default();
    let mut text = String::from_utf8_lossy(&out).to_string();
    if !err.is_empty() {
        text.push_str("\n[stderr]\n");
        text.push_str(&String::from_utf8_lossy(&err));
    }
    (status.and_then(|s| s.code()), text, timeout)
}

fn scratch() -> PathBuf {
    let base = std::env::var("CVH_SCRATCH").unwrap_or_else(|_| "/verif/.build/e2e".into());
    PathBuf::from(base).join(format!("c19_p{}", std::process::id()))
}

fn run_prog(idx: usize, p: &Prog) -> RunOut {
    let dir = scratch().join(format!("n{idx}"));
    let _ = std::fs::remove_dir_all(&dir);
    std::fs::create_dir_all(&dir).unwrap();
    std::fs::write(dir.join("main.capy"), &p.capy).unwrap();
    std::fs::write(dir.join("side.c"), &p.c).unwrap();
    let tail = |s: &str| {
        let keep: Vec<&str> = s.lines().filter(|l| !l.starts_with("split_aggregate")).collect();
        let n = keep.len();
        keep[n.saturating_sub(12)..].join("\n")
    };
    let mut out = RunOut::default();
    let mut c = Command::new(e2e::capy_bin());
    c.current_dir(&dir).args(["build", "main.capy", "--no-exec", "--mod-dir", &e2e::mod_dir(), "--color", "never", "-o", "prog"]).env("RUST_BACKTRACE", "0");
    let (st, text, to) = sh(c, Duration::from_secs(180));
    if st != Some(0) || to || !dir.join("out/prog.o").exists() {
        out.stage = if text.contains("panicked at") { "capy-panic".into() } else { "capy-build".into() };
        out.detail = tail(&text);
        return out;
    }
    let mut c = Command::new("gcc");
    c.current_dir(&dir).args([p.opt, "-w", "-c", "side.c", "-o", "side.o"]);
    let (st, text, _) = sh(c, Duration::from_secs(180));
    if st != Some(0) {
        out.stage = "gcc-compile".into();
        out.detail = tail(&text);
        return out;
    }
    let mut c = Command::new("gcc");
    c.current_dir(&dir).args(["-o", "prog", "out/prog.o", "side.o"]);
    let (st, text, _) = sh(c, Duration::from_secs(180));
    if st != Some(0) {
        out.stage = "link".into();
        out.detail = tail(&text);
        return out;
    }
    let mut c = Command::new(dir.join("prog"));
    c.current_dir(&dir);
    let (st, text, to) = sh(c, Duration::from_secs(30));
    for l in text.lines() {
        if l == "done" {
            out.done = true;
        } else if let Some((a, b)) = l.split_once('=') {
            if let Ok(tag) = a.parse::<u64>() {
                out.lines.insert(tag, b.to_string());
            }
        }
    }
    out.stage = if to {
        "run-timeout".into()
    } else if st != Some(0) || !out.done {
        "run-crash".into()
    } else {
        "ok".into()
    };
    if out.stage != "ok" {
        out.detail = format!("status {st:?}; {}", tail(&text));
    }
    if std::env::var("C19_KEEP").is_err() {
        let _ = std::fs::remove_dir_all(&dir);
    }
    out
}

fn run_progs(progs: &[Prog]) -> Vec<RunOut> {
    let n = progs.len();
    let jobs: usize = std::env::var("CVH_JOBS").ok().and_then(|s| s.parse().ok()).unwrap_or(16).max(1);
    let next = Arc::new(AtomicUsize::new(0));
    let results: Arc<Mutex<Vec<Option<RunOut>>>> = Arc::new(Mutex::new(vec![None; n]));
    std::thread::scope(|s| {
        for _ in 0..jobs.min(n.max(1)) {
            let next = next.clone();
            let results = results.clone();
            s.spawn(move || loop {
                let i = next.fetch_add(1, Ordering::SeqCst);
                if i >= n {
                    break;
                }
                let o = run_prog(i, &progs[i]);
                results.lock().unwrap()[i] = Some(o);
            });
        }
    });
    let v = std::mem::take(&mut *results.lock().unwrap());
    v.into_iter().map(|o| o.unwrap_or_default()).collect()
}

/// mismatching tags of signature `k` in a finished run: (tag, expected, got)
fn mismatches(exp: &BTreeMap<u64, String>, out: &RunOut) -> Vec<(u64, String, String)> {
    let mut v = vec![];
    for (t, e) in exp {
        match out.lines.get(t) {
            Some(g) if g == e => {}
            Some(g) => v.push((*t, e.clone(), g.clone())),
            None => v.push((*t, e.clone(), "<missing>".into())),
        }
    }
    v
}

fn site_name(tag: u64) -> &'static str {
    match (tag / 1000) % 4 {
        0 => "capy->C:arg",
        1 => "capy->C:ret",
        2 => "C->capy:arg",
        _ => "C->capy:ret",
    }
}

/// verdict of one signature run alone: None = all values intact
fn single_verdict(sig: &Sig, vseed: u64, opt: &'static str, idx: usize) -> Option<(String, String)> {
    let p = make_prog(&[(sig.clone(), vseed)], opt);
    let out = run_prog(idx, &p);
    if out.stage != "ok" {
        return Some((out.stage.clone(), out.detail.clone()));
    }
    let mm = mismatches(&p.expect[0], &out);
    if mm.is_empty() {
        None
    } else {
        let (t, e, g) = &mm[0];
        Some((site_name(*t).to_string(), format!("{} value(s) differ; first: tag {t} ({}) expected {e} got {g}", mm.len(), site_name(*t))))
    }
}

/// greedy shrink: drop parameters, turn the result into void, while the same kind of failure persists
fn shrink(sig: &Sig, vseed: u64, opt: &'static str, kind: &str, idx: usize) -> Sig {
    let mut cur = sig.clone();
    let mut budget = 24;
    loop {
        let mut progress = false;
        let mut cands: Vec<Sig> = vec![];
        if cur.ret != PTy::Void {
            let mut c = cur.clone();
            c.ret = PTy::Void;
            cands.push(c.gc());
        }
        for n in 0..cur.params.len() {
            let mut c = cur.clone();
            c.params.remove(n);
            cands.push(c.gc());
        }
        for c in cands {
            if budget == 0 {
                return cur;
            }
            budget -= 1;
            if let Some((k2, _)) = single_verdict(&c, vseed, opt, idx) {
                if k2 == kind {
                    cur = c;
                    progress = true;
                    break;
                }
            }
        }
        if !progress {
            return cur;
        }
    }
}

fn e2e_label(sig: &Sig, kind: &str) -> String {
    if sig.has_fnptr() {
        format!("e2e:fnptr:{kind}")
    } else {
        format!("e2e:{kind}")
    }
}

fn stream_e2e(rep: &mut Report, rng: &mut Rng, n_progs: usize, per_prog: usize, fixed: &[Sig]) {
    if !e2e::available() {
        rep.notes.push("capy CLI not built: end-to-end stream skipped".into());
        return;
    }
    let mut all: Vec<Vec<(Sig, u64)>> = vec![];
    let mut fixed_iter = fixed.iter();
    for _ in 0..n_progs {
        let mut sigs = vec![];
        for _ in 0..per_prog {
            let s = match fixed_iter.next() {
                Some(s) => s.clone(),
                None => gen_sig(rng, false),
            };
            sigs.push((s, rng.next()));
        }
        all.push(sigs);
    }
    let progs: Vec<Prog> = all.iter().enumerate().map(|(i, s)| make_prog(s, if i % 2 == 0 { "-O2" } else { "-O0" })).collect();
    let outs = run_progs(&progs);
    let mut redo: Vec<(Sig, u64, &'static str)> = vec![];
    for (pi, out) in outs.iter().enumerate() {
        rep.hit(&format!("e2e:program:{}", out.stage));
        for (k, (sig, vseed)) in all[pi].iter().enumerate() {
            let bad = out.stage != "ok" || !mismatches(&progs[pi].expect[k], out).is_empty();
            if bad {
                redo.push((sig.clone(), *vseed, progs[pi].opt));
            } else {
                rep.case(if sig.nontrivial() { Some(format!("e2e {}", sig.text())) } else { None });
                rep.traces_validated += 1;
                rep.hit("e2e:sig:intact");
                if rep.samples.len() < 6 && k == 0 {
                    rep.sample(json!({"e2e": sig.text(), "values_compared": progs[pi].expect[k].len(), "gcc": progs[pi].opt}));
                }
            }
        }
    }
    // signatures of failing programs, one program each (a crash hides every later line)
    let singles: Vec<Prog> = redo.iter().map(|(s, v, o)| make_prog(&[(s.clone(), *v)], o)).collect();
    let souts = run_progs(&singles);
    let mut shrunk = 0;
    for (i, out) in souts.iter().enumerate() {
        let (sig, vseed, opt) = &redo[i];
        rep.case(if sig.nontrivial() { Some(format!("e2e {}", sig.text())) } else { None });
        let verdict = if out.stage != "ok" {
            Some((out.stage.clone(), out.detail.clone()))
        } else {
            let mm = mismatches(&singles[i].expect[0], out);
            if mm.is_empty() {
                None
            } else {
                let (t, e, g) = &mm[0];
                Some((site_name(*t).to_string(), format!("{} value(s) differ; first: tag {t} ({}) expected {e} got {g}", mm.len(), site_name(*t))))
            }
        };
        match verdict {
            None => {
                rep.traces_validated += 1;
                rep.hit("e2e:sig:intact");
            }
            Some((kind, detail)) => {
                if kind == "gcc-compile" || kind == "link" {
                    // the generator produced something gcc rejects: a harness defect, not a verdict
                    rep.notes.push(format!("harness: {kind} failed for {}: {}", sig.text(), detail));
                    rep.hit("e2e:harness-defect");
                    continue;
                }
                rep.hit("e2e:sig:broken");
                let small = if shrunk < 4 {
                    shrunk += 1;
                    shrink(sig, *vseed, opt, &kind, 1000 + i)
                } else {
                    sig.clone()
                };
                let d2 = single_verdict(&small, *vseed, opt, 2000 + i).map(|x| x.1).unwrap_or(detail.clone());
                rep.oracle_fail(
                    &e2e_label(&small, &kind),
                    json!({"kind": "e2e", "sig": small.text(), "vseed": vseed, "gcc": opt, "unshrunk": sig.text()}),
                    json!(d2),
                    json!("every value printed by the receiver equals the value the sender passed"),
                    "values crossing the C boundary (real capy CLI + host gcc)",
                );
            }
        }
    }
    // outside the property's quantifier (nested struct with tail padding): recorded, not judged
    let probe = Sig::parse("i64,i8/N0,i8|S1|S1").unwrap();
    debug_assert!(probe.nested_tail_padding());
    match single_verdict(&probe, 7, "-O2", 5000) {
        None => rep.hit("probe:nested-tail-padding:intact"),
        Some((kind, detail)) => {
            rep.hit("probe:nested-tail-padding:differs");
            rep.notes.push(format!("outside C19's domain (nested struct member with tail padding, struct {{ struct {{i64, i8}}, i8 }}): {kind}: {detail} - Capy places the i8 at offset 9 (size != stride), C at 16"));
        }
    }
    let _ = std::fs::remove_dir_all(scratch());
}

// ---------------------------------------------------------------------------------------
// stream 3: Cast spill slots / loads (model side only; sizes tied through stream 1 + C17)
// ---------------------------------------------------------------------------------------

fn stream_cast(rep: &mut Report) {
    // every struct of 1..16 bytes made of u8s and a leading scalar: the accesses of the model
    let mut reqs = vec![];
    let mut tys = vec![];
    for lead in [Sc::U8, Sc::I16, Sc::I32, Sc::F32, Sc::I64, Sc::F64] {
        for extra in 0..=15u32 {
            let mut ms = vec![lead.ty()];
            if extra > 0 {
                ms.push(ty::arr(extra as u64, ty::u(8)));
            }
            let t = ty::strukt(900, &ms);
            reqs.push(format!("C19 cast {}", ty::sexp(&t)));
            tys.push((t, lead, extra));
        }
    }
    let answers = lean::ask(&reqs);
    for ((t, lead, extra), ans) in tys.iter().zip(answers.iter()) {
        if ans == "?" || ans == "MEMORY" {
            continue;
        }
        // implementation: component types through the hook (as a single-argument signature)
        let dbg = catch_unwind(AssertUnwindSafe(|| codegen::verif::x86_64_sysv_abi(&[ty::param(*t)], Ty::Void.into(), 64)));
        let impl_tys = dbg.ok().and_then(|d| parse_abi(&d)).and_then(|a| match a.0.first() {
            Some((Pm::Cast(tys), _)) => Some(tys.join(",")),
            _ => None,
        });
        let model_tys = ans.split(" ; ").next().unwrap_or("").to_string();
        rep.case(Some(format!("cast {} +{extra}", lead.name())));
        if impl_tys.as_deref() != Some(model_tys.as_str()) {
            rep.disagree(json!({"kind": "cast", "ty": ty::sexp(t)}), json!(impl_tys), json!(model_tys));
        }
        // footprint facts of the model answer: stores inside the (enlarged) slot
        let field = |name: &str| -> u64 {
            ans.split(|c| c == ' ' || c == ';').find_map(|w| w.strip_prefix(name).and_then(|v| v.parse().ok())).unwrap_or(0)
        };
        let (size, slot) = (field("size="), field("slot="));
        let acc = ans.rsplit("acc=").next().unwrap_or("");
        let mut end = 0u64;
        for a in acc.split(',') {
            if let Some((o, w)) = a.split_once('+') {
                end = end.max(o.parse::<u64>().unwrap_or(0) + w.parse::<u64>().unwrap_or(0));
            }
        }
        if end > slot {
            rep.oracle_fail("cast:store-outside-slot", json!({"kind": "cast", "ty": ty::sexp(t)}), json!(ans), json!("stores end inside the slot"), "Cast spill slot");
        }
        rep.hit(if end > size { "cast:load-wider-than-object(read only)" } else { "cast:exact" });
    }
}

// ---------------------------------------------------------------------------------------

pub fn run(tier: &str, seed: u64, widen: bool) -> Report {
    let mut rep = Report::new(
        "C19",
        "in-process: codegen::verif::x86_64_sysv_abi (fn_ty_to_abi) vs Lean CapyV.Abi.fnTyToAbi, its Cranelift register assignment vs CapyV.SysV.assign (psABI); end to end: real capy CLI object + host gcc translation unit, both call directions, every leaf value printed on both sides",
        "a signature is non-trivial when it has an aggregate parameter/result or more scalars of one class than registers",
    );
    let mut rng = Rng::new(seed);
    let thorough = tier == "thorough";
    // stream 1
    let mut sigs = small_domain(!thorough && !widen);
    let n_random = if widen { 200_000 } else if thorough { 60_000 } else { 4_000 };
    for _ in 0..n_random {
        sigs.push(gen_sig(&mut rng, true));
    }
    // register pressure (one class exhausted while the other has room)
    for _ in 0..n_random / 2 {
        sigs.push(gen_sig_pressure(&mut rng));
    }
    for chunk in sigs.chunks(5000) {
        stream_abi(&mut rep, chunk);
    }
    stream_cast(&mut rep);
    // stream 2
    let fixed = e2e_fixed();
    let (n_progs, per) = if widen { (400, 10) } else if thorough { (260, 10) } else { (36, 8) };
    stream_e2e(&mut rep, &mut rng, n_progs, per, &fixed);
    rep
}

/// signatures every end-to-end run includes: the shapes the design names (odd sizes, mixed
/// classes, register exhaustion, hidden return pointer, a function pointer before an aggregate)
fn e2e_fixed() -> Vec<Sig> {
    [
        "i8,i8,i8|S0,i32|S0",
        "i8*5|S0|S0",
        "i16*3|S0,f32|S0",
        "u8*7|S0|S0",
        "i64,u8*5|S0|S0",
        "f32,f32,f32|S0,f64|S0",
        "f32,i32,f64|S0|S0",
        "i64,f32|i64,i64,i64,i64,i64,S0,i32|S0",
        "f64,f64|f64,f64,f64,f64,f64,f64,f64,S0,f32|S0",
        "i64,i64,i64|S0,i8|S0",
        "i64,i64|fnptr,i64,i64,i64,i64,S0|void",
        "ptr,optptr|S0,optptr,ptr|S0",
        "fnptr,f64|S0,i32|S0",
        "u8,f64*7|S0,u16|S0",
        "i32,i16,bool,char/N0,f32/N1,u8|S2,S1,S0|S2",
        "|i8,u8,i16,u16,i32,u32,i64,u64|bool",
        "|f32,f64,f32,f64,f32,f64,f32,f64|f32",
        "|i64,i64,i64,i64,i64,i64,i64,i8|char",
    ]
    .iter()
    .map(|s| Sig::parse(s).expect("fixed sig"))
    .collect()
}

pub fn replay(input: &Value) -> String {
    let Some(sig) = input["sig"].as_str().and_then(Sig::parse) else {
        if input["kind"] == "cast" {
            let ans = lean::ask(&[format!("C19 cast {}", input["ty"].as_str().unwrap_or(""))]);
            return format!("model: {}", ans[0]);
        }
        return "unparsable replay input".into();
    };
    let im = impl_abi(&sig, 1000);
    let ans = lean::ask(&[lean_req("sig", &sig, 1000), lean_req("sig0", &sig, 1000)]);
    let (m_abi, m_assign, spec) = split3(&ans[0]);
    let (m0_abi, _, _) = split3(&ans[1]);
    let mut s = format!(
        "signature        : {}\nimplementation   : {}\n  => assignment  : {}\nmodel (FIX.patch): {}\n  => assignment  : {}\nmodel (pinned)   : {}\nspec (psABI)     : {}\n",
        sig.text(), im.impl_abi, im.impl_assign, m_abi, m_assign, m0_abi, spec
    );
    let mut bad = im.impl_assign != spec;
    if input["kind"] == "e2e" && e2e::available() {
        let vseed = input["vseed"].as_u64().unwrap_or(1);
        let opt: &'static str = if input["gcc"] == "-O0" { "-O0" } else { "-O2" };
        match single_verdict(&sig, vseed, opt, 0) {
            None => s.push_str("end to end       : every value intact\n"),
            Some((kind, detail)) => {
                s.push_str(&format!("end to end       : {kind}: {detail}\n"));
                bad = true;
            }
        }
        let _ = std::fs::remove_dir_all(scratch());
    }
    if bad {
        s.push_str("SPEC-MISMATCH\n");
    }
    s
}
