//! C27 — distinct compiled entities get distinct symbol names.
//!
//! Correspondence: the real mangler (`codegen::verif::mangle_*`, i.e. `Mangle for
//! ConcreteLoc / ComptimeLoc / (ComptimeLoc, &str)` + `FileName::get_components`) vs the
//! Lean model `CapyV.Mangle.mangle`, string by string.
//!
//! Oracle (written from the property text, not from the Rust): over everything evaluated
//! in one run, two *different* entity descriptors never have the same implementation
//! output, and no output equals `main` or a compiler-internal symbol.  Every collision is
//! classified by the earliest stage of an independent re-statement of the naming pipeline
//! at which the two files become indistinguishable (label = collision class); a collision
//! that no stage explains is reported as `unclassified`.
use crate::lean;
use crate::report::Report;
use crate::rng::Rng;
use hir::common::{
    set_lambda_global, ComptimeArgs, ComptimeLoc, ComptimeResult, FileName, NaiveGlobalLoc,
    NaiveLambdaLoc, NaiveLoc, Name,
};
use interner::Interner;
use la_arena::{Idx, IdxRange, RawIdx};
use serde_json::{json, Value};
use std::collections::HashMap;
use std::panic::{catch_unwind, AssertUnwindSafe};
use std::path::PathBuf;

const MOD_DIR: &str = "/capyv-fake-mod-dir/modules";
const OUTSIDE_DIR: &str = "/capyv-elsewhere/nowhere";

#[derive(Clone, Copy, PartialEq, Eq, Hash, Debug, PartialOrd, Ord)]
enum Root {
    Mod,
    Cwd,
    Outside,
}

#[derive(Clone, PartialEq, Eq, Hash, Debug, PartialOrd, Ord)]
enum Base {
    Global(String),
    /// arena index, name of the same-file global the lambda is directly bound to
    Lambda(u32, Option<String>),
}

#[derive(Clone, PartialEq, Eq, Hash, Debug, PartialOrd, Ord)]
enum Extra {
    Code,
    Comptime(u32),
    Data(u32, String),
}

#[derive(Clone, PartialEq, Eq, Hash, Debug, PartialOrd, Ord)]
struct Desc {
    root: Root,
    comps: Vec<String>,
    base: Base,
    generic: Option<u32>,
    extra: Extra,
}

impl Desc {
    /// identity of the entity: a lambda directly bound to a global is that global
    fn resolved(&self) -> Desc {
        let mut d = self.clone();
        if let Base::Lambda(_, Some(g)) = &self.base {
            d.base = Base::Global(g.clone());
        }
        d
    }
    /// the request sent to the Lean driver (also the replay format)
    fn req(&self) -> String {
        let root = match self.root {
            Root::Mod => "m",
            Root::Cwd => "c",
            Root::Outside => "o",
        };
        let comps = if self.comps.is_empty() {
            "_".to_string()
        } else {
            self.comps.iter().map(|c| lean::hex(c.as_bytes())).collect::<Vec<_>>().join(",")
        };
        let base = match &self.base {
            Base::Global(n) => format!("g:{}", lean::hex(n.as_bytes())),
            Base::Lambda(i, None) => format!("l:{i}"),
            Base::Lambda(i, Some(g)) => format!("b:{i}:{}", lean::hex(g.as_bytes())),
        };
        let generic = match self.generic {
            None => "n".to_string(),
            Some(g) => g.to_string(),
        };
        let extra = match &self.extra {
            Extra::Code => "f".to_string(),
            Extra::Comptime(i) => format!("z:{i}"),
            Extra::Data(i, d) => format!("d:{i}:{}", lean::hex(d.as_bytes())),
        };
        format!("{root} {comps} {base} {generic} {extra}")
    }
    fn human(&self) -> String {
        let root = match self.root {
            Root::Mod => "<mod_dir>/",
            Root::Cwd => "<cwd>/",
            Root::Outside => "<elsewhere>/",
        };
        let base = match &self.base {
            Base::Global(n) => format!("global `{n}`"),
            Base::Lambda(i, None) => format!("lambda#{i}"),
            Base::Lambda(i, Some(g)) => format!("lambda#{i} bound to global `{g}`"),
        };
        let generic = match self.generic {
            None => String::new(),
            Some(g) => format!(" <generic {g}>"),
        };
        let extra = match &self.extra {
            Extra::Code => String::new(),
            Extra::Comptime(i) => format!(" comptime#{i}"),
            Extra::Data(i, d) => format!(" comptime#{i} data `{d}`"),
        };
        format!("{root}{} {base}{generic}{extra}", self.comps.join("/"))
    }
    fn to_json(&self) -> Value {
        json!({"desc": self.human(), "req": self.req()})
    }
}

/// a path component is a file or directory *name*: `Path::components` normalises `.` away
/// and treats `..` specially; neither is a name
fn valid_name(c: &str) -> bool {
    !c.is_empty() && c != "." && c != ".." && !c.contains('/')
}

/// The domain of the property's oracle: a compiled entity lives in a `.capy` file (the
/// compiler refuses every other file name: capy/src/main.rs, hir/src/body.rs
/// `ImportMustEndInDotCapy`) reached by 1..=3 path components under mod_dir or cwd.
fn in_domain(d: &Desc) -> bool {
    d.root != Root::Outside
        && (1..=3).contains(&d.comps.len())
        && d.comps.last().map(|c| c.ends_with(".capy")).unwrap_or(false)
}

fn unhex(s: &str) -> Option<String> {
    if s == "-" {
        return Some(String::new());
    }
    if s.len() % 2 != 0 {
        return None;
    }
    let bytes: Option<Vec<u8>> =
        (0..s.len() / 2).map(|i| u8::from_str_radix(&s[2 * i..2 * i + 2], 16).ok()).collect();
    String::from_utf8(bytes?).ok()
}

fn parse_req(s: &str) -> Option<Desc> {
    let w: Vec<&str> = s.split_whitespace().collect();
    if w.len() != 5 {
        return None;
    }
    let root = match w[0] {
        "m" => Root::Mod,
        "c" => Root::Cwd,
        "o" => Root::Outside,
        _ => return None,
    };
    let comps = if w[1] == "_" {
        vec![]
    } else {
        w[1].split(',').map(unhex).collect::<Option<Vec<_>>>()?
    };
    let b: Vec<&str> = w[2].split(':').collect();
    let base = match b.as_slice() {
        ["g", h] => Base::Global(unhex(h)?),
        ["l", n] => Base::Lambda(n.parse().ok()?, None),
        ["b", n, h] => Base::Lambda(n.parse().ok()?, Some(unhex(h)?)),
        _ => return None,
    };
    let generic = if w[3] == "n" { None } else { Some(w[3].parse().ok()?) };
    let x: Vec<&str> = w[4].split(':').collect();
    let extra = match x.as_slice() {
        ["f"] => Extra::Code,
        ["z", n] => Extra::Comptime(n.parse().ok()?),
        ["d", n, h] => Extra::Data(n.parse().ok()?, unhex(h)?),
        _ => return None,
    };
    Some(Desc { root, comps, base, generic, extra })
}

/// The implementation side: one interner, the thread-local `GLOBAL_LAMBDAS`.
struct Impl {
    interner: Interner,
    mod_dir: PathBuf,
    cwd: PathBuf,
    /// fresh `expr` indices for bound lambdas (the key of `GLOBAL_LAMBDAS` contains it)
    next_bound_expr: u32,
}

fn idx<T>(n: u32) -> Idx<T> {
    Idx::from_raw(RawIdx::from(n))
}

impl Impl {
    fn new() -> Self {
        Impl {
            interner: Interner::default(),
            mod_dir: PathBuf::from(MOD_DIR),
            cwd: std::env::current_dir().expect("cwd"),
            next_bound_expr: 1_000_000,
        }
    }

    fn path(&self, d: &Desc) -> String {
        let mut p = match d.root {
            Root::Mod => self.mod_dir.clone(),
            Root::Cwd => self.cwd.clone(),
            Root::Outside => PathBuf::from(OUTSIDE_DIR),
        }
        .to_string_lossy()
        .to_string();
        for c in &d.comps {
            p.push('/');
            p.push_str(c);
        }
        p
    }

    /// `Err` = the call panicked
    fn mangle(&mut self, d: &Desc, expr_salt: u32) -> Result<String, String> {
        let path = self.path(d);
        let file = FileName(self.interner.intern(&path));
        let naive = match &d.base {
            Base::Global(n) => {
                NaiveLoc::Global(NaiveGlobalLoc { file, name: Name(self.interner.intern(n)) })
            }
            Base::Lambda(i, bound) => {
                let expr = match bound {
                    Some(_) => {
                        self.next_bound_expr += 1;
                        self.next_bound_expr
                    }
                    None => expr_salt % 1000,
                };
                let l = NaiveLambdaLoc { file, expr: idx(expr), lambda: idx(*i) };
                if let Some(g) = bound {
                    set_lambda_global(l, NaiveGlobalLoc { file, name: Name(self.interner.intern(g)) });
                }
                NaiveLoc::Lambda(l)
            }
        };
        let args = d.generic.map(|g| {
            // only `raw_start` is the generic id; the end of the range varies freely
            let end = g + 1 + expr_salt % 3;
            ComptimeArgs::new(IdxRange::new(idx::<ComptimeResult>(g)..idx::<ComptimeResult>(end)))
        });
        let conc = naive.make_concrete(args);
        let interner = &self.interner;
        let mod_dir = self.mod_dir.as_path();
        let r = catch_unwind(AssertUnwindSafe(|| match &d.extra {
            Extra::Code => {
                let s = codegen::verif::mangle_concrete(conc, mod_dir, interner);
                if d.generic.is_none() {
                    // `Mangle for NaiveLoc` must agree with `Mangle for ConcreteLoc`
                    let n = codegen::verif::mangle_naive(naive, mod_dir, interner);
                    if n != s {
                        return format!("NAIVE≠CONCRETE {n} {s}");
                    }
                }
                s
            }
            Extra::Comptime(i) => codegen::verif::mangle_comptime(
                ComptimeLoc { loc: conc, expr: idx(expr_salt % 777), comptime: idx(*i) },
                mod_dir,
                interner,
            ),
            Extra::Data(i, data) => codegen::verif::mangle_comptime_data(
                ComptimeLoc { loc: conc, expr: idx(expr_salt % 777), comptime: idx(*i) },
                data,
                mod_dir,
                interner,
            ),
        }));
        r.map_err(|_| "PANIC".to_string())
    }
}

/* ---------- the oracle's own re-statement of the naming pipeline (classification only) ---------- */

type Staged = (Option<String>, Vec<String>);

/// stage 1: which path components take part in the name at all
fn stage_select(root: Root, comps: &[String]) -> Staged {
    let second_is_src = comps.get(1).map(|c| c == "src").unwrap_or(false);
    let mut it = comps.iter().cloned();
    let module = if root == Root::Mod { it.next() } else { None };
    if second_is_src {
        it.next();
    }
    (module, it.collect())
}
fn map_staged(s: &Staged, f: &dyn Fn(&str, char) -> String) -> Staged {
    (s.0.as_ref().map(|m| f(m, 'm')), s.1.iter().map(|c| f(c, 'f')).collect())
}
/// stage 2: the `.capy` extension is dropped
fn stage_strip(s: &Staged) -> Staged {
    map_staged(s, &|c, _| c.strip_suffix(".capy").unwrap_or(c).to_string())
}
/// stage 3: dots become dashes
fn stage_dots(s: &Staged) -> Staged {
    map_staged(s, &|c, _| c.replace('.', "-"))
}
/// stage 4: a leading digit is escaped with the lower-case kind letter
fn stage_escape(s: &Staged) -> Staged {
    map_staged(s, &|c, k| {
        if c.chars().next().map(|ch| ch.is_ascii_digit()).unwrap_or(false) {
            format!("{k}{c}")
        } else {
            c.to_string()
        }
    })
}

fn classify(a: &Desc, b: &Desc) -> &'static str {
    let (ra, rb) = (a.resolved(), b.resolved());
    if (ra.base != rb.base) || (ra.generic != rb.generic) || (ra.extra != rb.extra) {
        return "unclassified";
    }
    if a.root == Root::Outside || b.root == Root::Outside {
        return "unclassified";
    }
    let (a1, b1) = (stage_select(a.root, &a.comps), stage_select(b.root, &b.comps));
    if a1 == b1 {
        return "src-skip";
    }
    let (a2, b2) = (stage_strip(&a1), stage_strip(&b1));
    if a2 == b2 {
        return "capy-strip";
    }
    let (a3, b3) = (stage_dots(&a2), stage_dots(&b2));
    if a3 == b3 {
        return "dot-dash";
    }
    let (a4, b4) = (stage_escape(&a3), stage_escape(&b3));
    if a4 == b4 {
        return "digit-escape";
    }
    "unclassified"
}

/// names the compiler itself hands to `mangle_internal`, plus a few adversarial ones
const INTERNAL_NAMES: &[&str] = &[
    "array_layout_array", "array_layout_slice", "distinct_layout_array", "distinct_layout_slice",
    "struct_layout_array", "struct_layout_slice", "enum_layout_array", "enum_layout_slice",
    "variant_layout_array", "variant_layout_slice", "optional_layout_array", "optional_layout_slice",
    "error_union_layout_array", "error_union_layout_slice", "pointer_layout",
    "array_info_array", "array_info_slice", "slice_info_array", "slice_info_slice",
    "pointer_info_array", "pointer_info_slice", "distinct_info_array", "distinct_info_slice",
    "struct_info_array", "struct_info_slice", "enum_info_array", "enum_info_slice",
    "variant_info_array", "variant_info_slice", "optional_info_array", "optional_info_slice",
    "error_union_info_array", "error_union_info_slice", "commandline_args", "ptr_bitcast",
    "i32_bitcast", "f64_bitcast", "", "a", "1", "val", "main", "3valE", "0123456789ab",
];

struct Run<'a> {
    rep: &'a mut Report,
    imp: Impl,
    internal: HashMap<String, String>,
    /// implementation output -> descriptors (resolved identity) that produced it
    by_name: HashMap<String, Vec<u32>>,
    all: Vec<Desc>,
    wf: Vec<bool>,
    seen: HashMap<Desc, u32>,
    salt: u32,
}

impl<'a> Run<'a> {
    fn new(rep: &'a mut Report) -> Self {
        Run {
            rep,
            imp: Impl::new(),
            internal: HashMap::new(),
            by_name: HashMap::new(),
            all: vec![],
            wf: vec![],
            seen: HashMap::new(),
            salt: 0,
        }
    }

    fn check_internal(&mut self) {
        let reqs: Vec<String> = INTERNAL_NAMES
            .iter()
            .map(|n| format!("C27 internal {}", lean::hex(n.as_bytes())))
            .chain([0u32, 1, 9, 10, 11, 99, 100, 101, 999, 1000, 4294967295].iter().map(|n| format!("C27 digits {n}")))
            .collect();
        let ans = lean::ask(&reqs);
        for (i, n) in INTERNAL_NAMES.iter().enumerate() {
            let got = catch_unwind(AssertUnwindSafe(|| codegen::verif::mangle_internal(n)))
                .unwrap_or_else(|_| "PANIC".into());
            self.rep.case(Some(format!("internal:{n}")));
            self.rep.hit("mangle_internal");
            if lean::hex(got.as_bytes()) != ans[i] {
                self.rep.disagree(json!({"internal": n}), json!(got), json!(ans[i]));
            }
            // oracle: an internal symbol is `_CI…E` and never `main`
            if got == "main" || !got.starts_with("_CI") {
                self.rep.oracle_fail("internal-shape", json!({"internal": n}), json!(got), json!("_CI<len><name>E"), "internal symbol is not of the reserved shape");
            }
            self.internal.insert(got, n.to_string());
        }
        for (j, n) in [0u32, 1, 9, 10, 11, 99, 100, 101, 999, 1000, 4294967295].iter().enumerate() {
            let got = lean::hex(n.to_string().as_bytes());
            if got != ans[INTERNAL_NAMES.len() + j] {
                self.rep.disagree(json!({"digits": n}), json!(got), json!(ans[INTERNAL_NAMES.len() + j]));
            }
        }
    }

    /// evaluate a batch on implementation and model; record names for the pairwise oracle
    fn eval(&mut self, descs: Vec<Desc>) {
        let mut fresh = vec![];
        for d in descs {
            if !d.comps.iter().all(|c| valid_name(c)) || d.comps.len() > 3 {
                continue;
            }
            if !self.seen.contains_key(&d) {
                self.seen.insert(d.clone(), u32::MAX);
                fresh.push(d);
            }
        }
        for chunk in fresh.chunks(100_000) {
            let reqs: Vec<String> = chunk.iter().map(|d| format!("C27 m {}", d.req())).collect();
            let answers = lean::ask(&reqs);
            for (d, ans) in chunk.iter().zip(answers.iter()) {
                self.salt = self.salt.wrapping_mul(1664525).wrapping_add(1013904223);
                let got = self.imp.mangle(d, self.salt >> 8);
                let got_hex = match &got {
                    Ok(s) => lean::hex(s.as_bytes()),
                    Err(e) => e.clone(),
                };
                let (model, wf) = match ans.split_once(' ') {
                    Some((m, w)) => (m.to_string(), w == "1"),
                    None => (ans.clone(), false),
                };
                let id = self.all.len() as u32;
                self.seen.insert(d.clone(), id);
                self.all.push(d.clone());
                self.wf.push(wf);
                let nontrivial = got.is_ok() && in_domain(d);
                self.rep.case(if nontrivial { Some(d.req()) } else { None });
                self.hist(d, &got, wf);
                if self.rep.evaluations % 9_973 == 7 {
                    self.rep.sample(json!({"entity": d.human(), "symbol": got.clone().unwrap_or_else(|e| e), "WF": wf}));
                }
                if ans != "?" && got_hex != model {
                    self.rep.disagree(d.to_json(), json!(got.clone().unwrap_or_else(|e| e)), json!(unhex(&model).unwrap_or(model.clone())));
                }
                match got {
                    Ok(s) => {
                        // reserved names
                        if s == "main" || self.internal.contains_key(&s) || s.starts_with("_CI") {
                            self.rep.oracle_fail("reserved-name", d.to_json(), json!(s), json!("not `main`, not a `_CI…E` internal symbol"), "an entity's symbol equals a reserved name");
                        }
                        if in_domain(d) {
                            self.by_name.entry(s).or_default().push(id);
                        } else {
                            self.rep.hit("outside-oracle-domain(correspondence only)");
                        }
                    }
                    Err(_) => {
                        // the property does not speak about files outside both roots; a panic
                        // anywhere else is a violation (no name at all)
                        if d.root != Root::Outside {
                            self.rep.oracle_fail("panic", d.to_json(), json!("PANIC"), json!("a symbol name"), "mangling panicked for a file under mod_dir / cwd");
                        }
                    }
                }
            }
        }
    }

    fn hist(&mut self, d: &Desc, got: &Result<String, String>, wf: bool) {
        let root = match d.root {
            Root::Mod => "mod",
            Root::Cwd => "cwd",
            Root::Outside => "outside",
        };
        self.rep.hit(&format!("root:{root}/comps={}", d.comps.len()));
        let base = match &d.base {
            Base::Global(_) => "global",
            Base::Lambda(_, None) => "lambda",
            Base::Lambda(_, Some(_)) => "lambda-bound",
        };
        let extra = match d.extra {
            Extra::Code => "code",
            Extra::Comptime(_) => "comptime",
            Extra::Data(..) => "comptime-data",
        };
        self.rep.hit(&format!("entity:{base}{}/{extra}", if d.generic.is_some() { "+generic" } else { "" }));
        self.rep.hit(if wf { "WF=1" } else { "WF=0" });
        if got.is_err() {
            self.rep.hit("outcome:panic");
        }
        if d.comps.get(1).map(|c| c == "src").unwrap_or(false) {
            self.rep.hit(&format!("src-skip-fires:{root}"));
        }
        if d.comps.iter().any(|c| c.starts_with(|ch: char| ch.is_ascii_digit())) {
            self.rep.hit("component-digit-escape");
        }
        if d.comps.iter().any(|c| c.strip_suffix(".capy").unwrap_or(c).contains('.')) {
            self.rep.hit("component-dot-replaced");
        }
    }

    /// the property's oracle: pairwise distinctness of the implementation's own output
    fn pairwise(&mut self) {
        let mut groups: Vec<(&String, &Vec<u32>)> = self.by_name.iter().filter(|(_, v)| v.len() > 1).collect();
        groups.sort();
        let mut fails: Vec<(&'static str, u32, u32, String)> = vec![];
        let mut wf_contradictions = vec![];
        for (name, ids) in groups {
            // distinct resolved identities in this group
            let mut reps: Vec<(Desc, u32)> = vec![];
            for &i in ids {
                let r = self.all[i as usize].resolved();
                if !reps.iter().any(|(x, _)| *x == r) {
                    reps.push((r, i));
                }
            }
            if reps.len() < 2 {
                continue; // only a bound lambda and its own global: one entity
            }
            let limit = reps.len().min(8);
            for x in 0..limit {
                for y in x + 1..reps.len() {
                    let (ia, ib) = (reps[x].1, reps[y].1);
                    let label = classify(&self.all[ia as usize], &self.all[ib as usize]);
                    fails.push((label, ia, ib, name.clone()));
                    if self.wf[ia as usize] && self.wf[ib as usize] {
                        wf_contradictions.push((ia, ib, name.clone()));
                    }
                }
            }
        }
        // minimal examples first: shortest descriptors per label
        fails.sort_by_key(|(l, a, b, _)| (*l, self.all[*a as usize].req().len() + self.all[*b as usize].req().len()));
        for (label, a, b, name) in fails {
            let (da, db) = (&self.all[a as usize], &self.all[b as usize]);
            self.rep.oracle_fail(
                label,
                json!({"a": da.to_json(), "b": db.to_json()}),
                json!(name),
                json!("two different names"),
                "two different entities receive the same symbol name",
            );
        }
        for (a, b, name) in wf_contradictions {
            // would contradict `mangle_injective_partial` (given model = implementation)
            self.rep.disagree(
                json!({"a": self.all[a as usize].to_json(), "b": self.all[b as usize].to_json(), "note": "both descriptors satisfy the Lean guard WF yet collide"}),
                json!(name),
                json!("distinct by theorem mangle_injective_partial"),
            );
        }
    }
}

/* ---------- generators ---------- */

/// directory names (quick)
const DIRS_QUICK: &[&str] = &[
    "a", "b", "f", "m", "1", "f1", "m1", "1a", "f1a", "src", "core", "x", "x.capy", "p.q", "p-q", "a.b", "a-b",
    "-", "0", "f0", "F1", "a.", "a-", ".a", "-a", "f-1", "f.1", "1.2",
];
const DIRS_MORE: &[&str] = &["9", "f9", "00", "f00", "m0", "src.capy", "main", "f1-2", "1-2", "a..b", "a--b", "a.-b", "é", "..a"];
/// file names (always `*.capy`)
const FILES_QUICK: &[&str] = &[
    "x.capy", "f.capy", "1.capy", "f1.capy", "a.b.capy", "a-b.capy", "mod.capy", "main.capy", "x.capy.capy",
    "x-capy.capy", ".capy", "src.capy",
];
const FILES_MORE: &[&str] = &["foo.capy.capy", "foo-capy.capy", "0.capy", "f0.capy", "m1.capy", "é.capy", "-.capy", "a..capy"];

fn all_paths(dirs: &[&str], files: &[&str], max: usize) -> Vec<Vec<String>> {
    // every sequence of < max directories followed by one file
    let mut out: Vec<Vec<String>> = vec![];
    let mut layer: Vec<Vec<String>> = vec![vec![]];
    for depth in 0..max {
        for p in &layer {
            for f in files {
                let mut q = p.clone();
                q.push(f.to_string());
                out.push(q);
            }
        }
        if depth + 1 < max {
            let mut next = vec![];
            for p in &layer {
                for c in dirs {
                    let mut q = p.clone();
                    q.push(c.to_string());
                    next.push(q);
                }
            }
            layer = next;
        }
    }
    out
}

const ALPHA: &[u8] = b"af1m09.-xcs";

fn random_comp(rng: &mut Rng, pool: &[&str]) -> String {
    match rng.below(10) {
        0..=3 => rng.pick(pool).to_string(),
        4 => format!("{}.capy", random_word(rng)),
        _ => random_word(rng),
    }
}

fn random_word(rng: &mut Rng) -> String {
    loop {
        let n = 1 + rng.below(6) as usize;
        let s: String = (0..n).map(|_| *rng.pick(ALPHA) as char).collect();
        // `.` and `..` are not names: Path::components normalises them away
        if s != "." && s != ".." {
            return s;
        }
    }
}

const GLOBAL_NAMES: &[&str] = &["val", "main", "n1", "l5", "g7", "z0", "x", "a1", "_CI3valE", "E", "N3valE", "i0"];
const DATA_NAMES: &[&str] = &["init_flag", "value", "i0", "main", "E"];
const EDGE: &[u32] = &[0, 1, 2, 5, 9, 10, 11, 42, 99, 100, 101, 500, 998, 999];

fn random_ident(rng: &mut Rng) -> String {
    if rng.chance(1, 2) {
        return rng.pick(GLOBAL_NAMES).to_string();
    }
    let first = b"abfglmnzi_NE";
    let rest = b"abfglmnzi_NE0123456789";
    let n = rng.below(6) as usize;
    let mut s = String::new();
    s.push(*rng.pick(first) as char);
    for _ in 0..n {
        s.push(*rng.pick(rest) as char);
    }
    s
}

fn random_index(rng: &mut Rng) -> u32 {
    if rng.chance(1, 3) {
        *rng.pick(EDGE)
    } else {
        rng.below(1000) as u32
    }
}

fn random_desc(rng: &mut Rng, pool: &[&str]) -> Desc {
    let root = match rng.below(20) {
        0 => Root::Outside,
        1..=8 => Root::Mod,
        _ => Root::Cwd,
    };
    let n = if rng.chance(1, 40) { 0 } else { 1 + rng.below(3) as usize };
    let mut comps: Vec<String> = (0..n).map(|_| random_comp(rng, pool)).collect();
    if n >= 2 && rng.chance(1, 4) {
        comps[1] = "src".into();
    }
    if n >= 1 && rng.chance(19, 20) && !comps[n - 1].ends_with(".capy") {
        comps[n - 1].push_str(".capy");
    }
    let base = match rng.below(6) {
        0..=2 => Base::Global(random_ident(rng)),
        3..=4 => Base::Lambda(random_index(rng), None),
        _ => Base::Lambda(random_index(rng), Some(random_ident(rng))),
    };
    let generic = if rng.chance(1, 2) { Some(random_index(rng)) } else { None };
    let extra = match rng.below(4) {
        0..=1 => Extra::Code,
        2 => Extra::Comptime(random_index(rng)),
        _ => Extra::Data(random_index(rng), rng.pick(DATA_NAMES).to_string()),
    };
    Desc { root, comps, base, generic, extra }
}

/// a near neighbour that a sloppy encoding would confuse with `d`
fn mutate(rng: &mut Rng, d: &Desc) -> Desc {
    let mut m = d.clone();
    let n = m.comps.len();
    match rng.below(12) {
        0 if n > 0 => {
            let i = rng.below(n as u64) as usize;
            m.comps[i] = m.comps[i].replacen('.', "-", 1);
        }
        1 if n > 0 => {
            let i = rng.below(n as u64) as usize;
            m.comps[i] = m.comps[i].replacen('-', ".", 1);
        }
        2 if n > 0 => {
            let i = rng.below(n as u64) as usize;
            let k = if i == 0 && m.root == Root::Mod { 'm' } else { 'f' };
            if m.comps[i].starts_with(|c: char| c.is_ascii_digit()) {
                m.comps[i] = format!("{k}{}", m.comps[i]);
            } else if m.comps[i].starts_with(k) {
                m.comps[i] = m.comps[i][1..].to_string();
            }
        }
        3 if n > 0 => {
            let i = rng.below(n as u64) as usize;
            if m.comps[i].ends_with(".capy") {
                let l = m.comps[i].len();
                m.comps[i].truncate(l - 5);
            } else {
                m.comps[i].push_str(".capy");
            }
        }
        4 if n >= 2 => {
            if m.comps[1] == "src" {
                if rng.chance(1, 2) {
                    m.comps.remove(1);
                } else {
                    m.comps[0] = random_word(rng);
                }
            } else {
                m.comps.insert(1, "src".into());
            }
        }
        5 => m.root = if m.root == Root::Mod { Root::Cwd } else { Root::Mod },
        6 => {
            // a global named like a lambda / generic / comptime part, or vice versa
            m.base = match &m.base {
                Base::Global(_) => Base::Lambda(random_index(rng), None),
                Base::Lambda(i, _) => Base::Global(format!("l{i}")),
            }
        }
        7 => {
            m.generic = match m.generic {
                None => Some(random_index(rng)),
                Some(g) => if rng.chance(1, 2) { None } else { Some((g + 1) % 1000) },
            }
        }
        8 => {
            // move digits across the generic / comptime boundary: <12> #3 vs <1> #23
            if let (Some(g), Extra::Comptime(z)) = (m.generic, &m.extra) {
                let s = format!("{g}{z}");
                let cut = 1 + rng.below(s.len() as u64 - 1).min(s.len() as u64 - 2) as usize;
                if let (Ok(g2), Ok(z2)) = (s[..cut].parse::<u32>(), s[cut..].parse::<u32>()) {
                    if g2 < 1000 && z2 < 1000 {
                        m.generic = Some(g2);
                        m.extra = Extra::Comptime(z2);
                    }
                }
            } else {
                m.extra = Extra::Comptime(random_index(rng));
            }
        }
        9 => {
            m.extra = match &m.extra {
                Extra::Code => Extra::Comptime(random_index(rng)),
                Extra::Comptime(i) => Extra::Data(*i, rng.pick(DATA_NAMES).to_string()),
                Extra::Data(i, _) => Extra::Comptime(*i),
            }
        }
        10 if n > 0 => {
            // split / join components: a/b vs ab, and move the global name into the path
            let i = rng.below(n as u64) as usize;
            if m.comps[i].len() >= 2 && m.comps[i].is_char_boundary(1) {
                let tail = m.comps[i].split_off(1);
                m.comps.insert(i + 1, tail);
                if m.comps.len() > 3 {
                    m.comps.truncate(3);
                }
            }
        }
        _ => {
            if let Base::Global(g) = &m.base {
                m.base = Base::Global(format!("{g}1"));
            } else if let Base::Lambda(i, b) = &m.base {
                m.base = Base::Lambda((i + 1) % 1000, b.clone());
            }
        }
    }
    m
}

fn entity_grid(files: &[(Root, Vec<&str>)]) -> Vec<Desc> {
    let mut bases: Vec<Base> = GLOBAL_NAMES.iter().map(|n| Base::Global(n.to_string())).collect();
    for i in [0u32, 1, 5, 10, 42, 999] {
        bases.push(Base::Lambda(i, None));
    }
    bases.push(Base::Lambda(3, Some("val".into())));
    bases.push(Base::Lambda(0, Some("main".into())));
    bases.push(Base::Lambda(7, Some("l7".into())));
    let generics = [None, Some(0u32), Some(1), Some(5), Some(10), Some(999)];
    let mut extras = vec![Extra::Code];
    for i in [0u32, 5, 10, 999] {
        extras.push(Extra::Comptime(i));
    }
    for i in [0u32, 5] {
        for d in DATA_NAMES {
            extras.push(Extra::Data(i, d.to_string()));
        }
    }
    let mut out = vec![];
    for (root, comps) in files {
        for b in &bases {
            for g in &generics {
                for x in &extras {
                    out.push(Desc {
                        root: *root,
                        comps: comps.iter().map(|s| s.to_string()).collect(),
                        base: b.clone(),
                        generic: *g,
                        extra: x.clone(),
                    });
                }
            }
        }
    }
    out
}

fn index_sweeps() -> Vec<Desc> {
    // every lambda / generic / comptime index < 1000 on one well-formed file, and the
    // boundary pairs that a missing separator would confuse
    let file = |base: Base, generic: Option<u32>, extra: Extra| Desc {
        root: Root::Cwd,
        comps: vec!["lib".into(), "util.capy".into()],
        base,
        generic,
        extra,
    };
    let mut out = vec![];
    for i in 0..1000u32 {
        out.push(file(Base::Lambda(i, None), None, Extra::Code));
        out.push(file(Base::Global("val".into()), Some(i), Extra::Code));
        out.push(file(Base::Global("val".into()), None, Extra::Comptime(i)));
        out.push(file(Base::Lambda(7, None), Some(i), Extra::Comptime(3)));
        out.push(file(Base::Global("val".into()), Some(3), Extra::Data(i, "value".into())));
    }
    for &l in EDGE {
        for &g in EDGE {
            for &z in EDGE {
                out.push(file(Base::Lambda(l, None), Some(g), Extra::Comptime(z)));
            }
        }
    }
    out
}

pub fn run(tier: &str, seed: u64, widen: bool) -> Report {
    let thorough = tier == "thorough" || widen;
    let mut rep = Report::new(
        "C27",
        "codegen::verif::{mangle_naive, mangle_concrete, mangle_comptime, mangle_comptime_data, mangle_internal} (Mangle impls + FileName::get_components, lexical paths under a fake mod_dir / the current directory) vs Lean model CapyV.Mangle.{mangle, mangleInternal}",
        "exhaustive: every file path of <= 3 components (directories from a pool of 28 (thorough 42) names mixing digits, letters, dots and dashes incl. src, x.capy, digit-initial, f<digit>, m<digit>; file from a pool of 12 (thorough 20) *.capy names) x {mod_dir, cwd} for one global; a grid of 21 bases x 6 generic ids x 15 block kinds on 14 files; every lambda/generic/comptime index < 1000 on one file plus boundary triples; then seeded random descriptors (random components over {a,f,1,m,0,9,.,-,x,c,s}, indices < 1000) each followed by near-neighbour mutants. Pairwise distinctness is checked over the whole run. The oracle ranges over descriptors whose path has 1..3 valid components, the last ending in .capy (the compiler accepts no other file); other descriptors (no components, no .capy, outside both roots) are compared with the model only. non-trivial = in that domain and a name was produced; distinct by descriptor",
    );
    let mut run = Run::new(&mut rep);
    run.check_internal();

    let mut dirs: Vec<&str> = DIRS_QUICK.to_vec();
    let mut fnames: Vec<&str> = FILES_QUICK.to_vec();
    if thorough {
        dirs.extend_from_slice(DIRS_MORE);
        fnames.extend_from_slice(FILES_MORE);
    }
    let pool: Vec<&str> = dirs.iter().chain(fnames.iter()).copied().collect();
    // 1. exhaustive paths: < 3 directories from `dirs`, then a file from `fnames`
    let paths = all_paths(&dirs, &fnames, 3);
    let mut batch = vec![];
    for p in &paths {
        for root in [Root::Cwd, Root::Mod] {
            batch.push(Desc { root, comps: p.clone(), base: Base::Global("val".into()), generic: None, extra: Extra::Code });
        }
    }
    for p in paths.iter().take(200) {
        batch.push(Desc { root: Root::Outside, comps: p.clone(), base: Base::Global("val".into()), generic: None, extra: Extra::Code });
    }
    // correspondence only (not entities): the base directory itself, files without `.capy`
    for root in [Root::Cwd, Root::Mod] {
        batch.push(Desc { root, comps: vec![], base: Base::Global("val".into()), generic: None, extra: Extra::Code });
        for p in all_paths(&dirs, &dirs, 2) {
            batch.push(Desc { root, comps: p, base: Base::Lambda(1, None), generic: None, extra: Extra::Code });
        }
    }
    run.eval(batch);
    run.rep.exhaustive = true;

    // 2. entity grid on a few files (well-formed ones and members of every collision class)
    let files: Vec<(Root, Vec<&str>)> = vec![
        (Root::Cwd, vec!["main.capy"]),
        (Root::Cwd, vec!["lib", "util.capy"]),
        (Root::Cwd, vec!["1", "f.capy"]),
        (Root::Cwd, vec!["f1", "f.capy"]),
        (Root::Cwd, vec!["a", "src", "x.capy"]),
        (Root::Cwd, vec!["b", "src", "x.capy"]),
        (Root::Cwd, vec!["p.q", "f.capy"]),
        (Root::Cwd, vec!["p-q", "f.capy"]),
        (Root::Cwd, vec!["foo.capy.capy"]),
        (Root::Cwd, vec!["foo-capy.capy"]),
        (Root::Mod, vec!["core", "src", "mod.capy"]),
        (Root::Mod, vec!["core", "src", "list.capy"]),
        (Root::Mod, vec!["core", "mod.capy"]),
        (Root::Cwd, vec![]),
    ];
    run.eval(entity_grid(&files));

    // 3. index sweeps
    run.eval(index_sweeps());

    // 4. random + mutants
    let mut rng = Rng::new(seed);
    let n_random = if widen { 400_000 } else if thorough { 300_000 } else { 15_000 };
    let mut batch = vec![];
    for _ in 0..n_random {
        let d = random_desc(&mut rng, &pool);
        let k = 1 + rng.below(3);
        let mut cur = d.clone();
        batch.push(d);
        for _ in 0..k {
            cur = mutate(&mut rng, &cur);
            batch.push(cur.clone());
        }
    }
    run.eval(batch);

    run.pairwise();
    let n_groups = run.by_name.values().filter(|v| v.len() > 1).count();
    let n_wf = run.wf.iter().filter(|w| **w).count();
    let note = format!(
        "{} descriptors evaluated, {} distinct names, {} names shared by more than one descriptor; {} descriptors satisfy the Lean guard WF (no two of them collide)",
        run.all.len(), run.by_name.len(), n_groups, n_wf
    );
    run.rep.notes.push(note);
    rep
}

pub fn replay(input: &Value) -> String {
    let mut imp = Impl::new();
    let mut out = String::new();
    let mut names = vec![];
    let mut descs = vec![];
    let items: Vec<&Value> = if input.get("a").is_some() { vec![&input["a"], &input["b"]] } else { vec![input] };
    for it in items {
        let Some(d) = it["req"].as_str().and_then(parse_req) else {
            return "cannot parse replay input".into();
        };
        let got = imp.mangle(&d, 0);
        let model = lean::ask(&[format!("C27 m {}", d.req())]);
        let (mhex, mwf) = model[0].split_once(' ').unwrap_or((model[0].as_str(), "?"));
        out.push_str(&format!(
            "{}\n  implementation: {:?}\n  model: {} (guard WF = {})\n",
            d.human(), got, unhex(mhex).unwrap_or(mhex.to_string()), mwf
        ));
        names.push(got);
        descs.push(d);
    }
    let mut bad = false;
    if descs.len() == 2 && descs[0].resolved() != descs[1].resolved() && names[0].is_ok() && names[0] == names[1] {
        out.push_str(&format!("two different entities, one symbol (class: {})\n", classify(&descs[0], &descs[1])));
        bad = true;
    }
    for (d, n) in descs.iter().zip(names.iter()) {
        match n {
            Ok(s) if s == "main" || s.starts_with("_CI") => {
                out.push_str("symbol is a reserved name\n");
                bad = true;
            }
            Err(_) if d.root != Root::Outside => {
                out.push_str("mangling panicked\n");
                bad = true;
            }
            _ => {}
        }
    }
    out.push_str(if bad { "SPEC-MISMATCH" } else { "AGREE" });
    out
}
