//! End-to-end runs: real `capy` CLI (built from /repo's working tree by `./check`) compiles
//! generated programs, the harness runs the produced executables with a deadline.
use std::io::Read;
use std::path::{Path, PathBuf};
use std::process::{Command, Stdio};
use std::sync::atomic::{AtomicUsize, Ordering};
use std::sync::{Arc, Mutex};
use std::time::{Duration, Instant};

#[derive(Clone, Debug)]
pub struct Program {
    /// (relative path, contents); the first file is the root given to `capy build`
    pub files: Vec<(String, String)>,
}

impl Program {
    pub fn single(src: &str) -> Self {
        Program { files: vec![("main.capy".into(), src.into())] }
    }
}

#[derive(Clone, Debug, Default)]
pub struct Outcome {
    /// stdout of the compiler
    pub compile_out: String,
    pub compile_status: Option<i32>,
    pub compile_signal: Option<i32>,
    pub compile_timeout: bool,
    /// an executable was produced
    pub built: bool,
    pub run_out: Vec<u8>,
    pub run_status: Option<i32>,
    pub run_signal: Option<i32>,
    pub run_timeout: bool,
}

impl Outcome {
    pub fn stdout(&self) -> String {
        String::from_utf8_lossy(&self.run_out).to_string()
    }
    /// canonical one-line summary of the run: `exit=<n>|signal=<n>|timeout|not-built`
    pub fn run_summary(&self) -> String {
        if !self.built {
            "not-built".into()
        } else if self.run_timeout {
            "timeout".into()
        } else if let Some(s) = self.run_signal {
            format!("signal={s}")
        } else {
            format!("exit={}", self.run_status.unwrap_or(-1))
        }
    }
    pub fn compiler_panicked(&self) -> bool {
        self.compile_status == Some(101) || self.compile_signal.is_some() || self.compile_out.contains("panicked at")
    }
}

pub fn capy_bin() -> PathBuf {
    PathBuf::from(std::env::var("CAPY_BIN").unwrap_or_else(|_| "/verif/.build/capy/debug/capy".into()))
}

pub fn mod_dir() -> String {
    std::env::var("CAPY_MOD_DIR").unwrap_or_else(|_| "/repo".into())
}

fn scratch_root() -> PathBuf {
    let base = std::env::var("CVH_SCRATCH").unwrap_or_else(|_| "/verif/.build/e2e".into());
    PathBuf::from(base).join(format!("p{}", std::process::id()))
}

struct Waited {
    out: Vec<u8>,
    status: Option<i32>,
    signal: Option<i32>,
    timeout: bool,
}

fn run_with_deadline(mut cmd: Command, deadline: Duration) -> Waited {
    cmd.stdin(Stdio::null()).stdout(Stdio::piped()).stderr(Stdio::piped());
    let mut child = match cmd.spawn() {
        Ok(c) => c,
        Err(e) => {
            return Waited { out: format!("spawn failed: {e}").into_bytes(), status: Some(-2), signal: None, timeout: false }
        }
    };
    let mut stdout = child.stdout.take().unwrap();
    let mut stderr = child.stderr.take().unwrap();
    let t_out = std::thread::spawn(move || {
        let mut v = vec![];
        let _ = stdout.read_to_end(&mut v);
        v
    });
    let t_err = std::thread::spawn(move || {
        let mut v = vec![];
        let _ = stderr.read_to_end(&mut v);
        v
    });
    let start = Instant::now();
    let mut timeout = false;
    let status = loop {
        match child.try_wait() {
            Ok(Some(s)) => break Some(s),
            Ok(None) => {
                if start.elapsed() > deadline {
                    let _ = child.kill();
                    timeout = true;
                    break child.wait().ok();
                }
                std::thread::sleep(Duration::from_millis(3));
            }
            Err(_) => break None,
        }
    };
    let mut out = t_out.join().unwrap_or_default();
    let err = t_err.join().unwrap_or_default();
    if !err.is_empty() {
        out.extend_from_slice(b"\n[stderr]\n");
        out.extend_from_slice(&err);
    }
    #[cfg(unix)]
    let signal = {
        use std::os::unix::process::ExitStatusExt;
        status.and_then(|s| s.signal())
    };
    Waited { out, status: status.and_then(|s| s.code()), signal: if timeout { None } else { signal }, timeout }
}

pub struct Limits {
    pub compile: Duration,
    pub run: Duration,
}

impl Default for Limits {
    fn default() -> Self {
        Limits { compile: Duration::from_secs(180), run: Duration::from_secs(30) }
    }
}

/// Compile (and, if built, run) one program in its own scratch directory.
pub fn run_one(idx: usize, prog: &Program, limits: &Limits, keep: bool) -> Outcome {
    let dir = scratch_root().join(format!("n{idx}"));
    let _ = std::fs::remove_dir_all(&dir);
    std::fs::create_dir_all(&dir).unwrap();
    for (rel, text) in &prog.files {
        let p = dir.join(rel);
        if let Some(parent) = p.parent() {
            std::fs::create_dir_all(parent).unwrap();
        }
        std::fs::write(&p, text).unwrap();
    }
    let root = &prog.files[0].0;
    let mut cmd = Command::new(capy_bin());
    cmd.current_dir(&dir)
        .args(["build", root, "--mod-dir", &mod_dir(), "--color", "never", "-o", "prog"])
        .env("RUST_BACKTRACE", "0");
    let c = run_with_deadline(cmd, limits.compile);
    let mut o = Outcome {
        compile_out: String::from_utf8_lossy(&c.out).to_string(),
        compile_status: c.status,
        compile_signal: c.signal,
        compile_timeout: c.timeout,
        ..Default::default()
    };
    let exe = dir.join("out").join("prog");
    if exe.exists() && c.status == Some(0) {
        o.built = true;
        let mut run = Command::new(&exe);
        run.current_dir(&dir);
        let r = run_with_deadline(run, limits.run);
        o.run_out = r.out;
        o.run_status = r.status;
        o.run_signal = r.signal;
        o.run_timeout = r.timeout;
    }
    if !keep {
        let _ = std::fs::remove_dir_all(&dir);
    }
    o
}

/// Run many programs on a pool of worker threads (order of results = order of inputs).
pub fn run_all(progs: &[Program], limits: Limits) -> Vec<Outcome> {
    let n = progs.len();
    let jobs: usize = std::env::var("CVH_JOBS").ok().and_then(|s| s.parse().ok()).unwrap_or(16).max(1);
    let next = Arc::new(AtomicUsize::new(0));
    let results: Arc<Mutex<Vec<Option<Outcome>>>> = Arc::new(Mutex::new(vec![None; n]));
    let progs: Arc<Vec<Program>> = Arc::new(progs.to_vec());
    let limits = Arc::new(limits);
    let mut handles = vec![];
    for _ in 0..jobs.min(n.max(1)) {
        let next = next.clone();
        let results = results.clone();
        let progs = progs.clone();
        let limits = limits.clone();
        handles.push(std::thread::spawn(move || loop {
            let i = next.fetch_add(1, Ordering::SeqCst);
            if i >= progs.len() {
                break;
            }
            let o = run_one(i, &progs[i], &limits, false);
            results.lock().unwrap()[i] = Some(o);
        }));
    }
    for h in handles {
        let _ = h.join();
    }
    let _ = std::fs::remove_dir_all(scratch_root());
    let v = std::mem::take(&mut *results.lock().unwrap());
    v.into_iter().map(|o| o.unwrap_or_default()).collect()
}

pub fn available() -> bool {
    Path::new(&capy_bin()).exists()
}
