//! `cvh <property> --tier quick|thorough [--seed N] [--widen] [--replay file]`
//! Prints one JSON report on the last line of stdout.
mod c01;
mod c01_eq;
mod c01_order;
mod c02;
mod c02_copy;
mod c03;
mod c06;
mod c07;
mod c10;
mod core;
mod c17;
mod c20;
mod c20_globals;
mod c25;
mod e2e;
mod frontend;
mod ty;
mod c27;
mod c22;
mod c23;
mod c26;
mod c12;
mod c13;
mod c24;
mod c28;
mod c05;
mod c08;
mod c14;
mod c14_fit;
mod c09;
mod c15;
mod c15_worker;
mod c11;
mod c04;
mod c18;
mod c19;
mod c16;
mod lean;
mod report;
mod rng;

fn main() {
    let args: Vec<String> = std::env::args().collect();
    if args.len() < 2 {
        eprintln!("usage: cvh <Cxx> [--tier quick|thorough] [--seed N] [--widen]");
        std::process::exit(2);
    }
    let prop = args[1].as_str();
    let mut tier = std::env::var("VERIF_TIER").unwrap_or_else(|_| "quick".into());
    let mut seed: u64 = std::env::var("VERIF_SEED").ok().and_then(|s| s.parse().ok()).unwrap_or(1);
    let mut widen = false;
    let mut replay: Option<String> = None;
    let mut i = 2;
    while i < args.len() {
        match args[i].as_str() {
            "--tier" => {
                tier = args[i + 1].clone();
                i += 1;
            }
            "--seed" => {
                seed = args[i + 1].parse().expect("seed");
                i += 1;
            }
            "--widen" => widen = true,
            "--no-model" => lean::NO_MODEL.store(true, std::sync::atomic::Ordering::Relaxed),
            "--replay" => {
                replay = Some(args[i + 1].clone());
                i += 1;
            }
            other if prop == "_front" => {
                let _ = other;
            }
            other => {
                eprintln!("unknown argument {other}");
                std::process::exit(2);
            }
        }
        i += 1;
    }
    // silence panic messages of caught panics (they are outcomes, not crashes)
    std::panic::set_hook(Box::new(|_| {}));
    if let Some(path) = replay {
        let text = std::fs::read_to_string(&path).expect("replay file");
        let v: serde_json::Value = serde_json::from_str(&text).expect("replay json");
        let mut failed = false;
        for f in v["failures"].as_array().cloned().unwrap_or_default() {
            let out = match prop {
                "C25" => c25::replay(&f["input"]),
                "C17" => c17::replay(&f["input"]),
                "C20" => c20::replay(&f["input"]),
                "C03" => c03::replay(&f["input"]),
                "C02" => c02::replay(&f["input"]),
                "C07" => c07::replay(&f["input"]),
                "C06" => c06::replay(&f["input"]),
                "C10" => c10::replay(&f["input"]),
                "C01" => c01::replay(&f["input"]),
                "C27" => c27::replay(&f["input"]),
                "C22" => c22::replay(&f["input"]),
                "C23" => c23::replay(&f["input"]),
                "C26" => c26::replay(&f["input"]),
                "C12" => c12::replay(&f["input"]),
                "C13" => c13::replay(&f["input"]),
                "C24" => c24::replay(&f["input"]),
                "C28" => c28::replay(&f["input"]),
                "C05" => c05::replay(&f["input"]),
                "C08" => c08::replay(&f["input"]),
                "C14" => c14::replay(&f["input"]),
                "C09" => c09::replay(&f["input"]),
                "C15" => c15::replay(&f["input"]),
                "C11" => c11::replay(&f["input"]),
                "C04" => c04::replay(&f["input"]),
                "C18" => c18::replay(&f["input"]),
                "C19" => c19::replay(&f["input"]),
                "C16" => c16::replay(&f["input"]),
                _ => "replay not implemented for this property".to_string(),
            };
            println!("input: {}\n{}", f["input"], out);
            if out.contains("SPEC-MISMATCH") {
                failed = true;
            }
        }
        if v["failures"].as_array().map(|a| a.is_empty()).unwrap_or(true) {
            println!("replay names a broken theorem/correspondence, no concrete input: {}", v["broken"]);
            println!("{}", v["model_disagreements"]);
        }
        std::process::exit(if failed { 1 } else { 0 });
    }
    if prop == "_front" {
        // smoke test: cvh _front <file.capy>
        let text = std::fs::read_to_string(&args[2]).expect("file");
        let r = frontend::with_analysis(vec![("main.capy".into(), text)], Some("main".into()), true, |a| {
            (a.kinds(), a.any_unsafe, a.has_errors())
        });
        println!("{:?}", r);
        return;
    }
    let rep = match prop {
        "C25" => c25::run(&tier, seed, widen),
        "C17" => c17::run(&tier, seed, widen),
        "C20" => c20::run(&tier, seed, widen),
        "C03" => c03::run(&tier, seed, widen),
        "C02" => c02::run(&tier, seed, widen),
        "C07" => c07::run(&tier, seed, widen),
        "C06" => c06::run(&tier, seed, widen),
        "C10" => c10::run(&tier, seed, widen),
        "C01" => c01::run(&tier, seed, widen),
        "C27" => c27::run(&tier, seed, widen),
        "C22" => c22::run(&tier, seed, widen),
        "C23" => c23::run(&tier, seed, widen),
        "C26" => c26::run(&tier, seed, widen),
        "C12" => c12::run(&tier, seed, widen),
        "C13" => c13::run(&tier, seed, widen),
        "C24" => c24::run(&tier, seed, widen),
        "C28" => c28::run(&tier, seed, widen),
        "C05" => c05::run(&tier, seed, widen),
        "C08" => c08::run(&tier, seed, widen),
        "C14" => c14::run(&tier, seed, widen),
        "C09" => c09::run(&tier, seed, widen),
        "C15" => c15::run(&tier, seed, widen),
        "C11" => c11::run(&tier, seed, widen),
        "C04" => c04::run(&tier, seed, widen),
        "C18" => c18::run(&tier, seed, widen),
        "C19" => c19::run(&tier, seed, widen),
        "C16" => c16::run(&tier, seed, widen),
        _ => {
            eprintln!("unknown property {prop}");
            std::process::exit(2);
        }
    };
    println!("{}", rep.to_json());
}
