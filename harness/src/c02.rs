//! C02 — writing one value never changes any other value.
//! Two ties to the code on generated struct layouts (guard bytes between every pair of fields):
//!  1. store plans: for every (field, kind of source) a tiny writer function
//!     `(p: ^mut S, v: Src) { p.f = v; }` is compiled by the real CLI with
//!     `--verbose-binary local`; the stores it emits relative to `p` (store instructions and
//!     `memcpy` calls of the printed Cranelift IR) are compared with the Lean footprint model
//!     `CapyV.Stores.footprint`, and with the property: inside the bytes of field `f`.
//!  2. behaviour: the built program calls every writer on a struct whose guards hold known
//!     values and prints the guards and the written field after every write; struct values of
//!     every size 1..64 are passed to and returned from functions next to guard values.
use crate::e2e;
use crate::lean;
use crate::report::Report;
use crate::rng::Rng;
use crate::ty::{self, T};
use codegen::verif::layouts;
use hir::common::Ty;
use serde_json::json;
use std::process::Command;

#[derive(Clone, Copy, Debug, PartialEq)]
enum FK {
    EnumSmall, // enum { A: i32, B: u8, C }
    EnumWide,  // enum { P: u64, Q: u16 }
    OptU16,
    OptU64,
    OptPtr,
    ErrUnion, // bool!i32
    Inner9,   // struct { a: u64, b: u8 }
    Odd3,     // struct { a: u16, b: u8 }
    ArrOdd3,  // [2]Odd3
    U32,
}

const ALL_FK: [FK; 10] = [FK::EnumSmall, FK::EnumWide, FK::OptU16, FK::OptU64, FK::OptPtr, FK::ErrUnion, FK::Inner9, FK::Odd3, FK::ArrOdd3, FK::U32];

struct Src {
    name: &'static str,
    param_ty: &'static str,
    /// value written by main
    arg: &'static str,
    kind: &'static str,
    payload: T,
    /// what `show` prints for the field afterwards
    shows: &'static str,
}

fn odd3() -> T {
    ty::strukt(9003, &[ty::u(16), ty::u(8)])
}
fn inner9() -> T {
    ty::strukt(9009, &[ty::u(64), ty::u(8)])
}
fn enum_small() -> T {
    ty::enumm(9101, &[ty::i(32), ty::u(8), Ty::Void.into()], None)
}
fn enum_wide() -> T {
    ty::enumm(9102, &[ty::u(64), ty::u(16)], None)
}

impl FK {
    fn capy(self) -> &'static str {
        match self {
            FK::EnumSmall => "ES", FK::EnumWide => "EW", FK::OptU16 => "?u16", FK::OptU64 => "?u64", FK::OptPtr => "?^i32",
            FK::ErrUnion => "bool!i32", FK::Inner9 => "Inner9", FK::Odd3 => "Odd3", FK::ArrOdd3 => "[2]Odd3", FK::U32 => "u32",
        }
    }
    fn ty(self) -> T {
        match self {
            FK::EnumSmall => enum_small(),
            FK::EnumWide => enum_wide(),
            FK::OptU16 => ty::opt(ty::u(16)),
            FK::OptU64 => ty::opt(ty::u(64)),
            FK::OptPtr => ty::opt(ty::ptr(false, ty::i(32))),
            FK::ErrUnion => ty::eu(Ty::Bool.into(), ty::i(32)),
            FK::Inner9 => inner9(),
            FK::Odd3 => odd3(),
            FK::ArrOdd3 => ty::arr(2, odd3()),
            FK::U32 => ty::u(32),
        }
    }
    fn init(self) -> &'static str {
        match self {
            FK::EnumSmall => "ES.C", FK::EnumWide => "EW.Q.(7)", FK::OptU16 => "nil", FK::OptU64 => "nil", FK::OptPtr => "nil",
            FK::ErrUnion => "true", FK::Inner9 => "Inner9.{ a = 1, b = 2 }", FK::Odd3 => "Odd3.{ a = 1, b = 2 }",
            FK::ArrOdd3 => ".[Odd3.{ a = 1, b = 2 }, Odd3.{ a = 3, b = 4 }]", FK::U32 => "5",
        }
    }
    /// statements printing the content of field `s.<f>` on one line each
    fn show(self, f: &str) -> String {
        match self {
            FK::EnumSmall => format!("    if #is_variant(s.{f}, ES.A) {{ core.println(#unwrap(s.{f}, ES.A)); }}\n    if #is_variant(s.{f}, ES.B) {{ core.println(#unwrap(s.{f}, ES.B)); }}\n    if #is_variant(s.{f}, ES.C) {{ core.println(\"C\"); }}\n"),
            FK::EnumWide => format!("    if #is_variant(s.{f}, EW.P) {{ core.println(#unwrap(s.{f}, EW.P)); }}\n    if #is_variant(s.{f}, EW.Q) {{ core.println(#unwrap(s.{f}, EW.Q)); }}\n"),
            FK::OptU16 => format!("    if #is_variant(s.{f}, u16) {{ core.println(#unwrap(s.{f}, u16)); }} else {{ core.println(\"nil\"); }}\n"),
            FK::OptU64 => format!("    if #is_variant(s.{f}, u64) {{ core.println(#unwrap(s.{f}, u64)); }} else {{ core.println(\"nil\"); }}\n"),
            FK::OptPtr => format!("    if #is_variant(s.{f}, ^i32) {{ core.println(#unwrap(s.{f}, ^i32)^); }} else {{ core.println(\"nil\"); }}\n"),
            FK::ErrUnion => format!("    if #is_variant(s.{f}, i32) {{ core.println(#unwrap(s.{f}, i32)); }} else {{ core.println(#unwrap(s.{f}, bool)); }}\n"),
            FK::Inner9 | FK::Odd3 => format!("    core.println(s.{f}.a);\n    core.println(s.{f}.b);\n"),
            FK::ArrOdd3 => format!("    core.println(s.{f}[0].a);\n    core.println(s.{f}[0].b);\n    core.println(s.{f}[1].a);\n    core.println(s.{f}[1].b);\n"),
            FK::U32 => format!("    core.println(s.{f});\n"),
        }
    }
    fn sources(self) -> Vec<Src> {
        let v = |name, param_ty, arg, kind, payload: T, shows| Src { name, param_ty, arg, kind, payload, shows };
        let void: T = Ty::Void.into();
        match self {
            FK::EnumSmall => vec![
                v("varA", "ES.A", "ES.A.(-77)", "variant", ty::i(32), "-77"),
                v("varB", "ES.B", "ES.B.(200)", "variant", ty::u(8), "200"),
                v("varC", "ES.C", "ES.C", "variant", void, "C"),
                v("same", "ES", "ES.A.(1234567)", "same", void, "1234567"),
            ],
            FK::EnumWide => vec![
                v("varP", "EW.P", "EW.P.(18446744073709551615)", "variant", ty::u(64), "18446744073709551615"),
                v("varQ", "EW.Q", "EW.Q.(65535)", "variant", ty::u(16), "65535"),
                v("same", "EW", "EW.Q.(9)", "same", void, "9"),
            ],
            FK::OptU16 => vec![v("some", "u16", "65535", "payload", ty::u(16), "65535"), v("nil", "", "", "nil", void, "nil"), v("same", "?u16", "u16.(4660)", "same", void, "4660")],
            FK::OptU64 => vec![v("some", "u64", "18446744073709551615", "payload", ty::u(64), "18446744073709551615"), v("nil", "", "", "nil", void, "nil")],
            FK::OptPtr => vec![v("some", "^i32", "^gv", "payload", ty::ptr(false, ty::i(32)), "4242"), v("nil", "", "", "nil", void, "nil")],
            FK::ErrUnion => vec![v("ok", "i32", "i32.(-5)", "payload", ty::i(32), "-5"), v("err", "bool", "false", "payload", Ty::Bool.into(), "false")],
            FK::Inner9 => vec![v("same", "Inner9", "Inner9.{ a = 18446744073709551615, b = 255 }", "same", void, "18446744073709551615;255")],
            FK::Odd3 => vec![v("same", "Odd3", "Odd3.{ a = 65535, b = 255 }", "same", void, "65535;255")],
            FK::ArrOdd3 => vec![v("same", "[2]Odd3", ".[Odd3.{ a = 65535, b = 255 }, Odd3.{ a = 65534, b = 254 }]", "same", void, "65535;255;65534;254")],
            FK::U32 => vec![v("same", "u32", "4294967295", "same", void, "4294967295")],
        }
    }
}

const PRELUDE: &str = "core :: #mod(\"core\");\n\nES :: enum { A: i32, B: u8, C };\nEW :: enum { P: u64, Q: u16 };\nInner9 :: struct { a: u64, b: u8 };\nOdd3 :: struct { a: u16, b: u8 };\n\n";

struct Layout {
    fields: Vec<FK>,
    src: String,
    /// (writer function name, field index in S (incl. guards), FK, source index)
    writers: Vec<(String, usize, FK, usize)>,
    s_ty: T,
}

fn build_layout(fields: Vec<FK>) -> Layout {
    // S = g0, f0, g1, f1, …, gn
    let mut decl = String::from("S :: struct { g0: u8");
    let mut init = String::from("S.{ g0 = 100");
    let mut tys: Vec<T> = vec![ty::u(8)];
    for (k, f) in fields.iter().enumerate() {
        decl.push_str(&format!(", f{k}: {}, g{}: u8", f.capy(), k + 1));
        init.push_str(&format!(", f{k} = {}, g{} = {}", f.init(), k + 1, 101 + k));
        tys.push(f.ty());
        tys.push(ty::u(8));
    }
    decl.push_str(" };\n\n");
    init.push_str(" }");
    let mut src = format!("{PRELUDE}{decl}");
    let mut writers = vec![];
    let mut main = format!("gv : i32 : 4242;\n\nshow_guards :: (s: S) {{\n");
    for k in 0..=fields.len() {
        main.push_str(&format!("    core.println(s.g{k});\n"));
    }
    main.push_str("}\n\n");
    for (k, f) in fields.iter().enumerate() {
        main.push_str(&format!("show_f{k} :: (s: S) {{\n{}}}\n\n", f.show(&format!("f{k}"))));
    }
    main.push_str(&format!("main :: () {{\n    s := {init};\n"));
    for (k, f) in fields.iter().enumerate() {
        for (si, s) in f.sources().iter().enumerate() {
            let w = format!("w_{k}_{}", s.name);
            if s.kind == "nil" {
                src.push_str(&format!("{w} :: (p: ^mut S) {{ p.f{k} = nil; }}\n"));
                main.push_str(&format!("    {w}(^mut s);\n"));
            } else {
                src.push_str(&format!("{w} :: (p: ^mut S, v: {}) {{ p.f{k} = v; }}\n", s.param_ty));
                main.push_str(&format!("    {w}(^mut s, {});\n", s.arg));
            }
            main.push_str(&format!("    core.println(\"W {w}\");\n    show_f{k}(s);\n    show_guards(s);\n"));
            writers.push((w, 1 + 2 * k, *f, si));
        }
    }
    main.push_str("}\n");
    src.push('\n');
    src.push_str(&main);
    Layout { fields, src, writers, s_ty: ty::strukt(9500, &tys) }
}

/// stores relative to the first parameter `v0` of the function `name` in the printed CLIF
fn stores_of(ir: &str, name: &str) -> Option<Vec<(i64, i64)>> {
    let start = ir.find(&format!("(main::{name})"))?;
    let body = &ir[start..];
    let end = body.find("\n}").unwrap_or(body.len());
    let body = &body[..end];
    use std::collections::HashMap;
    let mut base: HashMap<String, i64> = HashMap::new(); // value -> offset from v0
    let mut width: HashMap<String, i64> = HashMap::new(); // value -> byte width
    let mut consts: HashMap<String, i64> = HashMap::new();
    base.insert("v0".into(), 0);
    let ty_bytes = |t: &str| -> Option<i64> {
        Some(match t { "i8" => 1, "i16" => 2, "i32" | "f32" => 4, "i64" | "f64" => 8, "i128" => 16, _ => return None })
    };
    let mut out = vec![];
    for line in body.lines() {
        let l = line.trim();
        // block params / function params: `entry_0(v0: i64, v1: i8):`
        if let (Some(a), Some(b)) = (l.find('('), l.rfind("):")) {
            if !l.contains('=') && a < b {
                for p in l[a + 1..b].split(',') {
                    if let Some((n, t)) = p.trim().split_once(':') {
                        if let Some(w) = ty_bytes(t.trim()) {
                            width.insert(n.trim().to_string(), w);
                        }
                    }
                }
            }
        }
        let l = l.split(';').next().unwrap().trim();
        if let Some((lhs, rhs)) = l.split_once(" = ") {
            let lhs = lhs.trim().to_string();
            let mut it = rhs.split_whitespace();
            let op = it.next().unwrap_or("");
            let (opname, opty) = op.split_once('.').unwrap_or((op, ""));
            if let Some(w) = ty_bytes(opty) {
                width.insert(lhs.clone(), w);
            }
            match opname {
                "iadd_imm" => {
                    let args: Vec<&str> = rhs[op.len()..].split(',').map(|x| x.trim()).collect();
                    if let (Some(b), Ok(k)) = (base.get(args[0]).copied(), args.get(1).unwrap_or(&"x").parse::<i64>()) {
                        base.insert(lhs.clone(), b + k);
                    }
                }
                "iconst" => {
                    if let Some(k) = rhs[op.len()..].trim().parse::<i64>().ok() {
                        consts.insert(lhs.clone(), k);
                    }
                }
                "load" | "stack_load" => {}
                "call" => {
                    // `call fn0(v4, v3, v5)` with fn0 = %Memcpy
                    if body.contains("%Memcpy") {
                        if let (Some(a), Some(b)) = (rhs.find('('), rhs.rfind(')')) {
                            let args: Vec<&str> = rhs[a + 1..b].split(',').map(|x| x.trim()).collect();
                            if args.len() == 3 {
                                if let (Some(d), Some(n)) = (base.get(args[0]), consts.get(args[2])) {
                                    out.push((*d, *n));
                                }
                            }
                        }
                    }
                }
                _ => {}
            }
            continue;
        }
        if l.starts_with("store") {
            // store[.ty] flags… vVal, vAddr[+off]
            let opty = l.split_whitespace().next().unwrap().split_once('.').map(|x| x.1).unwrap_or("");
            let rest: Vec<&str> = l.split(',').collect();
            if rest.len() < 2 {
                return None;
            }
            let val = rest[rest.len() - 2].split_whitespace().last().unwrap_or("");
            let addr = rest[rest.len() - 1].trim();
            let (a, off) = match addr.split_once('+') {
                Some((a, o)) => (a.trim(), o.trim().parse::<i64>().ok()?),
                None => (addr, 0),
            };
            let w = ty_bytes(opty).or(width.get(val).copied())?;
            if let Some(b) = base.get(a) {
                out.push((b + off, w));
            }
            // stores to other addresses (spill slots of the writer itself) are not stores into `*p`
        }
    }
    Some(out)
}

fn merge(mut v: Vec<(i64, i64)>) -> String {
    v.retain(|s| s.1 > 0);
    let mut iv: Vec<(i64, i64)> = v.iter().map(|s| (s.0, s.0 + s.1)).collect();
    iv.sort();
    let mut out: Vec<(i64, i64)> = vec![];
    for (a, b) in iv {
        if let Some(l) = out.last_mut() {
            if a <= l.1 {
                l.1 = l.1.max(b);
                continue;
            }
        }
        out.push((a, b));
    }
    if out.is_empty() { "-".into() } else { out.iter().map(|p| format!("{}-{}", p.0, p.1)).collect::<Vec<_>>().join(",") }
}

fn build_with_ir(idx: usize, src: &str) -> (bool, String, String) {
    let base = std::env::var("CVH_SCRATCH").unwrap_or_else(|_| "/verif/.build/e2e".into());
    let dir = std::path::PathBuf::from(base).join(format!("c02_p{}_{}", std::process::id(), idx));
    let _ = std::fs::remove_dir_all(&dir);
    std::fs::create_dir_all(&dir).unwrap();
    std::fs::write(dir.join("main.capy"), src).unwrap();
    let out = Command::new(e2e::capy_bin())
        .current_dir(&dir)
        .args(["build", "main.capy", "--mod-dir", &e2e::mod_dir(), "--color", "never", "-o", "prog", "--verbose-binary", "local"])
        .output()
        .expect("capy");
    let ir = String::from_utf8_lossy(&out.stdout).to_string();
    let exe = dir.join("out").join("prog");
    let mut run_out = String::new();
    let built = exe.exists() && out.status.code() == Some(0);
    if built {
        if let Ok(r) = Command::new(&exe).current_dir(&dir).output() {
            run_out = format!("{}\n[status {:?}]", String::from_utf8_lossy(&r.stdout), r.status.code());
        }
    }
    let _ = std::fs::remove_dir_all(&dir);
    (built, ir, run_out)
}

fn struct_pass_program(sizes: &[usize]) -> (String, Vec<String>) {
    // structs of k u8 fields, passed by value and returned; guards are locals and fields
    let mut s = String::from("core :: #mod(\"core\");\n\n");
    let mut expect = vec![];
    let mut main = String::from("main :: () {\n");
    for &k in sizes {
        let fields: Vec<String> = (0..k).map(|i| format!("b{i}: u8")).collect();
        s.push_str(&format!("B{k} :: struct {{ {} }};\n", fields.join(", ")));
        s.push_str(&format!("W{k} :: struct {{ g0: u8, v: B{k}, g1: u8 }};\n"));
        s.push_str(&format!("bump{k} :: (x: B{k}) -> B{k} {{\n    y := x;\n    y.b0 = y.b0 + 1;\n    y.b{} = y.b{} + 2;\n    y\n}}\n\n", k - 1, k - 1));
        let init: Vec<String> = (0..k).map(|i| format!("b{i} = {}", (i * 7 + 3) % 200)).collect();
        main.push_str(&format!("    a{k} := B{k}.{{ {} }};\n    w{k} := W{k}.{{ g0 = 91, v = a{k}, g1 = 92 }};\n    w{k}.v = bump{k}(a{k});\n", init.join(", ")));
        main.push_str(&format!("    core.println(w{k}.g0);\n    core.println(w{k}.g1);\n    core.println(a{k}.b0);\n    core.println(w{k}.v.b0);\n    core.println(w{k}.v.b{});\n", k - 1));
        let b0 = 3u64;
        let bl = ((k - 1) * 7 + 3) % 200;
        expect.push("91".to_string());
        expect.push("92".to_string());
        expect.push(b0.to_string());
        if k == 1 {
            expect.push((b0 + 3).to_string());
            expect.push((b0 + 3).to_string());
        } else {
            expect.push((b0 + 1).to_string());
            expect.push((bl as u64 + 2).to_string());
        }
        // checksum of the middle bytes
        if k > 2 {
            let mid: Vec<String> = (1..k - 1).map(|i| format!("u32.(w{k}.v.b{i})")).collect();
            main.push_str(&format!("    core.println({});\n", mid.join(" + ")));
            expect.push((1..k - 1).map(|i| ((i * 7 + 3) % 200) as u64).sum::<u64>().to_string());
        }
    }
    main.push_str("}\n");
    s.push_str(&main);
    (s, expect)
}

/// An aggregate whose size is not a multiple of 8 (3, 5, 6, 7 bytes ...) copied WHOLE into a member of
/// a struct literal that is built on the stack with its members written out of declaration order, or
/// of a reordering struct cast: the member packed right after it was stored earlier, so a copy that
/// is wider than the value (seeded change C02_3: the tail of the stack memcpy rounded up to a power
/// of two) overwrites it.
fn odd_member_program() -> (String, Vec<String>) {
    let mut s = String::from("core :: #mod(\"core\");\n\n");
    let mut main = String::from("main :: () {\n");
    let mut expect = vec![];
    // (name, definition, literal, field to print, its value, size)
    let tys: [(&str, &str, &str, &str, &str); 6] = [
        ("T3", "struct { a: u8, b: u8, c: u8 }", "T3.{ a = 1, b = 2, c = 3 }", "c", "3"),
        ("T5", "struct { a: i32, b: u8 }", "T5.{ a = 100000, b = 5 }", "b", "5"),
        ("T6", "struct { a: i32, b: u16 }", "T6.{ a = 100000, b = 600 }", "b", "600"),
        ("T7", "struct { a: i32, b: u16, c: u8 }", "T7.{ a = 100000, b = 600, c = 7 }", "c", "7"),
        ("T9", "struct { a: u64, b: u8 }", "T9.{ a = 5000000000, b = 9 }", "b", "9"),
        ("T11", "struct { a: u64, b: u16, c: u8 }", "T11.{ a = 5000000000, b = 600, c = 11 }", "c", "11"),
    ];
    for (n, def, lit, f, fv) in tys {
        s.push_str(&format!("{n} :: {def};\nW{n} :: struct {{ g: u8, v: {n}, h: u8, k: u8 }};\nR{n} :: struct {{ k: u8, h: u8, v: {n}, g: u8 }};\n"));
        // out-of-order literal: the members after `v` are written first
        main.push_str(&format!(
            "    {{\n        src := {lit};\n        w := W{n}.{{ k = 93, h = 92, v = src, g = 91 }};\n        core.println(w.g);\n        core.println(w.h);\n        core.println(w.k);\n        core.println(w.v.{f});\n"
        ));
        expect.extend(["91".to_string(), "92".into(), "93".into(), fv.to_string()]);
        // reordering struct cast
        main.push_str(&format!(
            "        r := R{n}.{{ k = 83, h = 82, v = src, g = 81 }};\n        c := W{n}.(r);\n        core.println(c.g);\n        core.println(c.h);\n        core.println(c.k);\n        core.println(c.v.{f});\n    }}\n"
        ));
        expect.extend(["81".to_string(), "82".into(), "83".into(), fv.to_string()]);
    }
    main.push_str("}\n");
    s.push_str(&main);
    (s, expect)
}

/// `s.f op= y` where `y` is WIDER than the field: either the program is rejected (the result does
/// not fit the destination) or the store stays inside the field — the neighbours keep their values
/// and the field holds the wrapped result. One program per (field type, value type, operator).
fn compound_assign_cases() -> Vec<(String, String, String, String, i128, u32)> {
    let mut out = vec![];
    for (ft, fb, vt, v) in [
        ("u8", 8u32, "u16", 1000i128), ("u8", 8, "u32", 1000), ("u8", 8, "u64", 70000), ("u16", 16, "u32", 70000),
        ("u16", 16, "u64", 5_000_000_000), ("u32", 32, "u64", 5_000_000_000), ("i8", 8, "i32", 1000), ("i16", 16, "i64", 70000),
        ("i32", 32, "i64", 5_000_000_000),
    ] {
        for op in ["+=", "*=", "|="] {
            let src = format!(
                "core :: #mod(\"core\");\nS :: struct {{ g0: {ft}, f: {ft}, g1: {ft}, g2: {ft}, g3: {ft} }};\nmain :: () {{\n    s := S.{{ g0 = 11, f = 3, g1 = 12, g2 = 13, g3 = 14 }};\n    y : {vt} = {v};\n    s.f {op} y;\n    core.println(s.g0);\n    core.println(s.g1);\n    core.println(s.g2);\n    core.println(s.g3);\n    core.println(s.f);\n}}\n"
            );
            out.push((ft.to_string(), vt.to_string(), op.to_string(), src, v, fb));
        }
    }
    out
}

pub fn run(tier: &str, seed: u64, widen: bool) -> Report {
    let mut rep = Report::new(
        "C02",
        "real capy CLI: (1) the stores of writer functions read from the printed Cranelift IR vs the Lean footprint model CapyV.Stores.footprint; (2) guards and field contents printed by the built program after every write; struct arguments/returns of every size; (3) generated copy programs (every syntactic form of an aggregate copy, writes to source and copy, direct / through pointers / in callees) vs the Lean model CapyV.Copy.run",
        "struct layouts `g0 f0 g1 f1 … gn` with u8 guards between 3-5 fields drawn (seeded) from: small/wide enums, ?u16, ?u64, ?^i32, bool!i32, struct{u64,u8}, struct{u16,u8}, [2]struct{u16,u8}, u32; for every field every kind of source (same type, each variant, payload, nil): one writer function; plus by-value struct arguments/returns of sizes 1..64 between guards; plus CopyLang programs: 2-3 initial aggregates (struct, nested struct, array of structs, int array), 14-27 seeded operations (copy in one of 9 forms from a variable, field or element; scalar write direct / through a pointer / in a callee; aggregate assignment between or within variables; print of a cell) and a final print of every cell, the 9-form corpus first. Non-trivial = a write into a sum type or odd-sized aggregate; distinct by (layout, writer)",
    );
    if !e2e::available() {
        rep.notes.push("capy CLI binary missing".into());
        return rep;
    }
    let mut rng = Rng::new(seed);
    let n_layouts = if widen { 40 } else if tier == "thorough" { 24 } else { 6 };
    let mut layouts_v = vec![build_layout(ALL_FK[..5].to_vec()), build_layout(ALL_FK[5..].to_vec())];
    while layouts_v.len() < n_layouts {
        let n = 3 + rng.below(3) as usize;
        let fs: Vec<FK> = (0..n).map(|_| *rng.pick(&ALL_FK)).collect();
        layouts_v.push(build_layout(fs));
    }
    for (li, l) in layouts_v.iter().enumerate() {
        let (built, ir, run_out) = build_with_ir(li, &l.src);
        if !built {
            rep.case(None);
            rep.oracle_fail("layout-program-not-built", json!({"source": l.src}), json!(ir.lines().filter(|x| x.starts_with("error") || x.contains("panicked")).take(3).collect::<Vec<_>>()), json!("accepted"), "a program of the template family was rejected or crashed the compiler");
            continue;
        }
        // layout of S through the hook
        let info = layouts(&[l.s_ty], 64).pop().unwrap();
        let offs = info.struct_offsets.clone().unwrap_or_default();
        let field_tys: Vec<T> = match l.s_ty.as_ref() {
            Ty::ConcreteStruct { members, .. } => members.iter().map(|m| m.ty).collect(),
            _ => vec![],
        };
        let sizes: Vec<u32> = layouts(&field_tys, 64).iter().map(|x| x.size).collect();
        // 1. store plans
        let mut reqs = vec![];
        let mut metas = vec![];
        for (w, fidx, fk, si) in &l.writers {
            let s = &fk.sources()[*si];
            reqs.push(format!("C02 fp 64 {} {} {} | {}", offs[*fidx], s.kind, ty::sexp(&fk.ty()), ty::sexp(&s.payload)));
            metas.push((w.clone(), *fidx, *fk, *si));
        }
        let answers = lean::ask(&reqs);
        for ((w, fidx, fk, si), model) in metas.iter().zip(answers.iter()) {
            let s = &fk.sources()[*si];
            let nontrivial = !matches!(fk, FK::U32);
            rep.case(if nontrivial { Some(format!("{li}:{w}:{:?}", l.fields)) } else { None });
            rep.hit(&format!("{:?}:{}", fk, s.kind));
            let input = json!({"writer": w, "field": format!("f{} : {}", (fidx - 1) / 2, fk.capy()), "source": l.src});
            let Some(stores) = stores_of(&ir, w) else {
                rep.disagree(input, json!("IR not understood"), json!(model));
                continue;
            };
            let got = merge(stores.clone());
            if rep.evaluations % 13 == 1 {
                rep.sample(json!({"writer": w, "field_type": fk.capy(), "source_kind": s.kind, "field_bytes": format!("{}-{}", offs[*fidx], offs[*fidx] + sizes[*fidx]), "bytes_written": got}));
            }
            if model != "?" && &got != model {
                rep.disagree(input.clone(), json!(got), json!(model));
            }
            let (lo, hi) = (offs[*fidx] as i64, offs[*fidx] as i64 + sizes[*fidx] as i64);
            if stores.iter().any(|(o, wd)| *o < lo || o + wd > hi) {
                rep.oracle_fail(&format!("store-outside-field:{:?}:{}", fk, s.kind), input, json!(got), json!(format!("inside {lo}-{hi}")), "a store of the assignment lands outside the bytes of the assigned field");
            }
        }
        // 2. behaviour
        let mut lines = run_out.lines();
        let all: Vec<&str> = run_out.lines().collect();
        let _ = &mut lines;
        let guards_expected: Vec<String> = (0..=l.fields.len()).map(|k| (100 + k).to_string()).collect();
        let mut pos = 0;
        for (w, _fidx, fk, si) in &l.writers {
            let s = &fk.sources()[*si];
            let want_field: Vec<String> = s.shows.split(';').map(|x| x.to_string()).collect();
            let input = json!({"writer": w, "source": l.src});
            rep.traces_validated += 1;
            // find "W <w>"
            match all.iter().skip(pos).position(|x| *x == format!("W {w}")) {
                None => {
                    rep.oracle_fail("program-died-before-write", input, json!(all.last().unwrap_or(&"")), json!(format!("W {w}")), "the built program did not reach this write");
                    break;
                }
                Some(p) => {
                    pos += p + 1;
                    let nf = want_field.len();
                    let got_field: Vec<String> = all.iter().skip(pos).take(nf).map(|x| x.to_string()).collect();
                    let got_guards: Vec<String> = all.iter().skip(pos + nf).take(guards_expected.len()).map(|x| x.to_string()).collect();
                    if got_field != want_field {
                        rep.oracle_fail(&format!("written-value-wrong:{:?}:{}", fk, s.kind), input.clone(), json!(got_field), json!(want_field), "the assigned field does not hold the assigned value");
                    }
                    if got_guards != guards_expected {
                        rep.oracle_fail(&format!("guard-clobbered:{:?}:{}", fk, s.kind), input, json!(got_guards), json!(guards_expected), "writing one field changed another value");
                    }
                }
            }
        }
    }
    // struct arguments / returns of every size
    let sizes: Vec<usize> = if tier == "thorough" || widen { (1..=64).collect() } else { vec![1, 2, 3, 4, 5, 6, 7, 8, 9, 12, 13, 15, 16, 17, 24, 31, 32, 33, 48, 63, 64] };
    for chunk in sizes.chunks(8) {
        let (src, expect) = struct_pass_program(chunk);
        let o = e2e::run_all(&[e2e::Program::single(&src)], e2e::Limits::default());
        let got: Vec<String> = o[0].stdout().lines().map(|x| x.to_string()).collect();
        rep.case(Some(format!("pass:{chunk:?}")));
        rep.hit("struct-pass-return");
        if !o[0].built || o[0].run_status != Some(0) || got != expect {
            rep.oracle_fail("struct-arg-return", json!({"sizes": chunk, "source": src}), json!({"built": o[0].built, "status": o[0].run_summary(), "lines": got}), json!(expect), "by-value struct argument/return changed a value it should not or lost a byte");
        }
    }
    // 2a. odd-sized aggregates copied into members of out-of-order literals / reordering casts
    {
        let (src, expect) = odd_member_program();
        let o = e2e::run_all(&[e2e::Program::single(&src)], e2e::Limits::default());
        let got: Vec<String> = o[0].stdout().lines().map(|x| x.trim().to_string()).collect();
        rep.case(Some("odd-member-out-of-order".into()));
        rep.hit("odd-sized-member:out-of-order-literal-and-reordering-cast");
        if !o[0].built || o[0].run_status != Some(0) || got != expect {
            rep.oracle_fail("odd-sized-member-copy-clobbers-neighbour", json!({"source": src}), json!({"built": o[0].built, "status": o[0].run_summary(), "lines": got}), json!(expect), "copying an aggregate whose size is not a multiple of 8 into a struct member changed the member stored next to it");
        }
    }
    // 2b. compound assignment of a wider value into a narrow field
    {
        let cases = compound_assign_cases();
        let progs: Vec<e2e::Program> = cases.iter().map(|c| e2e::Program::single(&c.3)).collect();
        let outs = e2e::run_all(&progs, e2e::Limits::default());
        for ((ft, vt, op, src, v, fb), o) in cases.iter().zip(outs.iter()) {
            rep.case(Some(format!("compound:{ft}{op}{vt}")));
            let input = json!({"field_type": ft, "value_type": vt, "op": op, "source": src});
            if !o.built {
                if o.compile_out.contains("panicked at") || !o.compile_out.lines().any(|l| l.starts_with("error")) {
                    rep.oracle_fail("compound-assign-crashes-compiler", input, json!(o.compile_out.lines().filter(|l| l.contains("panicked") || l.contains("Error")).take(2).collect::<Vec<_>>()), json!("rejected with a diagnostic, or built"), "compound assignment of a wider value crashed the compiler");
                } else {
                    rep.hit("compound-assign:rejected");
                }
                continue;
            }
            rep.hit("compound-assign:accepted");
            let got: Vec<String> = o.stdout().lines().map(|x| x.trim().to_string()).collect();
            let m = 1i128 << fb;
            let raw = match op.as_str() {
                "+=" => (3 + v).rem_euclid(m),
                "*=" => (3 * v).rem_euclid(m),
                _ => (3 | v).rem_euclid(m),
            };
            let wrapped = if ft.starts_with('i') && raw >= m / 2 { raw - m } else { raw };
            let want = vec!["11".to_string(), "12".into(), "13".into(), "14".into(), wrapped.to_string()];
            if o.run_status != Some(0) || got != want {
                rep.oracle_fail(&format!("compound-assign-clobbers-neighbours:{ft}<-{vt}"), input, json!(got), json!(want), "`field op= wider value` changed the fields next to it (or lost the result)");
            }
        }
    }
    // 3. aggregates are copied: generated copy programs vs the CopyLang model
    crate::c02_copy::run(&mut rep, &mut rng, tier, widen);
    rep
}

pub fn replay(input: &serde_json::Value) -> String {
    let src = input["source"].as_str().unwrap_or("");
    let (built, ir, out) = build_with_ir(0, src);
    let w = input["writer"].as_str().unwrap_or("");
    format!("built={built}\nstores of {w}: {:?}\n{}", stores_of(&ir, w), out)
}
