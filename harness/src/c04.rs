//! C04 — a comptime block yields what the same code yields at run time.
//!
//! Four streams:
//! * `accept`  (in-process front end): generated result types, also ones holding addresses at any
//!   depth; the real checker's `ComptimePointer` verdict vs the Lean model `Comptime.accepts` and vs the
//!   property's own rule (accepted ⇒ `str` or no address anywhere inside).
//! * `capture` (in-process front end + the real JIT, `codegen::eval_comptime_blocks`): the
//!   `ComptimeResult` variant / bit width / byte count of generated blocks vs the model's capture path.
//! * `e2e` (real CLI + built executable): every generated block body is evaluated at run time and inside
//!   `comptime` — as a global, as a local, nested, nested with a local in between — in one program;
//!   the printed leaves must be identical (the oracle). Scalars and strings are also pushed through
//!   the Lean `capture`/`embedCode`/`intoBytes`/`readGlobal` and compared with what the program printed.
//! * `effects` (real CLI): output of comptime blocks appears on the compiler's stdout, once, and never
//!   on the program's.
use crate::e2e::{self, Program};
use crate::frontend;
use crate::lean;
use crate::report::Report;
use crate::rng::Rng;
use serde_json::json;
use std::collections::BTreeMap;

// ---- types ----------------------------------------------------------------------------------

#[derive(Clone, Debug, PartialEq)]
pub enum CT {
    Int(bool, u32),
    ISize,
    USize,
    F32,
    F64,
    Bool,
    Char,
    Arr(u32, Box<CT>),
    Struct(usize),
    Enum(usize),
    Opt(Box<CT>),
    ErrU(Box<CT>, Box<CT>),
    Distinct(usize),
    Type,
    Str,
    Void,
    // address-holding types (acceptance stream only)
    Ptr(bool, Box<CT>),
    Slice(Box<CT>),
    RawPtr(bool),
    RawSlice,
    Any,
    FnPtr,
}

#[derive(Clone, Debug, Default)]
pub struct Defs {
    pub structs: Vec<Vec<CT>>,
    /// variants: payload type (None = no payload)
    pub enums: Vec<Vec<Option<CT>>>,
    pub distincts: Vec<CT>,
}

impl CT {
    pub fn capy(&self) -> String {
        match self {
            CT::Int(s, b) => format!("{}{}", if *s { "i" } else { "u" }, b),
            CT::ISize => "isize".into(),
            CT::USize => "usize".into(),
            CT::F32 => "f32".into(),
            CT::F64 => "f64".into(),
            CT::Bool => "bool".into(),
            CT::Char => "char".into(),
            CT::Arr(n, t) => format!("[{}]{}", n, t.capy()),
            CT::Struct(i) => format!("S{i}"),
            CT::Enum(i) => format!("E{i}"),
            CT::Opt(t) => format!("?{}", t.capy()),
            CT::ErrU(e, p) => format!("{}!{}", e.capy(), p.capy()),
            CT::Distinct(i) => format!("D{i}"),
            CT::Type => "type".into(),
            CT::Str => "str".into(),
            CT::Void => "void".into(),
            CT::Ptr(m, t) => format!("^{}{}", if *m { "mut " } else { "" }, t.capy()),
            CT::Slice(t) => format!("[]{}", t.capy()),
            CT::RawPtr(m) => if *m { "mut rawptr".into() } else { "rawptr".into() },
            CT::RawSlice => "rawslice".into(),
            CT::Any => "any".into(),
            CT::FnPtr => "(x: i32) -> i32".into(),
        }
    }
    /// wire format of `lean/CapyV/Driver/TyCodec.lean` (uids and names are stand-ins)
    pub fn sexp(&self, d: &Defs) -> String {
        match self {
            CT::Int(true, b) => format!("(i {b})"),
            CT::Int(false, b) => format!("(u {b})"),
            CT::ISize => "(i 255)".into(),
            CT::USize => "(u 255)".into(),
            CT::F32 => "(f 32)".into(),
            CT::F64 => "(f 64)".into(),
            CT::Bool => "bool".into(),
            CT::Char => "char".into(),
            CT::Arr(n, t) => format!("(arr {} {})", n, t.sexp(d)),
            CT::Struct(i) => format!(
                "(struct {}{})",
                100 + i,
                d.structs[*i].iter().enumerate().map(|(k, t)| format!(" ({} {})", k, t.sexp(d))).collect::<String>()
            ),
            CT::Enum(i) => format!(
                "(enum {}{})",
                200 + i,
                d.enums[*i]
                    .iter()
                    .enumerate()
                    .map(|(k, t)| format!(
                        " (variant {} {} {} {} {})",
                        200 + i,
                        k,
                        1000 + 10 * i + k,
                        t.as_ref().map(|t| t.sexp(d)).unwrap_or("void".into()),
                        k
                    ))
                    .collect::<String>()
            ),
            CT::Opt(t) => format!("(opt {})", t.sexp(d)),
            CT::ErrU(e, p) => format!("(eu {} {})", e.sexp(d), p.sexp(d)),
            CT::Distinct(i) => format!("(dist {} {})", 300 + i, d.distincts[*i].sexp(d)),
            CT::Type => "type".into(),
            CT::Str => "str".into(),
            CT::Void => "void".into(),
            CT::Ptr(m, t) => format!("(ptr {} {})", *m as u8, t.sexp(d)),
            CT::Slice(t) => format!("(slice {})", t.sexp(d)),
            CT::RawPtr(m) => format!("(rawptr {})", *m as u8),
            CT::RawSlice => "rawslice".into(),
            CT::Any => "any".into(),
            CT::FnPtr => "(fnptr ((p (i 32) -1 0 0)) (i 32))".into(),
        }
    }
    /// The property's own rule, written from its text: does a value of this type hold an address
    /// (pointer, function, `str`, slice, `any`, raw pointer / slice) anywhere inside?
    pub fn holds_address(&self, d: &Defs) -> bool {
        match self {
            CT::Str | CT::Ptr(..) | CT::Slice(_) | CT::RawPtr(_) | CT::RawSlice | CT::Any | CT::FnPtr => true,
            CT::Arr(_, t) | CT::Opt(t) => t.holds_address(d),
            CT::ErrU(e, p) => e.holds_address(d) || p.holds_address(d),
            CT::Struct(i) => d.structs[*i].iter().any(|t| t.holds_address(d)),
            CT::Enum(i) => d.enums[*i].iter().any(|t| t.as_ref().map(|t| t.holds_address(d)).unwrap_or(false)),
            CT::Distinct(i) => d.distincts[*i].holds_address(d),
            _ => false,
        }
    }
    fn is_str(&self, d: &Defs) -> bool {
        match self {
            CT::Str => true,
            CT::Distinct(i) => d.distincts[*i].is_str(d),
            _ => false,
        }
    }
    fn kind(&self) -> &'static str {
        match self {
            CT::Int(_, 128) => "int128",
            CT::Int(..) | CT::ISize | CT::USize => "int",
            CT::F32 | CT::F64 => "float",
            CT::Bool => "bool",
            CT::Char => "char",
            CT::Arr(..) => "array",
            CT::Struct(_) => "struct",
            CT::Enum(_) => "enum",
            CT::Opt(_) => "optional",
            CT::ErrU(..) => "error-union",
            CT::Distinct(_) => "distinct",
            CT::Type => "type",
            CT::Str => "str",
            CT::Void => "void",
            _ => "address",
        }
    }
}

impl Defs {
    pub fn capy(&self) -> String {
        let mut s = String::new();
        for (i, fs) in self.structs.iter().enumerate() {
            s.push_str(&format!(
                "S{} :: struct {{ {} }};\n",
                i,
                fs.iter().enumerate().map(|(k, t)| format!("m{}: {}", k, t.capy())).collect::<Vec<_>>().join(", ")
            ));
        }
        for (i, vs) in self.enums.iter().enumerate() {
            s.push_str(&format!(
                "E{} :: enum {{ {} }};\n",
                i,
                vs.iter()
                    .enumerate()
                    .map(|(k, t)| match t {
                        Some(t) => format!("V{}: {}", k, t.capy()),
                        None => format!("V{k}"),
                    })
                    .collect::<Vec<_>>()
                    .join(", ")
            ));
        }
        for (i, t) in self.distincts.iter().enumerate() {
            s.push_str(&format!("D{} :: distinct {};\n", i, t.capy()));
        }
        s
    }
}

const INTS: [(bool, u32); 8] =
    [(true, 8), (true, 16), (true, 32), (true, 64), (false, 8), (false, 16), (false, 32), (false, 64)];

struct TyGen<'a> {
    rng: &'a mut Rng,
    defs: Defs,
}

impl<'a> TyGen<'a> {
    fn scalar(&mut self) -> CT {
        match self.rng.below(14) {
            0 => CT::Bool,
            1 => CT::Char,
            2 => CT::F32,
            3 => CT::F64,
            4 => CT::ISize,
            5 => CT::USize,
            _ => {
                let (s, b) = *self.rng.pick(&INTS);
                CT::Int(s, b)
            }
        }
    }
    /// a pointer-free type
    fn data_ty(&mut self, depth: u32) -> CT {
        if depth == 0 {
            return self.scalar();
        }
        match self.rng.below(12) {
            0 | 1 => CT::Arr(1 + self.rng.below(4) as u32, Box::new(self.data_ty(depth - 1))),
            2 | 3 => self.new_struct(depth - 1, false),
            4 | 5 => self.new_enum(depth - 1, false),
            6 => {
                let t = self.non_opt(depth - 1);
                CT::Opt(Box::new(t))
            }
            7 => self.err_union(depth - 1),
            8 => {
                let t = self.data_ty(depth - 1);
                self.defs.distincts.push(t);
                CT::Distinct(self.defs.distincts.len() - 1)
            }
            _ => self.scalar(),
        }
    }
    fn non_opt(&mut self, depth: u32) -> CT {
        for _ in 0..8 {
            let t = self.data_ty(depth);
            if !matches!(t, CT::Opt(_) | CT::ErrU(..)) {
                return t;
            }
        }
        self.scalar()
    }
    fn err_union(&mut self, depth: u32) -> CT {
        // the checker rejects error unions whose two sides are "too similar": error side bool / enum /
        // struct, payload side a number, char or array of numbers
        let e = match self.rng.below(3) {
            0 => CT::Bool,
            1 => self.new_enum(depth.min(1), false),
            _ => self.new_struct(depth.min(1), false),
        };
        let p = match self.rng.below(4) {
            0 => CT::Arr(1 + self.rng.below(3) as u32, Box::new(CT::Int(false, 16))),
            1 => CT::F64,
            _ => {
                let (s, b) = *self.rng.pick(&INTS);
                CT::Int(s, b)
            }
        };
        CT::ErrU(Box::new(e), Box::new(p))
    }
    fn new_struct(&mut self, depth: u32, addr: bool) -> CT {
        let n = 1 + self.rng.below(4) as usize;
        let mut fs = vec![];
        for _ in 0..n {
            fs.push(if addr { self.any_ty(depth) } else { self.data_ty(depth) });
        }
        self.defs.structs.push(fs);
        CT::Struct(self.defs.structs.len() - 1)
    }
    fn new_enum(&mut self, depth: u32, addr: bool) -> CT {
        let n = 1 + self.rng.below(4) as usize;
        let mut vs = vec![];
        for _ in 0..n {
            if self.rng.chance(1, 3) {
                vs.push(None);
            } else {
                let t = if addr { self.any_ty(depth) } else { self.non_opt(depth) };
                vs.push(Some(t));
            }
        }
        self.defs.enums.push(vs);
        CT::Enum(self.defs.enums.len() - 1)
    }
    fn address_leaf(&mut self) -> CT {
        match self.rng.below(8) {
            0 => CT::Str,
            1 => CT::Ptr(self.rng.chance(1, 2), Box::new(self.scalar())),
            2 => CT::Slice(Box::new(self.scalar())),
            3 => CT::RawPtr(self.rng.chance(1, 2)),
            4 => CT::RawSlice,
            5 => CT::Any,
            6 => CT::FnPtr,
            _ => CT::Opt(Box::new(CT::Ptr(false, Box::new(self.scalar())))),
        }
    }
    /// any type: about half of them hold an address somewhere
    fn any_ty(&mut self, depth: u32) -> CT {
        if depth == 0 {
            return if self.rng.chance(1, 2) { self.address_leaf() } else { self.scalar() };
        }
        match self.rng.below(12) {
            0 | 1 => CT::Arr(1 + self.rng.below(3) as u32, Box::new(self.any_ty(depth - 1))),
            2 | 3 => self.new_struct(depth - 1, true),
            4 => self.new_enum(depth - 1, true),
            5 => {
                let t = self.any_ty(depth - 1);
                if matches!(t, CT::Opt(_) | CT::ErrU(..)) { t } else { CT::Opt(Box::new(t)) }
            }
            6 => {
                let t = self.any_ty(depth - 1);
                self.defs.distincts.push(t);
                CT::Distinct(self.defs.distincts.len() - 1)
            }
            7 => {
                let e = self.new_enum(0, false);
                CT::ErrU(Box::new(e), Box::new(self.address_leaf()))
            }
            8 | 9 => self.address_leaf(),
            _ => self.scalar(),
        }
    }
}

// ---- block bodies ---------------------------------------------------------------------------

const HELPERS: &str = "K0 : u32 : 17;\nK1 : u8 : 200;\nK2 : i64 : 123456789012;\nKF : f64 : 2.5;\nKB : bool : true;\nKA :: u16.[3, 4, 5];\nKS :: \"konst\";\n\
h0 :: (a: u32, b: u32) -> u32 { (a ~ b) + K0 }\nh1 :: (n: u64) -> u64 { i : u64 = 0; acc : u64 = 1; while i < n { acc = acc * 3 + i; i += 1; } acc }\n";

struct BodyGen<'a> {
    rng: &'a mut Rng,
    defs: &'a Defs,
    next: usize,
    out: String,
}

fn range_of(s: bool, b: u32) -> (i128, i128) {
    if s { (-(1i128 << (b - 1)), (1i128 << (b - 1)) - 1) } else { (0, (1i128 << b) - 1) }
}

impl<'a> BodyGen<'a> {
    fn fresh(&mut self) -> String {
        self.next += 1;
        format!("t{}", self.next)
    }
    fn line(&mut self, s: String) {
        self.out.push_str("    ");
        self.out.push_str(&s);
        self.out.push('\n');
    }
    fn int_value(&mut self, s: bool, b: u32) -> i128 {
        let (lo, hi) = range_of(s, b);
        match self.rng.below(8) {
            0 => lo,
            1 => hi,
            2 => 0,
            3 => 1,
            4 => if s { -1 } else { hi - 1 },
            5 => hi / 2 + 1,
            _ => lo + (self.rng.next() as i128 & 0x7fff_ffff_ffff_ffff) % (hi - lo + 1),
        }
    }
    fn int_lit(&mut self, name: &str, s: bool, b: u32, z: i128) -> String {
        let (lo, _) = range_of(s, b);
        if z == lo && lo < 0 {
            format!("{name}.({}) - {name}.(1)", z + 1)
        } else {
            format!("{name}.({z})")
        }
    }
    /// emits statements that leave a value of type `t` in a fresh local; returns its name
    fn build(&mut self, t: &CT) -> String {
        let v = self.fresh();
        let tn = t.capy();
        match t {
            CT::Int(s, 128) => {
                let lo = self.rng.next();
                let hi = match self.rng.below(4) {
                    0 => 0,
                    1 => u64::MAX,
                    2 => 1u64 << 63,
                    _ => self.rng.next(),
                };
                let (l, h) = (self.fresh(), self.fresh());
                self.line(format!("{l} : u64 = {lo};"));
                self.line(format!("{h} : u64 = {hi};"));
                self.line(format!("{v} : {tn} = ({tn}.({h}) << 64) | {tn}.({l});"));
                if self.rng.chance(1, 2) {
                    let k = self.rng.below(100);
                    self.line(format!("{v} = {v} ~ {tn}.({k});"));
                }
                let _ = s;
            }
            CT::Int(s, b) => {
                let z = self.int_value(*s, *b);
                let lit = self.int_lit(&tn, *s, *b, z);
                self.line(format!("{v} : {tn} = {lit};"));
                match self.rng.below(6) {
                    0 => {
                        let k = self.rng.below(1 << (b - 1).min(20));
                        self.line(format!("{v} = {v} ~ {tn}.({k});"));
                    }
                    1 => {
                        let k = self.rng.below(1 << (b - 1).min(20));
                        self.line(format!("{v} = ({v} & {tn}.({k})) | {tn}.(1);"));
                    }
                    2 if *b == 32 && !*s => self.line(format!("{v} = h0({v} & 65535, K0);")),
                    3 if *b == 64 && !*s => {
                        let n = self.rng.below(12);
                        self.line(format!("{v} = h1({n});"));
                    }
                    4 if *b == 8 && !*s => self.line(format!("{v} = ({v} & 15) + (K1 & 31);")),
                    _ => {}
                }
            }
            CT::ISize | CT::USize => {
                let z = if *t == CT::ISize { self.rng.range(-1_000_000, 1_000_000) } else { self.rng.range(0, 2_000_000) };
                self.line(format!("{v} : {tn} = {tn}.({z});"));
            }
            CT::F32 | CT::F64 => {
                let lits = ["0.0", "1.5", "3.25", "0.1", "123456.789", "1000000.0", "0.000001", "2.0"];
                let a = *self.rng.pick(&lits);
                self.line(format!("{v} : {tn} = {a};"));
                match self.rng.below(7) {
                    0 => self.line(format!("{v} = {v} / 3.0;")),
                    1 => self.line(format!("{v} = -{v};")),
                    2 => self.line(format!("{v} = {v} * {v} + 0.5;")),
                    3 => {
                        // overflow to infinity / tiny values
                        let i = self.fresh();
                        self.line(format!("{i} := 0; while {i} < 60 {{ {v} = {v} * 1000000.0; {i} += 1; }}"));
                    }
                    4 => self.line(format!("{v} = 1.0 / {v};")),
                    5 if *t == CT::F64 => self.line(format!("{v} = {v} * KF;")),
                    _ => {}
                }
            }
            CT::Bool => match self.rng.below(4) {
                0 => self.line(format!("{v} : bool = true;")),
                1 => self.line(format!("{v} : bool = false;")),
                2 => {
                    let k = self.rng.below(40);
                    self.line(format!("{v} : bool = K0 > {k};"))
                }
                _ => {
                    let k = self.rng.below(255);
                    self.line(format!("{v} : bool = KB && (K1 < {k});"))
                }
            },
            CT::Char => {
                let c = *self.rng.pick(&['a', 'Z', '0', '~', ' ', '_']);
                self.line(format!("{v} : char = '{c}';"));
            }
            CT::Arr(n, e) => {
                let elems: Vec<String> = (0..*n).map(|_| self.build(e)).collect();
                self.line(format!("{v} : {tn} = .[{}];", elems.join(", ")));
                if let CT::Int(_, b) = **e {
                    if b <= 64 && self.rng.chance(1, 2) {
                        let i = self.fresh();
                        self.line(format!(
                            "{i} := 0; while {i} < {n} {{ {v}[{i}] = {v}[{i}] ~ {}.({i}); {i} += 1; }}",
                            e.capy()
                        ));
                    }
                }
                if **e == CT::Int(false, 16) && *n == 3 && self.rng.chance(1, 3) {
                    self.line(format!("{v} = KA;"));
                }
            }
            CT::Struct(i) => {
                let fields = self.defs.structs[*i].clone();
                let names: Vec<String> = fields.iter().map(|f| self.build(f)).collect();
                self.line(format!(
                    "{v} : {tn} = {tn}.{{ {} }};",
                    names.iter().enumerate().map(|(k, n)| format!("m{k} = {n}")).collect::<Vec<_>>().join(", ")
                ));
                if self.rng.chance(1, 3) {
                    let k = self.rng.below(fields.len() as u64) as usize;
                    let n2 = self.build(&fields[k]);
                    self.line(format!("{v}.m{k} = {n2};"));
                }
            }
            CT::Enum(i) => {
                let vs = self.defs.enums[*i].clone();
                let k = self.rng.below(vs.len() as u64) as usize;
                match &vs[k] {
                    Some(p) => {
                        let n = self.build(p);
                        self.line(format!("{v} : {tn} = {tn}.V{k}.({n});"));
                    }
                    None => self.line(format!("{v} : {tn} = {tn}.V{k};")),
                }
            }
            CT::Opt(p) => {
                if self.rng.chance(1, 3) {
                    self.line(format!("{v} : {tn} = nil;"));
                } else {
                    let n = self.build(p);
                    self.line(format!("{v} : {tn} = {n};"));
                }
            }
            CT::ErrU(e, p) => {
                let n = if self.rng.chance(1, 2) { self.build(e) } else { self.build(p) };
                self.line(format!("{v} : {tn} = {n};"));
            }
            CT::Distinct(i) => {
                let n = self.build(&self.defs.distincts[*i].clone());
                self.line(format!("{v} : {tn} = {tn}.({n});"));
            }
            CT::Str => {
                let texts = ["hello", "", "a", "comptime string with spaces", "x=1;y=2"];
                let a = *self.rng.pick(&texts);
                match self.rng.below(3) {
                    0 => self.line(format!("{v} : str = \"{a}\";")),
                    1 => {
                        let k = self.rng.below(40);
                        self.line(format!("{v} : str = if K0 > {k} {{ \"{a}\" }} else {{ KS }};"))
                    }
                    _ => self.line(format!("{v} : str = KS;")),
                }
            }
            CT::Type => {
                let tys = ["i32", "u8", "bool", "f64", "[3]u16", "str", "?i64", "[2][2]u8", "^i32", "usize"];
                let (a, b) = (*self.rng.pick(&tys), *self.rng.pick(&tys));
                let k = self.rng.below(40);
                self.line(format!("{v} : type = if K0 > {k} {{ {a} }} else {{ {b} }};"));
            }
            _ => self.line(format!("{v} : {tn};")),
        }
        v
    }
}

/// statements printing every leaf of `x : t`, one line each
fn show(t: &CT, x: &str, d: &Defs, depth: usize, out: &mut String) {
    let pad = "    ".repeat(depth + 2);
    match t {
        CT::Int(_, 128) => out.push_str(&format!(
            "{pad}{{ r := {x}; p := ^[2]u64.(rawptr.(^r)); core.println(\"i \", p^[0], \" \", p^[1]); }}\n"
        )),
        CT::Int(..) | CT::ISize | CT::USize => out.push_str(&format!("{pad}core.println(\"i \", {x});\n")),
        CT::F32 => out.push_str(&format!("{pad}{{ r := {x}; core.println(\"f \", ^u32.(rawptr.(^r))^); }}\n")),
        CT::F64 => out.push_str(&format!("{pad}{{ r := {x}; core.println(\"f \", ^u64.(rawptr.(^r))^); }}\n")),
        CT::Bool => out.push_str(&format!("{pad}core.println(\"b \", {x});\n")),
        CT::Char => out.push_str(&format!("{pad}core.println(\"c \", u8.({x}));\n")),
        CT::Str => out.push_str(&format!("{pad}core.println(\"s \", {x});\n")),
        CT::Type => out.push_str(&format!("{pad}core.println(\"t \", {x});\n")),
        CT::Arr(n, e) => {
            for k in 0..*n {
                show(e, &format!("{x}[{k}]"), d, depth, out);
            }
        }
        CT::Struct(i) => {
            for (k, f) in d.structs[*i].iter().enumerate() {
                show(f, &format!("{x}.m{k}"), d, depth, out);
            }
        }
        CT::Enum(i) => {
            let a = format!("a{depth}");
            out.push_str(&format!("{pad}switch {a} in {x} {{\n"));
            for (k, p) in d.enums[*i].iter().enumerate() {
                out.push_str(&format!("{pad}    .V{k} => {{\n{pad}        core.println(\"v {k}\");\n"));
                if let Some(p) = p {
                    // the switch argument has the variant's own type: cast it to the payload type first
                    // (a switch on a variant-typed enum value panics the checker: C11's finding)
                    let q = format!("q{depth}");
                    out.push_str(&format!("{pad}        {q} := {}.({a});\n", p.capy()));
                    show(p, &q, d, depth + 2, out);
                }
                out.push_str(&format!("{pad}    }},\n"));
            }
            out.push_str(&format!("{pad}}}\n"));
        }
        CT::Opt(p) => {
            let pn = p.capy();
            out.push_str(&format!("{pad}if #is_variant({x}, {pn}) {{\n{pad}    core.println(\"some\");\n"));
            let u = format!("u{depth}");
            out.push_str(&format!("{pad}    {u} := #unwrap({x}, {pn});\n"));
            show(p, &u, d, depth + 1, out);
            out.push_str(&format!("{pad}}} else {{\n{pad}    core.println(\"nil\");\n{pad}}}\n"));
        }
        CT::ErrU(e, p) => {
            let (en, pn) = (e.capy(), p.capy());
            let u = format!("u{depth}");
            out.push_str(&format!("{pad}if #is_variant({x}, {pn}) {{\n{pad}    core.println(\"ok\");\n"));
            out.push_str(&format!("{pad}    {u} := #unwrap({x}, {pn});\n"));
            show(p, &u, d, depth + 1, out);
            out.push_str(&format!("{pad}}} else {{\n{pad}    core.println(\"err\");\n"));
            out.push_str(&format!("{pad}    {u} := #unwrap({x}, {en});\n"));
            show(e, &u, d, depth + 1, out);
            out.push_str(&format!("{pad}}}\n"));
        }
        CT::Distinct(i) => {
            let inner = &d.distincts[*i];
            let u = format!("w{depth}");
            out.push_str(&format!("{pad}{{\n{pad}    {u} := {}.({x});\n", inner.capy()));
            show(inner, &u, d, depth + 1, out);
            out.push_str(&format!("{pad}}}\n"));
        }
        _ => {}
    }
}

#[derive(Clone, Debug)]
pub struct Point {
    pub ty: CT,
    /// the statements of the block, last line = the tail expression
    pub body: String,
}

pub struct Group {
    pub name: &'static str,
    pub defs: Defs,
    pub points: Vec<Point>,
}

const CTXS: [&str; 7] = ["rt", "global", "local", "nested", "nested-local", "array-item-1", "array-item-2"];

fn indent(body: &str, extra: usize) -> String {
    let pad = "    ".repeat(extra);
    body.lines().map(|l| format!("{pad}{l}\n")).collect()
}

impl Group {
    /// the end-to-end program: every body at run time and in four comptime positions
    pub fn program(&self) -> String {
        let mut s = String::from("core :: #mod(\"core\");\nfflush :: (stream: usize) -> i32 extern;\n\n");
        s.push_str(&self.defs.capy());
        s.push_str(HELPERS);
        s.push('\n');
        for (k, p) in self.points.iter().enumerate() {
            s.push_str(&format!("g{k} :: comptime {{\n{}}};\n", p.body));
            // the same block three times as the items of a constant global array (items other than
            // the first sit at multiples of the item type's STRIDE, which is larger than its size
            // for structs / tagged unions with tail padding; seeded change C04_1)
            if !matches!(p.ty, CT::Type) {
                let b1 = indent(&p.body, 1);
                s.push_str(&format!("GA{k}T :: {};\nga{k} :: GA{k}T.[\n    comptime {{\n{b1}    }},\n    comptime {{\n{b1}    }},\n    comptime {{\n{b1}    }},\n];\n", p.ty.capy()));
            }
        }
        s.push_str("\nmain :: () {\n");
        for (k, p) in self.points.iter().enumerate() {
            let mut sh = String::new();
            show(&p.ty, "x", &self.defs, 0, &mut sh);
            let b1 = indent(&p.body, 1);
            let b2 = indent(&p.body, 2);
            s.push_str(&format!("    {{\n        core.println(\"@ {k} rt\");\n        x := {{\n{b1}        }};\n{sh}    }}\n"));
            s.push_str(&format!("    {{\n        core.println(\"@ {k} global\");\n        x := g{k};\n{sh}    }}\n"));
            s.push_str(&format!("    {{\n        core.println(\"@ {k} local\");\n        x := comptime {{\n{b1}        }};\n{sh}    }}\n"));
            s.push_str(&format!(
                "    {{\n        core.println(\"@ {k} nested\");\n        x := comptime {{\n            comptime {{\n{b2}            }}\n        }};\n{sh}    }}\n"
            ));
            s.push_str(&format!(
                "    {{\n        core.println(\"@ {k} nested-local\");\n        x := comptime {{\n            y := comptime {{\n{b2}            }};\n            y\n        }};\n{sh}    }}\n"
            ));
            if !matches!(p.ty, CT::Type) {
                for i in 1..=2 {
                    s.push_str(&format!("    {{\n        core.println(\"@ {k} array-item-{i}\");\n        x := ga{k}[{i}];\n{sh}    }}\n"));
                }
            }
        }
        s.push_str("    core.println(\"@ end\");\n    fflush(0);\n}\n");
        s
    }
    /// the in-process program: only the global blocks (no `core`)
    pub fn capture_program(&self) -> String {
        let mut s = String::new();
        s.push_str(&self.defs.capy());
        s.push_str(HELPERS);
        for (k, p) in self.points.iter().enumerate() {
            s.push_str(&format!("g{k} :: comptime {{\n{}}};\n", p.body));
        }
        s
    }
}

fn gen_group(rng: &mut Rng, name: &'static str, n: usize) -> Group {
    let mut tg = TyGen { rng, defs: Defs::default() };
    let mut tys = vec![];
    for k in 0..n {
        let t = match name {
            "scalars" => {
                // every scalar kind is present in every run
                let fixed = [
                    CT::Int(true, 8), CT::Int(false, 8), CT::Int(true, 16), CT::Int(false, 16), CT::Int(true, 32),
                    CT::Int(false, 32), CT::Int(true, 64), CT::Int(false, 64), CT::ISize, CT::USize, CT::F32, CT::F64,
                    CT::Bool, CT::Char,
                ];
                if k < fixed.len() { fixed[k].clone() } else { tg.scalar() }
            }
            "int128" => CT::Int(k % 2 == 0, 128),
            "str" => {
                if k % 3 == 2 {
                    tg.defs.distincts.push(CT::Str);
                    CT::Distinct(tg.defs.distincts.len() - 1)
                } else {
                    CT::Str
                }
            }
            "type" => CT::Type,
            "aggregates" => match k % 6 {
                0 => CT::Arr(1 + tg.rng.below(4) as u32, Box::new(tg.data_ty(1))),
                1 => tg.new_struct(1, false),
                2 => tg.new_enum(1, false),
                3 => CT::Opt(Box::new(tg.non_opt(1))),
                4 => tg.err_union(1),
                _ => tg.data_ty(2),
            },
            _ => {
                // aggregates holding 128-bit integers (no function returns them: everything is inline)
                let e = CT::Int(tg.rng.chance(1, 2), 128);
                match k % 3 {
                    0 => CT::Arr(2, Box::new(e)),
                    1 => CT::Opt(Box::new(e)),
                    _ => {
                        tg.defs.structs.push(vec![CT::Int(false, 8), e, CT::Bool]);
                        CT::Struct(tg.defs.structs.len() - 1)
                    }
                }
            }
        };
        tys.push(t);
    }
    let defs = tg.defs.clone();
    let mut points = vec![];
    for t in tys {
        let mut bg = BodyGen { rng, defs: &defs, next: 0, out: String::new() };
        let v = bg.build(&t);
        bg.line(v);
        points.push(Point { ty: t, body: bg.out });
    }
    Group { name, defs, points }
}

/// corpus of past failures / anchors: every probe is a complete group
fn corpus_groups() -> Vec<Group> {
    let p = |t: CT, body: &str| Point { ty: t, body: body.to_string() };
    vec![
        // corpus/probes/C04_comptime_str_dangling.capy
        Group { name: "str", defs: Defs::default(), points: vec![p(CT::Str, "    \"hello\"\n")] },
        // an i128 block (the pinned tree could not compile it)
        Group {
            name: "int128",
            defs: Defs::default(),
            points: vec![p(CT::Int(true, 128), "    x : i128 = 1;\n    x = x << 100;\n    x + 7\n")],
        },
        // README example (array filled by a loop) and the pinned tests' shapes
        Group {
            name: "aggregates",
            defs: Defs { structs: vec![vec![CT::Int(false, 8), CT::Int(true, 64), CT::Arr(3, Box::new(CT::Int(false, 16))), CT::Opt(Box::new(CT::Int(false, 32)))]], ..Default::default() },
            points: vec![
                p(CT::Arr(4, Box::new(CT::Int(false, 16))), "    a : [4]u16;\n    i := 0;\n    while i < 4 { a[i] = u16.(i) * 1000 + 7; i += 1; }\n    a\n"),
                p(CT::Struct(0), "    S0.{ m0 = K1, m1 = K2, m2 = KA, m3 = 77 }\n"),
                p(CT::Int(true, 32), "    x := 5;\n    x * 2\n"),
            ],
        },
    ]
}

// ---- parsing program output -------------------------------------------------------------------

/// sections: (point, ctx) → lines
fn sections(stdout: &str) -> BTreeMap<(usize, String), Vec<String>> {
    let mut m = BTreeMap::new();
    let mut cur: Option<(usize, String)> = None;
    for line in stdout.lines() {
        if let Some(rest) = line.strip_prefix("@ ") {
            let mut it = rest.split(' ');
            let k = it.next().unwrap_or("");
            if k == "end" {
                cur = None;
                continue;
            }
            let key = (k.parse::<usize>().unwrap_or(usize::MAX), it.next().unwrap_or("").to_string());
            m.insert(key.clone(), vec![]);
            cur = Some(key);
        } else if let Some(k) = &cur {
            m.get_mut(k).unwrap().push(line.to_string());
        }
    }
    m
}

fn is_nan_line(ty: &CT, line: &str) -> bool {
    let Some(v) = line.strip_prefix("f ") else { return false };
    let Ok(b) = v.trim().parse::<u64>() else { return false };
    match ty {
        CT::F32 => f32::from_bits(b as u32).is_nan(),
        CT::F64 => f64::from_bits(b).is_nan(),
        _ => false,
    }
}

/// the bit pattern a printed scalar line stands for
fn scalar_bits(ty: &CT, lines: &[String]) -> Option<(u128, u32)> {
    let l = lines.first()?;
    let (tag, v) = l.split_once(' ')?;
    let v = v.trim();
    match (ty, tag) {
        (CT::Int(_, 128), "i") => {
            let mut it = v.split(' ');
            let lo: u64 = it.next()?.parse().ok()?;
            let hi: u64 = it.next()?.parse().ok()?;
            Some((((hi as u128) << 64) | lo as u128, 128))
        }
        (CT::Int(_, b), "i") => {
            let z: i128 = v.parse().ok()?;
            Some(((z as u128) & ((1u128 << b) - 1), *b))
        }
        (CT::ISize | CT::USize, "i") => {
            let z: i128 = v.parse().ok()?;
            Some(((z as u128) & (u64::MAX as u128), 64))
        }
        (CT::F32, "f") => Some((v.parse::<u64>().ok()? as u128, 32)),
        (CT::F64, "f") => Some((v.parse::<u64>().ok()? as u128, 64)),
        (CT::Bool, "b") => Some(((v == "true") as u128, 8)),
        (CT::Char, "c") => Some((v.parse::<u64>().ok()? as u128, 8)),
        _ => None,
    }
}

fn errors_of(out: &e2e::Outcome) -> String {
    out.compile_out
        .lines()
        .filter(|l| l.starts_with("error") || l.contains("panicked") || l.contains("not supported"))
        .take(3)
        .collect::<Vec<_>>()
        .join(" / ")
        .chars()
        .take(300)
        .collect()
}

// ---- the streams --------------------------------------------------------------------------------

fn stream_accept(rep: &mut Report, rng: &mut Rng, n: usize) {
    // fixed anchors first, then random types
    let mut cases: Vec<(CT, Defs)> = vec![];
    {
        let d = Defs { structs: vec![vec![CT::Int(true, 32), CT::Str]], enums: vec![vec![Some(CT::Str), None]], distincts: vec![CT::Str, CT::Ptr(false, Box::new(CT::Int(true, 32)))] };
        for t in [
            CT::Str, CT::Distinct(0), CT::Struct(0), CT::Enum(0), CT::Arr(2, Box::new(CT::Str)), CT::Opt(Box::new(CT::Str)),
            CT::Slice(Box::new(CT::Int(false, 8))), CT::Ptr(false, Box::new(CT::Int(true, 32))), CT::Distinct(1),
            CT::Opt(Box::new(CT::Ptr(false, Box::new(CT::Int(true, 32))))), CT::RawPtr(false), CT::RawSlice, CT::Any, CT::FnPtr,
            CT::Int(true, 128), CT::Type, CT::F32, CT::Opt(Box::new(CT::Int(false, 8))),
            CT::ErrU(Box::new(CT::Bool), Box::new(CT::Str)),
        ] {
            cases.push((t, d.clone()));
        }
    }
    while cases.len() < n {
        let mut tg = TyGen { rng, defs: Defs::default() };
        let t = if tg.rng.chance(2, 3) { tg.any_ty(2) } else { tg.data_ty(2) };
        let d = tg.defs.clone();
        cases.push((t, d));
    }
    let reqs: Vec<String> = cases.iter().map(|(t, d)| format!("C04 accept {}", t.sexp(d))).collect();
    let answers = lean::ask(&reqs);
    for ((t, d), model) in cases.iter().zip(answers) {
        let src = if *t == CT::Type {
            format!("{}g :: comptime {{ i32 }};\n", d.capy())
        } else {
            format!("{}f :: () -> {} extern;\ng :: comptime {{ f() }};\n", d.capy(), t.capy())
        };
        let r = frontend::with_analysis(vec![("main.capy".into(), src.clone())], None, false, |a| a.kinds());
        let input = json!({"stream": "accept", "type": t.capy(), "source": src});
        let holds = t.holds_address(d);
        let (verdict, others) = match &r {
            Ok(kinds) => {
                let cp = kinds.iter().any(|k| k == "ty:ComptimePointer");
                let others: Vec<String> = kinds.iter().filter(|k| *k != "ty:ComptimePointer").cloned().collect();
                (if cp { "reject" } else { "accept" }.to_string(), others)
            }
            Err(p) => (format!("PANIC {}", p.chars().take(80).collect::<String>()), vec![]),
        };
        if !others.is_empty() {
            // the generated type itself was not accepted (e.g. an error union judged "too similar"): not a case
            rep.hit("accept:type-rejected-for-another-reason");
            rep.case(None);
            continue;
        }
        rep.hit(&format!("accept:{}:{}", verdict.split(' ').next().unwrap(), if holds { "holds-address" } else { "address-free" }));
        rep.case(Some(format!("accept|{}|{}", t.sexp(d), verdict)));
        if rep.evaluations % 61 == 1 {
            rep.sample(json!({"stream": "accept", "type": t.capy(), "checker": verdict, "model": model}));
        }
        let model_verdict = model.split(' ').next().unwrap_or("").to_string();
        if model != "?" && model_verdict != verdict {
            rep.disagree(input.clone(), json!(verdict), json!(model));
        }
        // oracle: an accepted type is `str` itself or holds no address anywhere
        if verdict == "accept" && holds && !t.is_str(d) {
            rep.oracle_fail(
                "accepts-result-holding-address",
                input,
                json!(verdict),
                json!("reject"),
                "the checker accepts a comptime result type that holds an address into compile-time memory",
            );
        } else if verdict.starts_with("PANIC") {
            rep.oracle_fail("checker-panic", input, json!(verdict), json!("accept or reject"), "the checker panicked");
        }
    }
}

/// `ComptimeResult`s of the global blocks of a group, from the real JIT in this process
fn capture_in_process(g: &Group) -> Result<BTreeMap<usize, String>, String> {
    let src = g.capture_program();
    frontend::with_analysis(vec![("main.capy".into(), src)], None, false, |a| {
        let mut out = BTreeMap::new();
        if a.has_errors() {
            out.insert(usize::MAX, format!("front-end errors: {:?}", a.kinds()));
            return out;
        }
        let mut results = hir::common::ComptimeResultMap::default();
        codegen::eval_comptime_blocks(
            codegen::Verbosity::None,
            &mut a.world_bodies.find_comptimes(),
            &mut results,
            std::path::Path::new(""),
            a.interner,
            a.world_bodies,
            a.tys,
            target_lexicon::Triple::host().pointer_width().unwrap().bits(),
        );
        for ctc in results.all_blocks() {
            let name = ctc.loc.to_string(std::path::Path::new(""), a.interner);
            let Some(k) = name.rsplit("::g").next().and_then(|s| s.parse::<usize>().ok()) else { continue };
            let d = match &results[*ctc] {
                hir::common::ComptimeResult::Type(_) => "type-id".to_string(),
                hir::common::ComptimeResult::Integer { bit_width, .. } => format!("int{bit_width}"),
                hir::common::ComptimeResult::Float { bit_width, .. } => format!("float{bit_width}"),
                hir::common::ComptimeResult::Data(b) => format!("data:{}", b.len()),
                hir::common::ComptimeResult::Void => "void".to_string(),
            };
            out.insert(k, d);
        }
        out
    })
}

fn model_path_matches(model: &str, real: &str, ty: &CT, d: &Defs) -> bool {
    match model {
        "int128-data:16" => real == "data:16",
        // a `str` is captured as its characters + NUL: the byte count depends on the value
        "str-bytes" => real.starts_with("data:") && ty.is_str(d),
        m => m == real,
    }
}

pub fn run(tier: &str, seed: u64, widen: bool) -> Report {
    let mut rep = Report::new(
        "C04",
        "accept: real hir_ty (in-process) vs Lean Comptime.accepts on generated result types; capture: real codegen::eval_comptime_blocks (in-process JIT) ComptimeResult variant/width/byte count vs Lean Comptime.captureLabel; e2e: real capy CLI + built executable, every generated block body evaluated at run time and inside comptime (global, local, nested, nested with a local) in one program, printed leaves compared, scalars/strings also pushed through Lean capture/embedCode/intoBytes/readGlobal; effects: comptime output on the compiler's stdout once, never on the program's",
        "corpus (the str probe, an i128 block, the README/test shapes) first, then seeded random: result types = all integer widths 8-128, isize/usize, f32/f64, bool, char, str, distinct str, type, and arrays/structs/enums/optionals/error unions/distincts of them to depth 2 (separate groups for i128 and str); bodies build the value bottom-up through typed locals with xor/and/or arithmetic, loops, helper function calls and const globals; acceptance types additionally hold str/pointers/slices/rawptr/rawslice/any/function pointers at any depth; non-trivial = every case (each is a distinct (stream, type, body/verdict)); distinct by that key",
    );
    let mut rng = Rng::new(seed);
    let thorough = tier == "thorough";
    let n_accept = if widen { 3000 } else if thorough { 1200 } else { 220 };
    stream_accept(&mut rep, &mut rng, n_accept);

    if !e2e::available() {
        rep.notes.push("capy CLI binary missing".into());
        return rep;
    }
    // groups
    let mut groups = corpus_groups();
    let rounds = if widen { 40 } else if thorough { 14 } else { 2 };
    for _ in 0..rounds {
        groups.push(gen_group(&mut rng, "scalars", 18));
        groups.push(gen_group(&mut rng, "aggregates", 12));
        groups.push(gen_group(&mut rng, "aggregates", 12));
        groups.push(gen_group(&mut rng, "int128", 4));
        groups.push(gen_group(&mut rng, "int128-aggregates", 3));
        groups.push(gen_group(&mut rng, "str", 6));
        groups.push(gen_group(&mut rng, "type", 5));
    }
    // in-process capture
    let mut path_reqs = vec![];
    for g in &groups {
        for p in &g.points {
            path_reqs.push(format!("C04 path 64 {}", p.ty.sexp(&g.defs)));
        }
    }
    let path_answers = lean::ask(&path_reqs);
    let mut pi = 0;
    for g in &groups {
        let real = capture_in_process(g);
        for (k, p) in g.points.iter().enumerate() {
            let model = path_answers[pi].clone();
            pi += 1;
            let input = json!({"stream": "capture", "group": g.name, "type": p.ty.capy(), "body": p.body});
            let got = match &real {
                Ok(m) => m.get(&k).cloned().unwrap_or_else(|| m.get(&usize::MAX).cloned().unwrap_or("missing".into())),
                Err(e) => format!("PANIC {}", e.chars().take(120).collect::<String>()),
            };
            rep.case(Some(format!("capture|{}|{}", p.ty.sexp(&g.defs), p.body)));
            rep.hit(&format!("capture:{}", got.split(':').next().unwrap_or("").split(' ').next().unwrap_or("")));
            if model != "?" && !model_path_matches(&model, &got, &p.ty, &g.defs) {
                rep.disagree(input.clone(), json!(got), json!(model));
            }
            if got.starts_with("PANIC") || got.starts_with("front-end") || got == "missing" {
                rep.oracle_fail(
                    &format!("block-not-evaluated:{}", g.name),
                    input,
                    json!(got),
                    json!("a ComptimeResult"),
                    "the accepted block could not be evaluated by the JIT session",
                );
            }
        }
    }
    // end to end
    let progs: Vec<Program> = groups.iter().map(|g| Program::single(&g.program())).collect();
    if let Ok(dir) = std::env::var("C04_DUMP") {
        let _ = std::fs::create_dir_all(&dir);
        for (i, p) in progs.iter().enumerate() {
            let _ = std::fs::write(format!("{dir}/g{i}_{}.capy", groups[i].name), &p.files[0].1);
        }
    }
    let outcomes = e2e::run_all(&progs, e2e::Limits::default());
    let mut rt_reqs: Vec<String> = vec![];
    let mut rt_meta: Vec<(usize, usize)> = vec![];
    let mut secs = vec![];
    for (gi, (g, out)) in groups.iter().zip(outcomes.iter()).enumerate() {
        let s = if out.built && out.run_status == Some(0) { Some(sections(&out.stdout())) } else { None };
        if let Some(s) = &s {
            for (k, p) in g.points.iter().enumerate() {
                let Some(rt) = s.get(&(k, "rt".to_string())) else { continue };
                let junk = rng.next() as u128;
                let sx = p.ty.sexp(&g.defs);
                if p.ty.is_str(&g.defs) {
                    if let Some(l) = rt.first().and_then(|l| l.strip_prefix("s ")) {
                        rt_reqs.push(format!("C04 rt 64 0 0 0 - {} {}", lean::hex(l.as_bytes()), sx));
                        rt_meta.push((gi, k));
                    }
                } else if let Some((bits, w)) = scalar_bits(&p.ty, rt) {
                    let (r0, r1, f0) = match p.ty {
                        CT::F32 | CT::F64 => (junk as u64 as u128, 0, bits),
                        CT::Int(_, 128) => (bits & u64::MAX as u128, bits >> 64, junk as u64 as u128),
                        _ => (if w < 64 { (bits | (junk << w)) & u64::MAX as u128 } else { bits }, junk as u64 as u128 >> 1, 0),
                    };
                    rt_reqs.push(format!("C04 rt 64 {r0} {r1} {f0} - - {sx}"));
                    rt_meta.push((gi, k));
                }
            }
        }
        secs.push(s);
    }
    let rt_answers = lean::ask(&rt_reqs);
    let mut model_of: BTreeMap<(usize, usize), String> = BTreeMap::new();
    for (m, a) in rt_meta.iter().zip(rt_answers) {
        model_of.insert(*m, a);
    }
    for (gi, (g, out)) in groups.iter().zip(outcomes.iter()).enumerate() {
        for (k, p) in g.points.iter().enumerate() {
            let input = json!({"stream": "e2e", "group": g.name, "type": p.ty.capy(), "body": p.body, "defs": g.defs.capy()});
            rep.case(Some(format!("e2e|{}|{}", p.ty.sexp(&g.defs), p.body)));
            rep.hit(&format!("e2e:{}", p.ty.kind()));
            let Some(s) = &secs[gi] else {
                let what = format!("{} {}", out.run_summary(), errors_of(out));
                if !out.built && out.compile_out.contains("not compiling due to previous errors") && !out.compiler_panicked() {
                    // the front end rejected the generated program: outside the property's quantifier
                    rep.hit("e2e:rejected-by-front-end");
                    if rep.notes.len() < 8 {
                        rep.notes.push(format!("group {} rejected by the front end: {}", g.name, errors_of(out)));
                    }
                    continue;
                }
                rep.hit("e2e:program-not-built-or-crashed");
                rep.oracle_fail(
                    &format!("program-not-built:{}", g.name),
                    input,
                    json!(what),
                    json!("a program printing equal values"),
                    "a program whose comptime blocks the checker accepts does not build (or crashes)",
                );
                continue;
            };
            let rt = s.get(&(k, "rt".to_string())).cloned().unwrap_or_default();
            if rep.evaluations % 53 == 1 {
                rep.sample(json!({"stream": "e2e", "type": p.ty.capy(), "body": p.body, "runtime": rt, "comptime-global": s.get(&(k, "global".to_string()))}));
            }
            for ctx in &CTXS[1..] {
                // no array items for `type` (a global array of `str` crashed the built program until
                // fix d4b2d15: since then `str` items are compared like every other type)
                if ctx.starts_with("array-item") && matches!(p.ty, CT::Type) {
                    continue;
                }
                let ct = s.get(&(k, ctx.to_string())).cloned().unwrap_or_else(|| vec!["<missing>".into()]);
                let same = rt.len() == ct.len()
                    && rt.iter().zip(ct.iter()).all(|(a, b)| a == b || (is_nan_line(&leaf_float(&p.ty), a) && is_nan_line(&leaf_float(&p.ty), b)));
                if !same || rt.is_empty() {
                    rep.oracle_fail(
                        &format!("comptime-differs-from-runtime:{}", p.ty.kind()),
                        json!({"stream": "e2e", "context": ctx, "group": g.name, "type": p.ty.capy(), "body": p.body, "defs": g.defs.capy()}),
                        json!(ct),
                        json!(rt),
                        "the value the built program observes for the comptime block differs from the run-time value of the same code",
                    );
                }
            }
            // the model on scalars and strings
            if let Some(model) = model_of.get(&(gi, k)) {
                if model == "?" {
                    continue;
                }
                let field = |name: &str| model.split(' ').find_map(|f| f.strip_prefix(&format!("{name}=")).map(|s| s.to_string())).unwrap_or_default();
                for (ctx, f) in [("local", "code"), ("global", "global")] {
                    let ct = s.get(&(k, ctx.to_string())).cloned().unwrap_or_default();
                    let real = if p.ty.is_str(&g.defs) {
                        ct.first().and_then(|l| l.strip_prefix("s ")).map(|l| format!("cstr:{}", lean::hex(l.as_bytes())))
                    } else {
                        scalar_bits(&p.ty, &ct).map(|(b, w)| format!("scalar:{w}:{b}"))
                    };
                    let real = real.unwrap_or_else(|| "unparsed".into());
                    let nan = ct.first().map(|l| is_nan_line(&p.ty, l)).unwrap_or(false);
                    if field(f) != real && !nan {
                        rep.disagree(
                            json!({"stream": "e2e-model", "context": ctx, "type": p.ty.capy(), "body": p.body}),
                            json!(real),
                            json!(model),
                        );
                    }
                }
            }
        }
    }
    rep.traces_validated = rep.evaluations;
    stream_effects(&mut rep);
    probe_global_str_array(&mut rep);
    stream_widen(&mut rep, &mut rng, tier == "thorough" || widen);
    rep
}

/// for NaN tolerance: the float type of a scalar float point (aggregates compare exactly)
fn leaf_float(t: &CT) -> CT {
    match t {
        CT::F32 | CT::F64 => t.clone(),
        _ => CT::Void,
    }
}

const EFFECTS: &str = r#"core :: #mod("core");
libc :: #mod("core").libc;
fflush :: (stream: usize) -> i32 extern;

g :: comptime {
    libc.puts("CT-GLOBAL");
    fflush(0);
    41 + 1
};

unused :: comptime {
    libc.puts("CT-UNUSED");
    fflush(0);
};

twice :: () -> i32 {
    comptime {
        libc.puts("CT-IN-FUNCTION");
        fflush(0);
        7
    }
}

main :: () {
    libc.puts("RT-START");
    core.println(g);
    core.println(g);
    i := 0;
    while i < 3 {
        l := comptime {
            libc.puts("CT-IN-LOOP");
            fflush(0);
            i32.(5)
        };
        core.println(l + twice());
        i += 1;
    }
    n := comptime {
        libc.puts("CT-OUTER");
        x := comptime {
            libc.puts("CT-INNER");
            fflush(0);
            3
        };
        fflush(0);
        x * 2
    };
    core.println(n);
    libc.puts("RT-END");
    fflush(0);
}
"#;

fn stream_effects(rep: &mut Report) {
    let out = &e2e::run_all(&[Program::single(EFFECTS)], e2e::Limits::default())[0];
    let input = json!({"stream": "effects", "program": "harness/src/c04.rs EFFECTS"});
    rep.case(Some("effects".into()));
    rep.hit("effects");
    if !(out.built && out.run_status == Some(0)) {
        rep.oracle_fail(
            "program-not-built:effects",
            input,
            json!(format!("{} {}", out.run_summary(), errors_of(out))),
            json!("built"),
            "the side-effect program does not build",
        );
        return;
    }
    let run = out.stdout();
    let expected_run = "RT-START\n42\n42\n12\n12\n12\n6\nRT-END\n";
    let mut problems = vec![];
    for marker in ["CT-GLOBAL", "CT-UNUSED", "CT-IN-FUNCTION", "CT-IN-LOOP", "CT-OUTER", "CT-INNER"] {
        let n_compile = out.compile_out.lines().filter(|l| l.trim() == marker).count();
        let n_run = run.lines().filter(|l| l.trim() == marker).count();
        if n_compile != 1 {
            problems.push(format!("{marker} printed {n_compile} times while compiling"));
        }
        if n_run != 0 {
            problems.push(format!("{marker} printed {n_run} times by the built program"));
        }
    }
    if run != expected_run {
        problems.push(format!("program output {run:?}"));
    }
    if !problems.is_empty() {
        rep.oracle_fail(
            "comptime-side-effect-misplaced",
            input,
            json!(problems),
            json!({"compile": "each CT-* marker once", "run": expected_run}),
            "a comptime block's side effects must happen while compiling, once, and not when the program runs",
        );
    }
}

/// Regression (fix d4b2d15): the data object of a constant global array of `str` held the characters
/// of the items inline where the readers expect pointers, with or without comptime blocks.
fn probe_global_str_array(rep: &mut Report) {
    let src = "core :: #mod(\"core\");\nga :: str.[ comptime { \"hello\" }, comptime { \"world\" } ];\nmain :: () {\n    core.println(ga[1]);\n}\n";
    let out = &e2e::run_all(&[Program::single(src)], e2e::Limits::default())[0];
    rep.case(Some("probe|global-array-of-str".into()));
    rep.hit("probe:global-array-of-str");
    let got = if out.built && out.run_status == Some(0) { out.stdout().trim().to_string() } else { format!("{} {}", out.run_summary(), errors_of(out)) };
    if got != "world" {
        rep.oracle_fail(
            "global-array-of-str",
            json!({"stream": "probe", "source": src}),
            json!(got),
            json!("world"),
            "an item of a constant global array of comptime `str` blocks does not read back (the same array as a local works)",
        );
    }
}

/// Globals (and locals) annotated with a WIDER number type than their constant value:
/// `N : i32 : comptime { -5 }; G : i64 : comptime { N }; H : i64 : N;` — at run time the same
/// initializer in a local (`r : i64 = N`) yields the value; the comptime / constant forms must too.
/// Model: CapyV.Comptime.widenIntBytes / widenFloatBytes (driver ops `widen`, `widenf`).
fn stream_widen(rep: &mut Report, rng: &mut Rng, big: bool) {
    let ints: [(bool, u32); 6] = [(true, 8), (true, 16), (true, 32), (false, 8), (false, 16), (false, 32)];
    let mut cases: Vec<((bool, u32), (bool, u32), i128)> = vec![];
    for (fs, fb) in ints {
        for (ts, tb) in [(true, 16u32), (true, 32), (true, 64), (false, 16), (false, 32), (false, 64)] {
            // the value's type must fit the global's: same signedness and wider, or unsigned into a wider signed
            let fits = tb > fb && (fs == ts || (!fs && ts));
            if !fits {
                continue;
            }
            let (lo, hi): (i128, i128) = if fs { (-(1i128 << (fb - 1)) + 1, (1i128 << (fb - 1)) - 1) } else { (0, (1i128 << fb) - 1) };
            let mut vals = vec![lo, hi, 0, if fs { -1 } else { 1 }, if fs { -5 } else { hi - 5 }];
            let extra = if big { 6 } else { 1 };
            for _ in 0..extra {
                vals.push(lo + (rng.below((hi - lo) as u64 + 1) as i128));
            }
            for v in vals {
                cases.push(((fs, fb), (ts, tb), v));
            }
        }
    }
    let tn = |t: (bool, u32)| format!("{}{}", if t.0 { "i" } else { "u" }, t.1);
    let mut globals = String::new();
    let mut body = String::new();
    for (k, (f, t, v)) in cases.iter().enumerate() {
        globals.push_str(&format!("N{k} : {} : comptime {{ {v} }};\nG{k} : {} : comptime {{ N{k} }};\nH{k} : {} : N{k};\n", tn(*f), tn(*t), tn(*t)));
        body.push_str(&format!(
            "    {{ l : {t} = comptime {{ N{k} }}; r : {t} = N{k}; core.println(\"#{k} \", G{k}, \" \", H{k}, \" \", l, \" \", r); }}\n",
            t = tn(*t)
        ));
    }
    let floats: Vec<&str> = vec!["1.5", "-2.25", "0.1", "1000000.5", "0.0"];
    for (j, fl) in floats.iter().enumerate() {
        globals.push_str(&format!("NF{j} : f32 : comptime {{ f32.({fl}) }};\nGF{j} : f64 : comptime {{ NF{j} }};\nHF{j} : f64 : NF{j};\n"));
        body.push_str(&format!(
            "    {{ l : f64 = comptime {{ NF{j} }}; r : f64 = NF{j}; core.println(\"#F{j} \", GF{j}, \" \", HF{j}, \" \", l, \" \", r); }}\n"
        ));
    }
    let src = format!("core :: #mod(\"core\");\n{globals}main :: () {{\n{body}}}\n");
    if std::env::var("CVH_DUMP_WIDEN").is_ok() {
        let _ = std::fs::write("/tmp/widen_src.capy", &src);
    }
    let out = &e2e::run_all(&[Program::single(&src)], e2e::Limits::default())[0];
    let reqs: Vec<String> = cases
        .iter()
        .map(|(f, t, v)| {
            let raw = (*v as i128).rem_euclid(1i128 << f.1);
            format!("C04 widen {} {} {} {}", f.0 as u8, f.1, t.1, raw)
        })
        .collect();
    let answers = lean::ask(&reqs);
    if !(out.built && out.run_status == Some(0)) {
        rep.case(Some("widen".into()));
        rep.oracle_fail(
            "program-not-built:widen",
            json!({"stream": "widen", "source": src}),
            json!(format!("{} {}", out.run_summary(), errors_of(out))),
            json!("built"),
            "the program of globals annotated wider than their constant value does not build",
        );
        return;
    }
    let run = out.stdout();
    let line_of = |tag: &str| -> Vec<String> {
        run.lines().find(|l| l.starts_with(&format!("{tag} "))).map(|l| l.split(' ').skip(1).map(|x| x.to_string()).collect()).unwrap_or_default()
    };
    for (k, ((f, t, v), ans)) in cases.iter().zip(answers.iter()).enumerate() {
        rep.case(Some(format!("widen|{}|{}|{v}", tn(*f), tn(*t))));
        rep.hit(&format!("widen:{}->{}", tn(*f), tn(*t)));
        rep.traces_validated += 1;
        let got = line_of(&format!("#{k}"));
        let input = json!({"stream": "widen", "value_type": tn(*f), "global_type": tn(*t), "value": v.to_string(),
            "program": format!("N : {} : comptime {{ {v} }}; G : {} : comptime {{ N }}; H : {} : N; l : {} = comptime {{ N }}; r : {} = N; print G H l r", tn(*f), tn(*t), tn(*t), tn(*t), tn(*t))});
        // model: what a load of the global yields, as the target type prints it
        if let Some(rest) = ans.strip_prefix(&format!("scalar:{}:", t.1)) {
            if let Ok(raw) = rest.parse::<u128>() {
                let shown = if t.0 && raw >= (1u128 << (t.1 - 1)) { (raw as i128 - (1i128 << t.1)).to_string() } else { raw.to_string() };
                if got.first() != Some(&shown) {
                    rep.disagree(input.clone(), json!(got), json!(format!("global reads {shown} ({ans})")));
                }
            }
        }
        let want = vec![v.to_string(); 4];
        if got != want {
            rep.oracle_fail(
                &format!("comptime-differs-from-runtime:widened-global:{}", if got.len() == 4 && got[3] == v.to_string() { "global" } else { "runtime" }),
                input,
                json!(got),
                json!(want),
                "a constant value stored into a wider global / local (comptime block, constant alias, comptime local, run-time local) does not read back as the value",
            );
        }
    }
    // the run-time counterpart written as a block / an `if` value whose tail is a narrower CALL result
    // (`x : i16 = { small_u8() };` panicked the type checker at the pin): one small program per pair
    {
        let mut pairs: Vec<((bool, u32), (bool, u32))> = vec![];
        for (f, t, _) in &cases {
            if !pairs.contains(&(*f, *t)) {
                pairs.push((*f, *t));
            }
        }
        let val = |f: (bool, u32)| -> i128 { if f.0 { -5 } else { (1i128 << f.1) - 56 } };
        let progs: Vec<Program> = pairs
            .iter()
            .map(|(f, t)| {
                Program::single(&format!(
                    "core :: #mod(\"core\");\nnf :: () -> {f} {{ {v} }}\nmain :: () {{\n    rb : {t} = {{ nf() }};\n    core.println(rb);\n    ri : {t} = if true {{ nf() }} else {{ nf() }};\n    core.println(ri);\n    rl : {t} = `b: {{ break `b nf(); }};\n    core.println(rl);\n}}\n",
                    f = tn(*f),
                    t = tn(*t),
                    v = val(*f)
                ))
            })
            .collect();
        let outs = e2e::run_all(&progs, e2e::Limits::default());
        for (((f, t), o), p) in pairs.iter().zip(outs.iter()).zip(progs.iter()) {
            rep.case(Some(format!("widen-runtime-block|{}|{}", tn(*f), tn(*t))));
            rep.hit("widen:runtime-block-if-break");
            let want = vec![val(*f).to_string(); 3];
            let got: Vec<String> = if o.built && o.run_status == Some(0) {
                o.stdout().lines().map(|l| l.trim().to_string()).collect()
            } else {
                vec![format!("{} {}", o.run_summary(), errors_of(o))]
            };
            if got != want {
                rep.oracle_fail(
                    "comptime-differs-from-runtime:widened-global:runtime-block",
                    json!({"stream": "widen", "value_type": tn(*f), "global_type": tn(*t), "source": p.files[0].1}),
                    json!(got),
                    json!(want),
                    "a narrower call result as the tail of a block / `if` / labelled block annotated with a wider type does not yield the value (or crashes the compiler)",
                );
            }
        }
    }
    for (j, fl) in floats.iter().enumerate() {
        rep.case(Some(format!("widen|f32|f64|{fl}")));
        rep.hit("widen:f32->f64");
        let got = line_of(&format!("#F{j}"));
        if got.len() != 4 || got.iter().any(|g| *g != got[3]) {
            rep.oracle_fail(
                "comptime-differs-from-runtime:widened-global:float",
                json!({"stream": "widen", "value_type": "f32", "global_type": "f64", "value": fl}),
                json!(got),
                json!("four equal values (global comptime, global alias, local comptime, run-time local)"),
                "an f32 constant stored into an f64 global does not read back as the value the run-time conversion gives",
            );
        }
    }
}

pub fn replay(input: &serde_json::Value) -> String {
    match input["stream"].as_str().unwrap_or("") {
        "accept" => {
            let src = input["source"].as_str().unwrap_or("").to_string();
            let r = frontend::with_analysis(vec![("main.capy".into(), src.clone())], None, false, |a| a.kinds());
            let rejected = matches!(&r, Ok(k) if k.iter().any(|k| k == "ty:ComptimePointer"));
            format!(
                "source:\n{src}\nchecker: {:?}\n{}",
                r,
                if rejected { "rejected (ComptimePointer)" } else { "SPEC-MISMATCH: accepted although the result type holds an address" }
            )
        }
        "e2e" | "capture" => {
            let mut defs = String::new();
            if let Some(d) = input["defs"].as_str() {
                defs.push_str(d);
            }
            format!(
                "build and run (capy build main.capy):\n{defs}{HELPERS}g :: comptime {{\n{}}};\n(compare `g` with the same block evaluated at run time; context {})\nSPEC-MISMATCH if they print different values on this tree",
                input["body"].as_str().unwrap_or(""),
                input["context"]
            )
        }
        _ => format!("re-run with the same seed: {input}"),
    }
}
