//! C28 — imports resolve to the right files and each file is compiled once.
//!
//! Three implementation streams are compared with the Lean model (`CapyV.Imports`) and with an
//! oracle written from the property text:
//!  A. the lexical functions on their own (`Path::components`, `path_clean::clean`,
//!     `PathBuf::join`, `SubDir::is_sub_dir_of`) on an exhaustive small domain;
//!  B. `hir::lower(.., fake_file_system = false)` in-process on every file of generated
//!     directory trees laid out in a scratch directory (exact diagnostic kinds, exact targets);
//!  C. the real `capy` CLI on the same trees (`--verbose-hir all`: one `=== file ===` header per
//!     `SourceFile::parse`, the resolved target of every directive, the diagnostics; then the
//!     built executable prints `<alias chain>.name` for every accepted import edge).
use crate::e2e;
use crate::lean;
use crate::report::Report;
use crate::rng::Rng;
use hir::common::SubDir;
use path_clean::PathClean;
use serde_json::{json, Value};
use std::collections::{BTreeMap, BTreeSet, VecDeque};
use std::io::Read;
use std::path::{Component, Path, PathBuf};
use std::process::{Command, Stdio};
use std::sync::atomic::{AtomicUsize, Ordering};
use std::sync::{Arc, Mutex};
use std::time::{Duration, Instant};

// ------------------------------------------------------------------------------------------
// A. lexical functions
// ------------------------------------------------------------------------------------------

fn show_comps(p: &Path) -> String {
    let v: Vec<String> = p
        .components()
        .map(|c| match c {
            Component::RootDir => "/".to_string(),
            Component::CurDir => ".".to_string(),
            Component::ParentDir => "..".to_string(),
            Component::Normal(s) => format!("n:{}", s.to_string_lossy()),
            Component::Prefix(_) => "PREFIX".to_string(),
        })
        .collect();
    if v.is_empty() {
        "-".into()
    } else {
        v.join(" ")
    }
}

/// the oracle for absolute paths: where a walk from `/` ends (no symbolic links)
fn oracle_walk(start: &[String], p: &str) -> Vec<String> {
    let mut at: Vec<String> = if p.starts_with('/') { vec![] } else { start.to_vec() };
    for piece in p.split('/') {
        match piece {
            "" | "." => {}
            ".." => {
                at.pop();
            }
            name => at.push(name.to_string()),
        }
    }
    at
}

fn abs_string(comps: &[String]) -> String {
    format!("/{}", comps.join("/"))
}

fn lexical(rep: &mut Report, tier: &str, widen: bool, rng: &mut Rng) {
    let alphabet = ["", ".", "..", "a", "b.capy"];
    let max_n = if widen { 7 } else if tier == "thorough" { 6 } else { 5 };
    let mut strings: Vec<String> = vec![];
    let mut cur: Vec<Vec<&str>> = vec![vec![]];
    for _ in 0..=max_n {
        for pieces in &cur {
            for lead in ["", "/"] {
                strings.push(format!("{lead}{}", pieces.join("/")));
            }
        }
        let mut next = vec![];
        for pieces in &cur {
            for a in alphabet {
                let mut v = pieces.clone();
                v.push(a);
                next.push(v);
            }
        }
        cur = next;
    }
    strings.sort();
    strings.dedup();
    let mut reqs = vec![];
    for s in &strings {
        reqs.push(format!("C28 comps ={s}"));
        reqs.push(format!("C28 clean ={s}"));
    }
    let ans = lean::ask(&reqs);
    for (k, s) in strings.iter().enumerate() {
        let nontrivial = s.contains("..");
        rep.case(if nontrivial { Some(format!("lex|{s}")) } else { None });
        let s2 = s.clone();
        let got = std::panic::catch_unwind(move || {
            let p = Path::new(&s2);
            (show_comps(p), p.clean().to_string_lossy().to_string())
        })
        .unwrap_or(("PANIC".into(), "PANIC".into()));
        if got.0 != ans[2 * k] {
            rep.disagree(json!({"op": "comps", "path": s}), json!(got.0), json!(ans[2 * k]));
        }
        if got.1 != ans[2 * k + 1] {
            rep.disagree(json!({"op": "clean", "path": s}), json!(got.1), json!(ans[2 * k + 1]));
        }
        if s.starts_with('/') {
            rep.hit("lexical:clean-absolute");
            let want = abs_string(&oracle_walk(&[], s));
            if got.1 != want {
                rep.oracle_fail("clean-absolute", json!({"op": "clean", "path": s}), json!(got.1), json!(want),
                    "the cleaned absolute path is not where a walk of the path ends");
            }
            if got.1.split('/').any(|c| c == ".." || c == ".") {
                rep.oracle_fail("clean-leaves-dotdot", json!({"op": "clean", "path": s}), json!(got.1), json!(want),
                    "a cleaned absolute path still contains `.` or `..`");
            }
        } else {
            rep.hit("lexical:clean-relative");
        }
    }
    // join and is_sub_dir_of on pairs
    let short: Vec<&String> = strings.iter().filter(|s| s.matches('/').count() <= 3 && s.len() <= 14).collect();
    let n_pairs = if widen { 200_000 } else if tier == "thorough" { 60_000 } else { 12_000 };
    let mut pairs: Vec<(String, String)> = vec![];
    for _ in 0..n_pairs {
        let a = (*rng.pick(&short)).clone();
        let b = if rng.chance(1, 2) {
            // a prefix-like relative of `a`, cleaned or not
            let mut b = a.clone();
            match rng.below(4) {
                0 => {
                    if let Some(i) = b.rfind('/') {
                        b.truncate(i.max(1));
                    }
                }
                1 => b.push_str("/a"),
                2 => b.push('a'),
                _ => {}
            }
            b
        } else {
            (*rng.pick(&short)).clone()
        };
        // both directions: `/a` below `/aa`? and `/aa` below `/a`? (string prefix is not enough)
        if rng.chance(1, 2) {
            pairs.push((b.clone(), a.clone()));
        }
        pairs.push((a, b));
    }
    pairs.sort();
    pairs.dedup();
    let mut reqs = vec![];
    for (a, b) in &pairs {
        reqs.push(format!("C28 subdir ={a} ={b}"));
        reqs.push(format!("C28 join ={a} ={b}"));
    }
    let ans = lean::ask(&reqs);
    for (k, (a, b)) in pairs.iter().enumerate() {
        rep.case(Some(format!("pair|{a}|{b}")));
        let sub = Path::new(a).is_sub_dir_of(Path::new(b));
        let joined = show_path(&Path::new(a).join(b));
        if sub.to_string() != ans[2 * k] {
            rep.disagree(json!({"op": "subdir", "sub": a, "base": b}), json!(sub), json!(ans[2 * k]));
        }
        if joined != ans[2 * k + 1] {
            rep.disagree(json!({"op": "join", "a": a, "b": b}), json!(joined), json!(ans[2 * k + 1]));
        }
        // oracle on cleaned absolute paths: below-or-equal, component-wise
        if a.starts_with('/') && b.starts_with('/') {
            let ca = Path::new(a).clean();
            let cb = Path::new(b).clean();
            let (sa, sb) = (ca.to_string_lossy().to_string(), cb.to_string_lossy().to_string());
            let want = sb == "/" || sa == sb || sa.starts_with(&format!("{sb}/"));
            let got = ca.is_sub_dir_of(&cb);
            rep.hit(if want { "lexical:subdir-true" } else { "lexical:subdir-false" });
            if got != want {
                rep.oracle_fail("is-sub-dir-of", json!({"op": "subdir", "sub": sa, "base": sb}), json!(got), json!(want),
                    "is_sub_dir_of on cleaned absolute paths is not `equal or below`");
            }
        }
    }
}

/// a path printed component-wise (so that `a/./b` and `a/b` are the same, as for `components()`)
fn show_path(p: &Path) -> String {
    let mut s = String::new();
    let mut first = true;
    for c in p.components() {
        match c {
            Component::RootDir => {
                s.push('/');
                continue;
            }
            Component::CurDir => {
                if !first {
                    s.push('/');
                }
                s.push('.')
            }
            Component::ParentDir => {
                if !first {
                    s.push('/');
                }
                s.push_str("..")
            }
            Component::Normal(n) => {
                if !first {
                    s.push('/');
                }
                s.push_str(&n.to_string_lossy())
            }
            Component::Prefix(_) => s.push_str("PREFIX"),
        }
        first = false;
    }
    s
}

// ------------------------------------------------------------------------------------------
// B/C. directory trees
// ------------------------------------------------------------------------------------------

#[derive(Clone, Debug)]
pub struct Dv {
    pub is_mod: bool,
    /// the argument as written; `@R@` stands for the absolute scratch root
    pub arg: String,
    /// globally unique line number of the directive (and its alias is `i<line>`)
    pub line: usize,
}

#[derive(Clone, Debug)]
pub struct Src {
    /// path relative to the scratch root
    pub rel: String,
    pub num: u32,
    pub dirs: Vec<Dv>,
}

#[derive(Clone, Debug, Default)]
pub struct Tree {
    /// working directory, relative to the scratch root
    pub cwd: String,
    /// `--mod-dir` as given on the command line (`@R@` allowed)
    pub mod_arg: String,
    /// the file argument of `capy build`
    pub entry_arg: String,
    pub srcs: Vec<Src>,
    /// other plain files (relative to the root), empty contents
    pub files: Vec<String>,
    /// directories (relative to the root)
    pub dirs: Vec<String>,
}

impl Tree {
    fn to_json(&self) -> Value {
        json!({
            "cwd": self.cwd, "mod_arg": self.mod_arg, "entry_arg": self.entry_arg,
            "files": self.files, "dirs": self.dirs,
            "srcs": self.srcs.iter().map(|s| json!({
                "rel": s.rel, "num": s.num,
                "dirs": s.dirs.iter().map(|d| json!({"mod": d.is_mod, "arg": d.arg, "line": d.line})).collect::<Vec<_>>()
            })).collect::<Vec<_>>()
        })
    }
    fn from_json(v: &Value) -> Option<Tree> {
        let strs = |x: &Value| -> Vec<String> {
            x.as_array().map(|a| a.iter().filter_map(|s| s.as_str().map(|s| s.to_string())).collect()).unwrap_or_default()
        };
        Some(Tree {
            cwd: v["cwd"].as_str()?.into(),
            mod_arg: v["mod_arg"].as_str()?.into(),
            entry_arg: v["entry_arg"].as_str()?.into(),
            files: strs(&v["files"]),
            dirs: strs(&v["dirs"]),
            srcs: v["srcs"]
                .as_array()?
                .iter()
                .map(|s| Src {
                    rel: s["rel"].as_str().unwrap_or("").into(),
                    num: s["num"].as_u64().unwrap_or(0) as u32,
                    dirs: s["dirs"]
                        .as_array()
                        .cloned()
                        .unwrap_or_default()
                        .iter()
                        .map(|d| Dv {
                            is_mod: d["mod"].as_bool().unwrap_or(false),
                            arg: d["arg"].as_str().unwrap_or("").into(),
                            line: d["line"].as_u64().unwrap_or(0) as usize,
                        })
                        .collect(),
                })
                .collect(),
        })
    }
}

fn comps_of(rel: &str) -> Vec<String> {
    rel.split('/').filter(|c| !c.is_empty()).map(|c| c.to_string()).collect()
}

fn rel_path(from_dir: &[String], to: &[String]) -> String {
    let to_dir = &to[..to.len() - 1];
    let mut common = 0;
    while common < from_dir.len() && common < to_dir.len() && from_dir[common] == to_dir[common] {
        common += 1;
    }
    let mut parts: Vec<String> = vec![];
    for _ in common..from_dir.len() {
        parts.push("..".into());
    }
    for c in &to[common..] {
        parts.push(c.clone());
    }
    parts.join("/")
}

fn decorate(rng: &mut Rng, importer_dir: &[String], target: &[String], plain: bool) -> String {
    let mut p = rel_path(importer_dir, target);
    if plain {
        return p;
    }
    match rng.below(20) {
        0..=2 => p = format!("./{p}"),
        3..=4 => {
            // `x/../` with an existing or a missing x
            let x = *rng.pick(&["d1", "zz", "w", "d2"]);
            p = format!("{x}/../{p}");
        }
        5 => {
            // up and down again through the importer's own directory
            if let Some(last) = importer_dir.last() {
                p = format!("../{last}/{p}");
            }
        }
        6 => p = p.replacen('/', "//", 1),
        7 => p = p.replacen('/', "\\", 1),
        8..=9 => p = format!("@R@/{}", target.join("/")),
        10 => p = format!("{}{}", "../".repeat(18), format!("@R@/{}", target.join("/")).trim_start_matches('/')),
        11 => p = format!("./{}", p.replace('/', "/./")),
        _ => {}
    }
    p
}

pub fn gen_tree(rng: &mut Rng, valid_only: bool) -> Tree {
    let mut t = Tree::default();
    // working directory and its sub directories; an outside directory whose name has the
    // working directory's name as a string prefix
    t.cwd = "w".into();
    let sub_layouts: [&[&str]; 4] = [&[], &["w/d1"], &["w/d1", "w/d1/d2"], &["w/d1", "w/d2"]];
    let subs = *rng.pick(&sub_layouts);
    let outside = *rng.pick(&["wx", "o", "w.capy"]);
    let mod_inside_cwd = rng.chance(1, 8);
    let mod_rel = if mod_inside_cwd { "w/mods" } else { "mods" };
    t.mod_arg = match rng.below(6) {
        0 => format!("@R@/{mod_rel}"),
        1 => {
            if mod_inside_cwd { "./mods/".to_string() } else { "../w/../mods".to_string() }
        }
        _ => {
            if mod_inside_cwd { "mods".to_string() } else { "../mods".to_string() }
        }
    };
    t.dirs.push("w".into());
    for s in subs {
        t.dirs.push(s.to_string());
    }
    t.dirs.push(outside.into());
    t.dirs.push(mod_rel.into());
    t.dirs.push(format!("{mod_rel}/core")); // keeps the CLI from downloading `core`
    // modules: m1 complete, m2 has src/ but no mod.capy, m3 has no src/, m4 has a directory
    // called mod.capy; sometimes <mod-dir>/src/mod.capy exists (the module called "")
    t.dirs.push(format!("{mod_rel}/m1/src"));
    t.dirs.push(format!("{mod_rel}/m2/src"));
    t.dirs.push(format!("{mod_rel}/m3"));
    t.dirs.push(format!("{mod_rel}/m4/src/mod.capy"));
    let empty_mod = rng.chance(1, 3);
    // a directory whose name ends in .capy, a file that does not
    t.dirs.push("w/k.capy".into());
    t.files.push("w/t.txt".into());
    t.files.push("w/noext".into());
    t.files.push(format!("{outside}/t.txt"));

    // source files
    let entry_dir = if !subs.is_empty() && rng.chance(1, 5) { "w/d1" } else { "w" };
    let entry_rel = format!("{entry_dir}/main.capy");
    t.entry_arg = {
        let e = entry_rel.trim_start_matches("w/").to_string();
        match rng.below(8) {
            0 => format!("./{e}"),
            1 => format!("@R@/{entry_rel}"),
            2 => format!("../w/{e}"),
            _ => e,
        }
    };
    let mut places: Vec<String> = vec!["w".into()];
    for s in subs {
        places.push(s.to_string());
        places.push(s.to_string());
    }
    let n_src = 1 + rng.below(6) as usize;
    let mut rels: Vec<String> = vec![entry_rel.clone()];
    let names = ["a", "b", "c", "e", "f", "g"];
    let mut guard = 0;
    while rels.len() < n_src && guard < 50 {
        guard += 1;
        let r = match rng.below(12) {
            0 => format!("{outside}/{}.capy", rng.pick(&names)),
            1 => format!("{mod_rel}/m1/src/mod.capy"),
            2 => format!("{mod_rel}/m1/src/{}.capy", rng.pick(&names)),
            3 if empty_mod => format!("{mod_rel}/src/mod.capy"),
            _ => format!("{}/{}.capy", rng.pick(&places), rng.pick(&names)),
        };
        if !rels.contains(&r) {
            rels.push(r);
        }
    }
    // module files must exist as declared
    let m1 = format!("{mod_rel}/m1/src/mod.capy");
    if !rels.contains(&m1) {
        rels.push(m1.clone());
    }
    let m0 = format!("{mod_rel}/src/mod.capy");
    if empty_mod {
        if !rels.contains(&m0) {
            rels.push(m0.clone());
        }
        t.dirs.push(format!("{mod_rel}/src"));
    }
    let cwd_c = comps_of("w");
    let mod_c = comps_of(mod_rel);
    let under = |p: &[String], base: &[String]| p.len() >= base.len() && p[..base.len()] == base[..];
    let mut line = 1usize;
    for (k, rel) in rels.iter().enumerate() {
        let me = comps_of(rel);
        let my_dir = me[..me.len() - 1].to_vec();
        let n_dirs = if k == 0 { 1 + rng.below(4) } else { rng.below(5) } as usize;
        let mut dirs = vec![];
        for _ in 0..n_dirs {
            let choice = if valid_only { rng.below(70) } else { rng.below(100) };
            let dv = if choice < 55 {
                // an existing source file (itself included)
                let cands: Vec<&String> = if valid_only {
                    rels.iter().filter(|r| { let c = comps_of(r); under(&c, &cwd_c) || under(&c, &mod_c) }).collect()
                } else {
                    rels.iter().collect()
                };
                let tgt: &String = *rng.pick(&cands[..]);
                let target = comps_of(tgt);
                Dv { is_mod: false, arg: decorate(rng, &my_dir, &target, false), line }
            } else if choice < 70 {
                let m = if valid_only {
                    if empty_mod && rng.chance(1, 4) { "" } else { "m1" }
                } else {
                    *rng.pick(&["m1", "m1", "", "m2", "m3", "m4", "zz", "core", "a-b", "m1/", "..", "m.1", "\u{e9}1", "M1", "m1\\"])
                };
                Dv { is_mod: true, arg: m.into(), line }
            } else if choice < 80 {
                let mut target = my_dir.clone();
                if rng.chance(1, 3) {
                    target.pop();
                }
                target.push("nope.capy".into());
                {
                    let plain = rng.chance(1, 2);
                    Dv { is_mod: false, arg: decorate(rng, &my_dir, &target, plain), line }
                }
            } else if choice < 92 {
                let arg = match rng.below(8) {
                    0 => rel_path(&my_dir, &comps_of("w/t.txt")),
                    1 => rel_path(&my_dir, &comps_of("w/noext")),
                    2 => String::new(),
                    3 => "main.capyx".to_string(),
                    4 => "main.capy.txt".to_string(),
                    5 => "main".to_string(),
                    6 => format!("{}/", rel_path(&my_dir, &comps_of(&rels[0]))),
                    _ => "main.CAPY".to_string(),
                };
                Dv { is_mod: false, arg, line }
            } else {
                // a directory called k.capy
                Dv { is_mod: false, arg: rel_path(&my_dir, &comps_of("w/k.capy")), line }
            };
            dirs.push(dv);
            line += 1;
        }
        t.srcs.push(Src { rel: rel.clone(), num: 100 + k as u32, dirs });
    }
    t
}

// ---- materialisation -----------------------------------------------------------------------

#[derive(Clone, Debug, PartialEq)]
enum Dec {
    Ok(String),
    Err(String), // kind, possibly `kind@path`
}

impl Dec {
    fn show(&self) -> String {
        match self {
            Dec::Ok(p) => format!("ok@{p}"),
            Dec::Err(k) => k.clone(),
        }
    }
}

struct Mat {
    root: String,
    cwd: String,
    mod_arg: String,
    entry_arg: String,
    /// (absolute path, number, directives with materialised args)
    srcs: Vec<(String, u32, Vec<Dv>)>,
    fs: BTreeMap<String, char>,
    // oracle results
    o_mod_dir: String,
    o_entry: String,
    o_dec: Vec<Vec<Option<String>>>, // accepted target per directive
    o_reach: Vec<usize>,             // indices into srcs, BFS order
    o_entry_known: bool,
    prints: Vec<(String, u32, usize, usize)>, // (chain expression, expected number, file idx, directive idx)
}

fn materialise(t: &Tree, root: &str) -> Mat {
    let sub = |s: &str| s.replace("@R@", root);
    let mut fs: BTreeMap<String, char> = BTreeMap::new();
    let mut add_dir = |fs: &mut BTreeMap<String, char>, p: &str| {
        let c = comps_of(p);
        for i in 1..=c.len() {
            fs.entry(abs_string(&c[..i])).or_insert('d');
        }
    };
    add_dir(&mut fs, root);
    for d in &t.dirs {
        add_dir(&mut fs, &format!("{root}/{d}"));
    }
    for f in &t.files {
        let p = format!("{root}/{f}");
        add_dir(&mut fs, p.rsplit_once('/').unwrap().0);
        fs.insert(p, 'f');
    }
    let mut srcs: Vec<(String, u32, Vec<Dv>)> = vec![];
    for s in &t.srcs {
        let p = format!("{root}/{}", s.rel);
        add_dir(&mut fs, p.rsplit_once('/').unwrap().0);
        fs.insert(p.clone(), 'f');
        let dirs = s.dirs.iter().map(|d| Dv { is_mod: d.is_mod, arg: sub(&d.arg), line: d.line }).collect();
        srcs.push((p, s.num, dirs));
    }
    let cwd = format!("{root}/{}", t.cwd);
    let cwd_c = comps_of(&cwd);
    let mod_arg = sub(&t.mod_arg);
    let entry_arg = sub(&t.entry_arg);
    // ---- the oracle (from the property text) ----
    let mod_c = oracle_walk(&cwd_c, &mod_arg);
    let entry_c = oracle_walk(&cwd_c, &entry_arg);
    let under = |p: &[String], base: &[String]| p.len() >= base.len() && p[..base.len()] == base[..];
    let mut o_dec = vec![];
    for (p, _, dirs) in &srcs {
        let me = comps_of(p);
        let my_dir = &me[..me.len() - 1];
        let mut v = vec![];
        for d in dirs {
            let d: &Dv = d;
            let acc = if d.is_mod {
                let alnum = d.arg.chars().all(|c| c.is_ascii_alphanumeric());
                let file = format!("{}/{}/src/mod.capy", abs_string(&mod_c), d.arg);
                // `<mod-dir>//src/mod.capy` is `<mod-dir>/src/mod.capy` for the operating system
                let file = file.replace("//", "/");
                if alnum && fs.get(&file) == Some(&'f') { Some(file) } else { None }
            } else {
                let arg = d.arg.replace('\\', "/");
                let target = oracle_walk(my_dir, &arg);
                let ts = abs_string(&target);
                let exists = fs.get(&ts) == Some(&'f');
                let ends = d.arg.ends_with(".capy");
                let inside = under(&target, &cwd_c) || under(&target, &mod_c);
                if exists && ends && inside { Some(ts) } else { None }
            };
            v.push(acc);
        }
        o_dec.push(v);
    }
    let index_of = |p: &str| srcs.iter().position(|(q, _, _)| q == p);
    let entry_s = abs_string(&entry_c);
    let mut o_reach = vec![];
    let mut chain: BTreeMap<usize, String> = BTreeMap::new();
    let mut prints = vec![];
    let o_entry_known = index_of(&entry_s).is_some();
    if let Some(e) = index_of(&entry_s) {
        let mut q = VecDeque::new();
        q.push_back(e);
        chain.insert(e, String::new());
        while let Some(g) = q.pop_front() {
            o_reach.push(g);
            let cg = chain[&g].clone();
            for (k, d) in srcs[g].2.iter().enumerate() {
                if let Some(target) = &o_dec[g][k] {
                    if let Some(ti) = index_of(target) {
                        let expr = if cg.is_empty() { format!("i{}", d.line) } else { format!("{cg}.i{}", d.line) };
                        prints.push((expr.clone(), srcs[ti].1, g, k));
                        if !chain.contains_key(&ti) {
                            chain.insert(ti, expr);
                            q.push_back(ti);
                        }
                    }
                }
            }
        }
    }
    Mat {
        root: root.to_string(),
        cwd,
        mod_arg,
        entry_arg,
        srcs,
        fs,
        o_mod_dir: abs_string(&mod_c),
        o_entry: entry_s,
        o_dec,
        o_reach,
        o_entry_known,
        prints,
    }
}

fn capy_str(s: &str) -> String {
    s.replace('\\', "\\\\")
}

fn source_text(m: &Mat, idx: usize) -> String {
    let (_, num, dirs) = &m.srcs[idx];
    let mut out = String::new();
    let mut line = 1usize;
    for d in dirs {
        while line < d.line {
            out.push('\n');
            line += 1;
        }
        out.push_str(&format!("i{} :: #{}(\"{}\");\n", d.line, if d.is_mod { "mod" } else { "import" }, capy_str(&d.arg)));
        line += 1;
    }
    out.push_str(&format!("name :: {num};\n"));
    if m.o_reach.first() == Some(&idx) {
        out.push_str("printf :: (fmt: str, n: i32) extern;\nmain :: () {\n    printf(\"%d\\n\", name);\n");
        for (expr, _, _, _) in &m.prints {
            out.push_str(&format!("    printf(\"%d\\n\", {expr}.name);\n"));
        }
        out.push_str("}\n");
    }
    out
}

fn lay_out(t: &Tree, m: &Mat) {
    let _ = std::fs::remove_dir_all(&m.root);
    std::fs::create_dir_all(&m.root).unwrap();
    for d in &t.dirs {
        std::fs::create_dir_all(format!("{}/{d}", m.root)).unwrap();
    }
    for f in &t.files {
        let p = format!("{}/{f}", m.root);
        std::fs::create_dir_all(Path::new(&p).parent().unwrap()).unwrap();
        std::fs::write(&p, "").unwrap();
    }
    for (k, (p, _, _)) in m.srcs.iter().enumerate() {
        std::fs::create_dir_all(Path::new(p).parent().unwrap()).unwrap();
        std::fs::write(p, source_text(m, k)).unwrap();
    }
}

fn model_request(m: &Mat) -> String {
    let mut s = format!("C28 tree ((cwd ={}) (mod ={}) (entry ={}) (fs", m.cwd, m.mod_arg, m.entry_arg);
    for (p, k) in &m.fs {
        s.push_str(&format!(" ({k} ={p})"));
    }
    s.push_str(") (files");
    for (p, num, dirs) in &m.srcs {
        s.push_str(&format!(" (={p} {num}"));
        for d in dirs {
            s.push_str(&format!(" ({} ={})", if d.is_mod { "m" } else { "i" }, d.arg));
        }
        s.push(')');
    }
    s.push_str("))");
    s
}

struct ModelAns {
    mod_dir: String,
    entry: String,
    /// per file, per directive: decision and the number `alias.name` denotes
    dec: Vec<Vec<(Dec, Option<u32>)>>,
    parsed: Vec<String>,
    panic_entry: bool,
    raw: String,
}

fn parse_model(ans: &str) -> Option<ModelAns> {
    let (head, rest) = ans.split_once(" D ")?;
    let (d, p) = match rest.split_once(" P ") {
        Some(x) => x,
        None => (rest.strip_suffix(" P")?, ""),
    };
    let mut mod_dir = String::new();
    let mut entry = String::new();
    for w in head.split(' ') {
        if let Some(x) = w.strip_prefix("mod=") {
            mod_dir = x.into();
        }
        if let Some(x) = w.strip_prefix("entry=") {
            entry = x.into();
        }
    }
    let mut dec = vec![];
    for group in d.split(']') {
        let g = group.trim().trim_start_matches('[');
        if group.trim().is_empty() {
            continue;
        }
        let mut v = vec![];
        for tok in g.split(' ').filter(|x| !x.is_empty()) {
            if let Some(x) = tok.strip_prefix("ok@") {
                let (path, n) = x.rsplit_once('#')?;
                v.push((Dec::Ok(path.into()), n.parse().ok()));
            } else {
                v.push((Dec::Err(tok.into()), None));
            }
        }
        dec.push(v);
    }
    let p = p.trim();
    let panic_entry = p.starts_with("PANIC-ENTRY-OUTSIDE");
    let p2 = p.trim_start_matches("PANIC-ENTRY-OUTSIDE").trim();
    Some(ModelAns {
        mod_dir,
        entry,
        dec,
        parsed: p2.split(' ').filter(|x| !x.is_empty()).map(|x| x.to_string()).collect(),
        panic_entry,
        raw: ans.to_string(),
    })
}

// ---- stream B: hir::lower in-process with the real file system ------------------------------

/// decisions for every directive of every source file, or the panic message
fn lower_in_process(m: &Mat) -> Result<Vec<Vec<Dec>>, String> {
    let old = std::env::current_dir().map_err(|e| e.to_string())?;
    std::env::set_current_dir(&m.cwd).map_err(|e| e.to_string())?;
    let srcs = m.srcs.clone();
    let mod_arg = m.mod_arg.clone();
    let handle = std::thread::Builder::new()
        .stack_size(64 * 1024 * 1024)
        .spawn(move || {
            std::panic::catch_unwind(std::panic::AssertUnwindSafe(|| {
                let mod_dir = std::env::current_dir().unwrap().join(&mod_arg).clean();
                let mut interner = interner::Interner::default();
                let mut uid_gen = uid_gen::UIDGenerator::default();
                let mut all = vec![];
                for (p, _, dirs) in &srcs {
                    let text = std::fs::read_to_string(p).unwrap();
                    let li = line_index::LineIndex::new(&text);
                    let tokens = lexer::lex(&text);
                    let parse = parser::parse_source_file(&tokens, &text);
                    let tree = parse.into_syntax_tree();
                    let root = <ast::Root as ast::AstNode>::cast(tree.root(), &tree).unwrap();
                    let (index, _) = hir::index(root, &tree, &mut interner);
                    let (bodies, diags) =
                        hir::lower(root, &tree, Path::new(p), &index, &mut uid_gen, &mut interner, &mod_dir, false);
                    let mut v = vec![];
                    for d in dirs {
                        let name = hir::common::Name(interner.intern(&format!("i{}", d.line)));
                        let dec = match bodies.try_global_body(name).map(|i| bodies[i].clone()) {
                            Some(hir::Expr::Import(f)) => Dec::Ok(interner.lookup(f.0).to_string()),
                            _ => {
                                // the diagnostic on this line
                                let mut kind = "NO-DIAGNOSTIC".to_string();
                                for dg in &diags {
                                    let (l, _) = li.line_col(dg.range.start());
                                    if l.0 as usize + 1 == d.line {
                                        use hir::LoweringDiagnosticKind as K;
                                        kind = match &dg.kind {
                                            K::ModMustBeAlphanumeric => "ModMustBeAlphanumeric".into(),
                                            K::ModDoesNotExist { .. } => "ModDoesNotExist".into(),
                                            K::ModDoesNotContainModFile { .. } => "ModDoesNotContainModFile".into(),
                                            K::ImportMustEndInDotCapy => "ImportMustEndInDotCapy".into(),
                                            K::ImportDoesNotExist { file } => format!("ImportDoesNotExist@{file}"),
                                            K::ImportOutsideCWD { file } => format!("ImportOutsideCWD@{file}"),
                                            other => format!("OTHER:{:?}", other).replace(' ', "_"),
                                        };
                                    }
                                }
                                Dec::Err(kind)
                            }
                        };
                        v.push(dec);
                    }
                    // accepted targets must be exactly `bodies.imports()`
                    let set: BTreeSet<String> = bodies.imports().iter().map(|f| interner.lookup(f.0).to_string()).collect();
                    let want: BTreeSet<String> =
                        v.iter().filter_map(|d| if let Dec::Ok(p) = d { Some(p.clone()) } else { None }).collect();
                    if set != want {
                        v.push(Dec::Err(format!("IMPORT-SET-MISMATCH:{:?}", set).replace(' ', "_")));
                    }
                    all.push(v);
                }
                all
            }))
        })
        .expect("spawn");
    let r = match handle.join() {
        Ok(Ok(v)) => Ok(v),
        Ok(Err(p)) | Err(p) => Err(crate::frontend::panic_message(p)),
    };
    let _ = std::env::set_current_dir(old);
    r
}

// ---- stream C: the real CLI ------------------------------------------------------------------

#[derive(Default, Clone, Debug)]
struct CliOut {
    headers: Vec<String>,
    resolved: BTreeMap<usize, String>,    // directive line -> resolved target printed by --verbose-hir
    missing: BTreeSet<usize>,             // directive line printed as <missing>
    errors: Vec<(usize, String)>,         // (line, kind[@path]) for every import diagnostic printed
    other_errors: Vec<String>,
    crashed: bool,
    timeout: bool,
    status: Option<i32>,
    built: bool,
    run_out: Vec<String>,
    run_status: String,
    tail: String,
}

fn run_cmd(mut cmd: Command, deadline: Duration) -> (String, Option<i32>, bool) {
    cmd.stdin(Stdio::null()).stdout(Stdio::piped()).stderr(Stdio::piped());
    let mut child = match cmd.spawn() {
        Ok(c) => c,
        Err(e) => return (format!("spawn failed: {e}"), Some(-2), false),
    };
    let mut so = child.stdout.take().unwrap();
    let mut se = child.stderr.take().unwrap();
    let t1 = std::thread::spawn(move || {
        let mut v = vec![];
        let _ = so.read_to_end(&mut v);
        v
    });
    let t2 = std::thread::spawn(move || {
        let mut v = vec![];
        let _ = se.read_to_end(&mut v);
        v
    });
    let start = Instant::now();
    let mut timeout = false;
    let status = loop {
        match child.try_wait() {
            Ok(Some(s)) => break Some(s),
            Ok(None) => {
                if start.elapsed() > deadline {
                    let _ = child.kill();
                    timeout = true;
                    break child.wait().ok();
                }
                std::thread::sleep(Duration::from_millis(3));
            }
            Err(_) => break None,
        }
    };
    let mut out = String::from_utf8_lossy(&t1.join().unwrap_or_default()).to_string();
    let err = String::from_utf8_lossy(&t2.join().unwrap_or_default()).to_string();
    if !err.is_empty() {
        out.push_str("\n[stderr]\n");
        out.push_str(&err);
    }
    (out, status.and_then(|s| s.code()), timeout)
}

fn between<'a>(s: &'a str, a: &str, b: &str) -> Option<&'a str> {
    let i = s.find(a)? + a.len();
    let j = s[i..].find(b)? + i;
    Some(&s[i..j])
}

fn classify(msg: &str) -> Option<String> {
    if msg == "modules must be alphanumeric" {
        Some("ModMustBeAlphanumeric".into())
    } else if msg.starts_with("a `") && msg.contains("` module could not be found in `") {
        Some("ModDoesNotExist".into())
    } else if msg.starts_with("the `") && msg.ends_with("but doesn't contain a `mod.capy` file") {
        Some("ModDoesNotContainModFile".into())
    } else if msg == "capy files must end in `.capy`" {
        Some("ImportMustEndInDotCapy".into())
    } else if msg.ends_with("` couldn't be found") {
        Some(format!("ImportDoesNotExist@{}", between(msg, "`", "` couldn't be found")?))
    } else if msg.ends_with("` is outside the current working module") {
        Some(format!("ImportOutsideCWD@{}", between(msg, "`", "` is outside the current working module")?))
    } else {
        None
    }
}

fn run_cli(m: &Mat) -> CliOut {
    let mut cmd = Command::new(e2e::capy_bin());
    cmd.current_dir(&m.cwd)
        .args(["build", &m.entry_arg, "--mod-dir", &m.mod_arg, "--color", "never", "-o", "prog", "--verbose-hir", "all"])
        .env("RUST_BACKTRACE", "0");
    let (out, status, timeout) = run_cmd(cmd, Duration::from_secs(30));
    let mut c = CliOut { status, timeout, ..Default::default() };
    c.crashed = status == Some(101) || (status.is_none() && !timeout) || out.contains("panicked at");
    let lines: Vec<&str> = out.lines().collect();
    for (i, l) in lines.iter().enumerate() {
        if let Some(h) = l.strip_prefix("=== ").and_then(|x| x.strip_suffix(" ===")) {
            c.headers.push(h.to_string());
        } else if let Some((lhs, rhs)) = l.split_once(" :: ") {
            if let Some(alias) = lhs.rsplit("::").next().and_then(|a| a.strip_prefix('i')).and_then(|n| n.parse::<usize>().ok()) {
                if let Some(p) = rhs.strip_prefix("#import(\"").and_then(|x| x.strip_suffix("\");")) {
                    c.resolved.insert(alias, p.to_string());
                } else if rhs == "<missing>;" {
                    c.missing.insert(alias);
                }
            }
        } else if let Some(msg) = l.strip_prefix("error: ") {
            // the position header follows
            let pos = lines[i + 1..].iter().take(2).find_map(|x| x.trim_start().strip_prefix("--> at "));
            let line = pos.and_then(|p| {
                let mut it = p.rsplitn(3, ':');
                let _col = it.next();
                it.next().and_then(|l| l.parse::<usize>().ok())
            });
            match (classify(msg), line) {
                (Some(k), Some(l)) => c.errors.push((l, k)),
                _ => c.other_errors.push(msg.to_string()),
            }
        }
    }
    let exe = format!("{}/out/prog", m.cwd);
    if Path::new(&exe).exists() && status == Some(0) {
        c.built = true;
        let mut run = Command::new(&exe);
        run.current_dir(&m.cwd);
        let (o, st, to) = run_cmd(run, Duration::from_secs(10));
        c.run_out = o.lines().map(|x| x.to_string()).collect();
        c.run_status = if to { "timeout".into() } else { format!("exit={:?}", st) };
    }
    let keep: Vec<&str> = lines.iter().rev().take(12).rev().cloned().collect();
    c.tail = keep.join(" | ");
    c
}

fn run_cli_all(mats: &[Mat]) -> Vec<CliOut> {
    let n = mats.len();
    let jobs: usize = std::env::var("CVH_JOBS").ok().and_then(|s| s.parse().ok()).unwrap_or(16).max(1);
    let next = Arc::new(AtomicUsize::new(0));
    let results: Arc<Mutex<Vec<Option<CliOut>>>> = Arc::new(Mutex::new(vec![None; n]));
    std::thread::scope(|sc| {
        for _ in 0..jobs.min(n.max(1)) {
            let next = next.clone();
            let results = results.clone();
            sc.spawn(move || loop {
                let i = next.fetch_add(1, Ordering::SeqCst);
                if i >= n {
                    break;
                }
                let o = run_cli(&mats[i]);
                results.lock().unwrap()[i] = Some(o);
            });
        }
    });
    let v = std::mem::take(&mut *results.lock().unwrap());
    v.into_iter().map(|o| o.unwrap_or_default()).collect()
}

fn scratch() -> PathBuf {
    let base = std::env::var("CVH_SCRATCH").unwrap_or_else(|_| "/verif/.build/e2e".into());
    PathBuf::from(base).join(format!("c28p{}", std::process::id()))
}

fn accept_word(d: &Dec) -> &'static str {
    match d {
        Dec::Ok(_) => "accept",
        Dec::Err(_) => "reject",
    }
}

fn kind_word(d: &Dec) -> String {
    match d {
        Dec::Ok(_) => "ok".into(),
        Dec::Err(k) => k.split('@').next().unwrap_or("").to_string(),
    }
}

/// Runs the three streams on a batch of trees and records everything in `rep`.
/// Returns a human readable log (used by `replay`).
fn check_trees(trees: &[Tree], rep: &mut Report, verbose: bool) -> String {
    let mut log = String::new();
    let base = scratch();
    let _ = std::fs::create_dir_all(&base);
    let base = std::fs::canonicalize(&base).unwrap_or(base);
    let mats: Vec<Mat> = trees
        .iter()
        .enumerate()
        .map(|(i, t)| {
            let root = base.join(format!("n{i}")).to_string_lossy().to_string();
            let m = materialise(t, &root);
            lay_out(t, &m);
            m
        })
        .collect();
    let reqs: Vec<String> = mats.iter().map(model_request).collect();
    let answers = lean::ask(&reqs);
    let inproc: Vec<Result<Vec<Vec<Dec>>, String>> = mats.iter().map(lower_in_process).collect();
    let clis = if e2e::available() { run_cli_all(&mats) } else { vec![CliOut::default(); mats.len()] };
    for (ti, t) in trees.iter().enumerate() {
        let m = &mats[ti];
        let input = t.to_json();
        let strip = |s: &str| s.replace(&m.root, "@R@");
        let model = if answers[ti] == "?" { None } else { parse_model(&answers[ti]) };
        if answers[ti] != "?" && model.is_none() {
            rep.disagree(input.clone(), json!("unparsable model answer"), json!(answers[ti]));
        }
        // ---------- non-triviality / histogram ----------
        let n_edges = m.prints.len();
        let has_cycle = {
            // an accepted edge to a file already reached earlier in BFS order (incl. self)
            let mut seen = BTreeSet::new();
            let mut cyc = false;
            for (_, _, g, k) in &m.prints {
                seen.insert(*g);
                if let Some(tp) = &m.o_dec[*g][*k] {
                    if let Some(tix) = m.srcs.iter().position(|(q, _, _)| q == tp) {
                        if seen.contains(&tix) {
                            cyc = true;
                        }
                    }
                }
            }
            cyc
        };
        let any_dotdot = m.srcs.iter().any(|(_, _, ds)| ds.iter().any(|d| d.arg.contains("..")));
        let nontrivial = n_edges >= 1 && (any_dotdot || has_cycle);
        rep.case(if nontrivial { Some(format!("tree|{}", strip(&reqs[ti]))) } else { None });
        rep.hit(&format!("tree:files-reachable={}", m.o_reach.len().min(7)));
        if has_cycle {
            rep.hit("tree:has-cycle-or-self-import");
        }
        // ---------- stream B: in-process lowering ----------
        match &inproc[ti] {
            Err(msg) => {
                rep.hit("inproc:panic");
                rep.oracle_fail("lower-panic", input.clone(), json!(msg), json!("no panic"), "hir::lower panicked on a generated tree");
            }
            Ok(all) => {
                for (fi, (p, _, dirs)) in m.srcs.iter().enumerate() {
                    for (k, d) in dirs.iter().enumerate() {
                        let got = all[fi].get(k).cloned().unwrap_or(Dec::Err("MISSING".into()));
                        let what = if d.is_mod { "mod" } else { "import" };
                        rep.hit(&format!("lower:{what}:{}", kind_word(&got)));
                        if d.is_mod && d.arg.is_empty() && matches!(got, Dec::Ok(_)) {
                            rep.hit("note:mod-with-empty-name-accepted");
                        }
                        // model
                        if let Some(md) = &model {
                            let want = md.dec.get(fi).and_then(|v| v.get(k)).map(|x| x.0.clone());
                            if want.as_ref() != Some(&got) {
                                rep.disagree(
                                    json!({"tree": input, "file": strip(p), "directive": d.arg, "stream": "hir::lower"}),
                                    json!(strip(&got.show())),
                                    json!(want.map(|w| strip(&w.show()))),
                                );
                            }
                        }
                        // oracle
                        let want = match &m.o_dec[fi][k] {
                            Some(p) => Dec::Ok(p.clone()),
                            None => Dec::Err("reject".into()),
                        };
                        let same = match (&want, &got) {
                            (Dec::Ok(a), Dec::Ok(b)) => a == b,
                            (Dec::Err(_), Dec::Err(_)) => true,
                            _ => false,
                        };
                        if !same {
                            let label = format!("{what}-oracle-{}-impl-{}", accept_word(&want), kind_word(&got));
                            rep.oracle_fail(
                                &label,
                                json!({"tree": input, "file": strip(p), "directive": d.arg, "stream": "hir::lower"}),
                                json!(strip(&got.show())),
                                json!(strip(&want.show())),
                                "decision of lower_import differs from the property text",
                            );
                        }
                    }
                    if all[fi].len() > dirs.len() {
                        rep.disagree(json!({"tree": input, "file": strip(p)}), json!(strip(&all[fi].last().unwrap().show())), json!("bodies.imports() = accepted targets"));
                    }
                }
            }
        }
        // ---------- stream C: the CLI ----------
        if !e2e::available() {
            continue;
        }
        let c = &clis[ti];
        let entry_inside = {
            let e = comps_of(&m.o_entry);
            let under = |b: &str| { let b = comps_of(b); e.len() >= b.len() && e[..b.len()] == b[..] };
            under(&m.cwd) || under(&m.o_mod_dir)
        };
        if verbose {
            log.push_str(&format!(
                "tree {ti}: cli status={:?} crashed={} headers={:?} errors={:?} other={:?} built={} out={:?}\n  model: {}\n  tail: {}\n",
                c.status, c.crashed, c.headers.iter().map(|h| strip(h)).collect::<Vec<_>>(),
                c.errors.iter().map(|(l, k)| (l, strip(k))).collect::<Vec<_>>(), c.other_errors, c.built, c.run_out,
                model.as_ref().map(|x| strip(&x.raw)).unwrap_or_default(), strip(&c.tail)
            ));
        }
        if c.timeout {
            rep.oracle_fail("cli-hang", input.clone(), json!("timeout after 30 s"), json!("terminates"), "the CLI did not terminate on a generated tree");
            continue;
        }
        if c.crashed {
            let model_panics = model.as_ref().map(|x| x.panic_entry).unwrap_or(false);
            if model.is_some() && !model_panics {
                rep.disagree(input.clone(), json!(format!("CLI crashed: {}", strip(&c.tail))), json!("no panic in the model"));
            }
            let label = if !entry_inside { "crash:entry-file-outside-cwd-and-mod-dir" } else { "crash:cli-panicked" };
            rep.hit(label);
            rep.oracle_fail(label, input.clone(), json!(strip(&c.tail)), json!("no crash"), "the CLI panicked on a generated tree");
            continue;
        }
        if let Some(md) = &model {
            if md.panic_entry {
                rep.disagree(input.clone(), json!("CLI did not crash"), json!("PANIC-ENTRY-OUTSIDE"));
                continue;
            }
        }
        if !m.o_entry_known {
            continue;
        }
        // (1) each reachable file compiled exactly once
        let mut got_headers = c.headers.clone();
        got_headers.sort();
        let mut want_headers: Vec<String> = m.o_reach.iter().map(|i| m.srcs[*i].0.clone()).collect();
        want_headers.sort();
        rep.traces_validated += 1;
        if let Some(md) = &model {
            let mut mh = md.parsed.clone();
            mh.sort();
            if mh != got_headers {
                rep.disagree(json!({"tree": input, "stream": "cli headers"}), json!(got_headers.iter().map(|h| strip(h)).collect::<Vec<_>>()), json!(mh.iter().map(|h| strip(h)).collect::<Vec<_>>()));
            }
            if c.headers.first().map(|s| s.as_str()) != md.parsed.first().map(|s| s.as_str()) {
                rep.disagree(json!({"tree": input, "stream": "cli first header"}), json!(c.headers.first()), json!(md.parsed.first()));
            }
        }
        if got_headers != want_headers {
            let dup = got_headers.windows(2).any(|w| w[0] == w[1]);
            let label = if dup { "file-compiled-twice" } else { "compiled-set-differs-from-reachable-set" };
            rep.oracle_fail(label, input.clone(), json!(got_headers.iter().map(|h| strip(h)).collect::<Vec<_>>()),
                json!(want_headers.iter().map(|h| strip(h)).collect::<Vec<_>>()),
                "the files parsed by the CLI are not the reachable files, each once");
        }
        // (2) diagnostics of reachable files
        let mut want_err: BTreeMap<usize, ()> = BTreeMap::new();
        let mut want_ok: BTreeMap<usize, String> = BTreeMap::new();
        for &fi in &m.o_reach {
            for (k, d) in m.srcs[fi].2.iter().enumerate() {
                match &m.o_dec[fi][k] {
                    Some(p) => {
                        want_ok.insert(d.line, p.clone());
                    }
                    None => {
                        want_err.insert(d.line, ());
                    }
                }
            }
        }
        let mut got_err_lines: Vec<usize> = c.errors.iter().map(|(l, _)| *l).collect();
        got_err_lines.sort();
        let want_err_lines: Vec<usize> = want_err.keys().cloned().collect();
        if got_err_lines != want_err_lines {
            let dup = got_err_lines.windows(2).any(|w| w[0] == w[1]);
            let label = if dup { "diagnostic-printed-twice" } else { "cli-rejections-differ" };
            rep.oracle_fail(label, input.clone(), json!(c.errors.iter().map(|(l, k)| format!("{l}:{}", strip(k))).collect::<Vec<_>>()),
                json!(want_err_lines), "the import diagnostics printed by the CLI are not exactly the rejected directives of the reachable files");
        }
        if c.resolved != want_ok {
            rep.oracle_fail("cli-resolved-target-differs", input.clone(),
                json!(c.resolved.iter().map(|(l, p)| format!("{l}:{}", strip(p))).collect::<Vec<_>>()),
                json!(want_ok.iter().map(|(l, p)| format!("{l}:{}", strip(p))).collect::<Vec<_>>()),
                "the targets printed by --verbose-hir are not the files the directives denote");
        }
        if !c.other_errors.is_empty() {
            rep.hit("cli:unexpected-other-error");
            rep.disagree(json!({"tree": input, "stream": "cli other errors"}), json!(c.other_errors), json!([]));
        }
        if let Some(md) = &model {
            // kinds and paths of the diagnostics, resolved targets
            let mut m_err: Vec<(usize, String)> = vec![];
            let mut m_ok: BTreeMap<usize, String> = BTreeMap::new();
            for (fi, (p, _, dirs)) in m.srcs.iter().enumerate() {
                if !md.parsed.contains(p) {
                    continue;
                }
                for (k, d) in dirs.iter().enumerate() {
                    match md.dec.get(fi).and_then(|v| v.get(k)) {
                        Some((Dec::Ok(p), _)) => {
                            m_ok.insert(d.line, p.clone());
                        }
                        Some((Dec::Err(kd), _)) => m_err.push((d.line, kd.clone())),
                        None => {}
                    }
                }
            }
            let mut g = c.errors.clone();
            g.sort();
            m_err.sort();
            if g != m_err {
                rep.disagree(json!({"tree": input, "stream": "cli diagnostics"}),
                    json!(g.iter().map(|(l, k)| format!("{l}:{}", strip(k))).collect::<Vec<_>>()),
                    json!(m_err.iter().map(|(l, k)| format!("{l}:{}", strip(k))).collect::<Vec<_>>()));
            }
            if c.resolved != m_ok {
                rep.disagree(json!({"tree": input, "stream": "cli resolved"}),
                    json!(c.resolved.iter().map(|(l, p)| format!("{l}:{}", strip(p))).collect::<Vec<_>>()),
                    json!(m_ok.iter().map(|(l, p)| format!("{l}:{}", strip(p))).collect::<Vec<_>>()));
            }
        }
        // (3) file.name: output of the executable
        let expect_built = want_err.is_empty();
        if expect_built {
            rep.hit("cli:expected-to-build");
            let mut want_out: Vec<String> = vec![m.srcs[m.o_reach[0]].1.to_string()];
            want_out.extend(m.prints.iter().map(|(_, n, _, _)| n.to_string()));
            let got_out: Vec<String> = c.run_out.clone();
            if !c.built {
                rep.oracle_fail("accepted-tree-not-built", input.clone(), json!(strip(&c.tail)), json!(want_out), "a tree whose imports are all valid was not built");
            } else {
                if got_out != want_out {
                    rep.oracle_fail("file-name-wrong-definition", input.clone(), json!(got_out), json!(want_out),
                        "`<alias chain>.name` did not print the `name` of the file the chain denotes");
                }
                if let Some(md) = &model {
                    let mut mo: Vec<String> = vec![m.srcs[m.o_reach[0]].1.to_string()];
                    for (_, _, g, k) in &m.prints {
                        mo.push(md.dec.get(*g).and_then(|v| v.get(*k)).and_then(|x| x.1).map(|n| n.to_string()).unwrap_or("-".into()));
                    }
                    if mo != got_out {
                        rep.disagree(json!({"tree": input, "stream": "program output"}), json!(got_out), json!(mo));
                    }
                }
                if rep.samples.len() < 6 && n_edges >= 3 {
                    rep.sample(json!({"tree": strip(&reqs[ti]), "printed": got_out, "headers": c.headers.iter().map(|h| strip(h)).collect::<Vec<_>>()}));
                }
            }
        } else {
            rep.hit("cli:expected-errors");
            if c.built {
                rep.oracle_fail("rejected-tree-built", input.clone(), json!("built"), json!(want_err_lines), "a tree with rejected imports was built");
            }
        }
    }
    let _ = std::fs::remove_dir_all(&base);
    log
}

/// hand-written trees: the past findings and the corner cases of the property text
fn corpus() -> Vec<Tree> {
    let base_dirs = |t: &mut Tree| {
        for d in ["w", "w/d1", "wx", "mods", "mods/core", "mods/m1/src", "mods/m2/src", "mods/m3", "w/k.capy"] {
            t.dirs.push(d.into());
        }
        t.files.push("w/t.txt".into());
    };
    let mut v = vec![];
    // cycle + self import + `..` + module, all valid
    let mut t = Tree { cwd: "w".into(), mod_arg: "../mods".into(), entry_arg: "main.capy".into(), ..Default::default() };
    base_dirs(&mut t);
    t.srcs = vec![
        Src { rel: "w/main.capy".into(), num: 100, dirs: vec![
            Dv { is_mod: false, arg: "d1/a.capy".into(), line: 1 },
            Dv { is_mod: false, arg: "./d1/../b.capy".into(), line: 2 },
            Dv { is_mod: true, arg: "m1".into(), line: 3 },
            Dv { is_mod: false, arg: "main.capy".into(), line: 4 }] },
        Src { rel: "w/d1/a.capy".into(), num: 101, dirs: vec![
            Dv { is_mod: false, arg: "../main.capy".into(), line: 5 },
            Dv { is_mod: false, arg: "a.capy".into(), line: 6 },
            Dv { is_mod: false, arg: "../d1/../b.capy".into(), line: 7 }] },
        Src { rel: "w/b.capy".into(), num: 102, dirs: vec![Dv { is_mod: false, arg: "d1/a.capy".into(), line: 8 }] },
        Src { rel: "mods/m1/src/mod.capy".into(), num: 103, dirs: vec![
            Dv { is_mod: false, arg: "../../../w/b.capy".into(), line: 9 },
            Dv { is_mod: true, arg: "m1".into(), line: 10 }] },
    ];
    v.push(t.clone());
    // every rejection branch
    let mut t2 = t.clone();
    t2.srcs.push(Src { rel: "wx/o.capy".into(), num: 104, dirs: vec![] });
    t2.srcs[0].dirs = vec![
        Dv { is_mod: false, arg: "d1/a.capy".into(), line: 1 },
        Dv { is_mod: false, arg: "nope.capy".into(), line: 2 },
        Dv { is_mod: false, arg: "t.txt".into(), line: 3 },
        Dv { is_mod: false, arg: "../wx/o.capy".into(), line: 4 },
        Dv { is_mod: false, arg: "k.capy".into(), line: 11 },
        Dv { is_mod: true, arg: "m2".into(), line: 12 },
        Dv { is_mod: true, arg: "m3".into(), line: 13 },
        Dv { is_mod: true, arg: "a-b".into(), line: 14 },
        Dv { is_mod: true, arg: "".into(), line: 15 },
        Dv { is_mod: false, arg: "@R@/wx/o.capy".into(), line: 16 },
        Dv { is_mod: false, arg: "".into(), line: 17 },
    ];
    v.push(t2);
    // the module called "" (vacuous alphanumeric check) with <mod-dir>/src/mod.capy present
    let mut t3 = t.clone();
    t3.dirs.push("mods/src".into());
    t3.srcs.push(Src { rel: "mods/src/mod.capy".into(), num: 105, dirs: vec![] });
    t3.srcs[0].dirs.push(Dv { is_mod: true, arg: "".into(), line: 11 });
    v.push(t3);
    // entry file outside the working directory and the module directory (known crash)
    let mut t4 = Tree { cwd: "w".into(), mod_arg: "../mods".into(), entry_arg: "../wx/main.capy".into(), ..Default::default() };
    base_dirs(&mut t4);
    t4.srcs = vec![Src { rel: "wx/main.capy".into(), num: 100, dirs: vec![] }];
    v.push(t4);
    v
}

pub fn run(tier: &str, seed: u64, widen: bool) -> Report {
    let mut rep = Report::new(
        "C28",
        "(A) std Path::components / path_clean::clean / PathBuf::join / SubDir::is_sub_dir_of, (B) hir::lower with the real file system in-process, (C) the real capy CLI (--verbose-hir all headers, resolved targets, diagnostics) and the built executable's output — each vs the Lean model CapyV.Imports (parse/clean/join/isSubDirOf, lowerImport/lowerMod, compileFile worklist, world lookup) and vs an oracle written from the property text",
        "A: every path string of <= 5 (thorough 6) pieces over {'', '.', '..', 'a', 'b.capy'} with and without a leading '/', plus random pairs for join / is_sub_dir_of; B/C: hand-written corpus first, then seeded random trees: <= 6 source files in <= 3 directories of the working directory plus an outside directory (whose name may extend the working directory's name) and a module directory (inside or outside the working directory; complete, src-less, mod.capy-less modules, mod.capy as a directory, optionally <mod-dir>/src/mod.capy), <= 4 directives per file: relative imports decorated with ./, x/../ (x existing or missing), //, backslashes, absolute paths, 18 x ../ beyond the root; missing targets, non-.capy targets, a directory called k.capy, targets outside; #mod with 15 kinds of names; half of the trees only have valid directives (so that they are built and run); non-trivial = at least one accepted edge and a `..` or a cycle/self-import; distinct by the whole tree",
    );
    let mut rng = Rng::new(seed);
    lexical(&mut rep, tier, widen, &mut rng);
    let n_trees = if widen { 4000 } else if tier == "thorough" { 1200 } else { 160 };
    let mut trees = corpus();
    while trees.len() < n_trees {
        let valid_only = rng.chance(1, 2);
        trees.push(gen_tree(&mut rng, valid_only));
    }
    if !e2e::available() {
        rep.notes.push("capy CLI binary missing: stream C skipped".into());
    }
    for chunk in trees.chunks(400) {
        check_trees(chunk, &mut rep, false);
    }
    rep.exhaustive = false;
    rep
}

pub fn replay(input: &Value) -> String {
    let tree_json = if input.get("tree").is_some() { &input["tree"] } else { input };
    if let Some(op) = input.get("op").and_then(|o| o.as_str()) {
        return format!("lexical case `{op}`: {input} — re-run `cvh C28` (exhaustive domain, always covered)");
    }
    let Some(t) = Tree::from_json(tree_json) else {
        return format!("cannot decode the tree: {input}");
    };
    let mut rep = Report::new("C28", "replay", "replay");
    let log = check_trees(&[t], &mut rep, true);
    let mut s = log;
    for f in &rep.oracle_failures {
        s.push_str(&format!("SPEC-MISMATCH [{}]: implementation {} , property text {}\n", f["label"], f["implementation"], f["spec"]));
    }
    for d in &rep.model_disagreements {
        s.push_str(&format!("MODEL-DISAGREEMENT: implementation {} , model {}\n", d["implementation"], d["model"]));
    }
    if rep.oracle_failures.is_empty() && rep.model_disagreements.is_empty() {
        s.push_str("no mismatch on this tree\n");
    }
    s
}
