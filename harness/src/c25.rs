//! C25 — line/column. Correspondence: real `LineIndex` vs the Lean model; oracle: the
//! property's own definition (newline count / offset minus line start), computed here
//! independently of both.
use crate::lean;
use crate::report::Report;
use crate::rng::Rng;
use line_index::LineIndex;
use serde_json::json;
use std::panic::{catch_unwind, AssertUnwindSafe};
use text_size::TextSize;

const ALPHABET: [&str; 5] = ["a", "\n", "\r", "\t", "é"];

fn oracle(text: &[u8], off: usize) -> (u32, u32) {
    let before = &text[..off];
    let line = before.iter().filter(|&&b| b == b'\n').count();
    let start = before.iter().rposition(|&b| b == b'\n').map(|p| p + 1).unwrap_or(0);
    (line as u32, (off - start) as u32)
}

fn offsets_for(text: &str) -> Vec<usize> {
    if text.len() <= 512 {
        return (0..=text.len()).collect();
    }
    // large text: boundaries, every position around a newline, and a stride sample
    let mut v = vec![0, 1, text.len() - 1, text.len()];
    let b = text.as_bytes();
    let mut seen_nl = 0;
    for (i, &c) in b.iter().enumerate() {
        if c == b'\n' && seen_nl < 40 {
            seen_nl += 1;
            v.push(i);
            v.push(i + 1);
        }
    }
    let stride = text.len() / 64 + 1;
    v.extend((0..text.len()).step_by(stride));
    v.sort();
    v.dedup();
    v
}

fn impl_all(text: &str, offsets: &[usize]) -> Vec<Result<(u32, u32), String>> {
    let idx = LineIndex::new(text);
    offsets
        .iter()
        .map(|&off| {
            catch_unwind(AssertUnwindSafe(|| {
                let (l, c) = idx.line_col(TextSize::from(off as u32));
                (l.0, c.0)
            }))
            .map_err(|_| "PANIC".to_string())
        })
        .collect()
}

fn fmt_all(v: &[Result<(u32, u32), String>]) -> String {
    v.iter()
        .map(|r| match r {
            Ok((l, c)) => format!("{l}:{c}"),
            Err(e) => e.clone(),
        })
        .collect::<Vec<_>>()
        .join(" ")
}

fn enumerate(max_len: usize, out: &mut Vec<String>) {
    // all strings of ≤ max_len symbols over ALPHABET
    let mut cur: Vec<usize> = vec![];
    loop {
        out.push(cur.iter().map(|&i| ALPHABET[i]).collect());
        // next
        let mut i = cur.len();
        loop {
            if i == 0 {
                if cur.len() == max_len {
                    return;
                }
                cur = vec![0; cur.len() + 1];
                break;
            }
            i -= 1;
            if cur[i] + 1 < ALPHABET.len() {
                cur[i] += 1;
                for j in i + 1..cur.len() {
                    cur[j] = 0;
                }
                break;
            }
        }
    }
}

fn random_text(rng: &mut Rng, max: usize) -> String {
    let n = rng.below(max as u64 + 1) as usize;
    let mut s = String::new();
    while s.len() < n {
        match rng.below(10) {
            0 | 1 => s.push('\n'),
            2 => s.push_str("\r\n"),
            3 => s.push('\t'),
            4 => s.push(char::from_u32(0x80 + rng.below(0x700) as u32).unwrap_or('é')),
            5 => s.push(char::from_u32(0x4e00 + rng.below(0x1000) as u32).unwrap_or('中')),
            6 => s.push('😀'),
            _ => s.push((b'a' + rng.below(26) as u8) as char),
        }
    }
    s
}

fn check_texts(texts: &[String], rep: &mut Report) {
    let reqs: Vec<String> = texts
        .iter()
        .map(|t| {
            let offs: Vec<String> = offsets_for(t).iter().map(|o| o.to_string()).collect();
            format!("C25 some {} {}", lean::hex(t.as_bytes()), offs.join(","))
        })
        .collect();
    let answers = lean::ask(&reqs);
    for (t, model) in texts.iter().zip(answers.iter()) {
        let offsets = offsets_for(t);
        let got = impl_all(t, &offsets);
        let got_s = fmt_all(&got);
        let bytes = t.as_bytes();
        let nl = bytes.iter().filter(|&&b| b == b'\n').count();
        rep.case(if nl > 0 && bytes.len() > nl { Some(lean::hex(bytes)) } else { None });
        rep.hit(&format!("newlines={}", nl.min(4)));
        if rep.evaluations % 9973 == 1 {
            rep.sample(json!({"text_hex": lean::hex(bytes), "line:col per offset": got_s}));
        }
        if &got_s != model {
            rep.disagree(json!({"text_hex": lean::hex(bytes)}), json!(got_s), json!(model));
        }
        for (&off, r) in offsets.iter().zip(got.iter()) {
            let want = oracle(bytes, off);
            match r {
                Ok(p) if *p == want => {}
                other => rep.oracle_fail(
                    "line_col",
                    json!({"text_hex": lean::hex(bytes), "offset": off}),
                    json!(format!("{:?}", other)),
                    json!(format!("{:?}", want)),
                    "line_col differs from (newlines before offset, offset - line start)",
                ),
            }
        }
    }
}

/// Render real diagnostics and compare the `--> at f:L:C` header with the 1-based
/// position of the range start.
fn check_headers(texts: &[String], rep: &mut Report) {
    let interner = interner::Interner::default();
    let mut reqs = vec![];
    let mut cases = vec![];
    for t in texts {
        let parsed = catch_unwind(AssertUnwindSafe(|| {
            let tokens = lexer::lex(t);
            let parse = parser::parse_source_file(&tokens, t);
            parse.errors().to_vec()
        }));
        let Ok(errors) = parsed else {
            rep.hit("header:parser-panicked(C23)");
            continue;
        };
        let idx = LineIndex::new(t);
        for e in errors.into_iter().take(4) {
            let d = diagnostics::Diagnostic::from_syntax(e);
            let range = d.range();
            let start = u32::from(range.start()) as usize;
            let lines = catch_unwind(AssertUnwindSafe(|| {
                d.display("f.capy", t, std::path::Path::new("/nonexistent"), &interner, &idx, false)
            }));
            let Ok(lines) = lines else {
                rep.hit("header:display-panicked(C06)");
                continue;
            };
            let hdr = lines.iter().find_map(|l| {
                let l = l.trim_start();
                let rest = l.strip_prefix("--> at ")?;
                let mut it = rest.rsplitn(3, ':');
                let c = it.next()?.parse::<u32>().ok()?;
                let l = it.next()?.parse::<u32>().ok()?;
                Some((l, c))
            });
            reqs.push(format!("C25 header {} {}", lean::hex(t.as_bytes()), start));
            cases.push((t.clone(), start, hdr));
        }
    }
    let answers = lean::ask(&reqs);
    for ((t, start, hdr), model) in cases.into_iter().zip(answers) {
        rep.case(Some(format!("hdr:{}:{}", lean::hex(t.as_bytes()), start)));
        rep.hit("header:rendered");
        rep.traces_validated += 1;
        let got = hdr.map(|(l, c)| format!("{l} {c}")).unwrap_or("NO-HEADER".into());
        if got != model {
            rep.disagree(json!({"text_hex": lean::hex(t.as_bytes()), "range_start": start}), json!(got), json!(model));
        }
        if start <= t.len() {
            let (l, c) = oracle(t.as_bytes(), start);
            let want = format!("{} {}", l + 1, c + 1);
            if got != want {
                rep.oracle_fail(
                    "display_header",
                    json!({"text_hex": lean::hex(t.as_bytes()), "range_start": start}),
                    json!(got),
                    json!(want),
                    "rendered header is not the 1-based position of the range start",
                );
            }
        }
    }
}

pub fn run(tier: &str, seed: u64, widen: bool) -> Report {
    let max_len = if tier == "thorough" { 8 } else { 6 };
    let mut rep = Report::new(
        "C25",
        "line_index::LineIndex::{new,line_col} + Diagnostic::display header vs Lean model CapyV.LineIndex",
        &format!("all strings of <= {max_len} symbols over {{a,\\n,\\r,\\t,é}} x every byte offset (exhaustive), plus seeded random UTF-8 texts up to 64 KiB x every offset (sampled offsets above 4 KiB), plus headers of real rendered syntax diagnostics; non-trivial = text has a newline and a non-newline byte; distinct by text"),
    );
    let mut texts = vec![];
    enumerate(max_len, &mut texts);
    rep.exhaustive = true;
    for chunk in texts.chunks(50_000) {
        check_texts(chunk, &mut rep);
    }
    let mut rng = Rng::new(seed);
    let n_random = if widen { 4000 } else if tier == "thorough" { 1500 } else { 300 };
    let mut rtexts = vec![];
    for i in 0..n_random {
        let max = if i % 50 == 0 { 65536 } else if i % 5 == 0 { 2000 } else { 64 };
        rtexts.push(random_text(&mut rng, max));
    }
    check_texts(&rtexts, &mut rep);
    // diagnostics headers: broken programs over a syntax-ish alphabet
    let pieces = ["a", " ", "\n", "\r\n", "\t", "é", "(", ")", "{", "}", "::", ":=", "5", "+", ";", "\"", "//", ",", "."];
    let n_hdr = if widen { 20000 } else if tier == "thorough" { 6000 } else { 1500 };
    let mut htexts = vec![];
    for _ in 0..n_hdr {
        let n = 1 + rng.below(14);
        let mut s = String::new();
        for _ in 0..n {
            s.push_str(*rng.pick(&pieces[..]));
        }
        htexts.push(s);
    }
    check_headers(&htexts, &mut rep);
    check_cli_positions(&mut rep, &mut rng, if widen { 400 } else if tier == "thorough" { 160 } else { 40 });
    rep
}

/// The whole path from the file on disk to the printed `--> at file:line:col`: programs with ONE type
/// error at a known byte offset, written with LF, CRLF or mixed line ends, blank lines, tabs and
/// multi-byte characters before the error, compiled by the real CLI. The position printed for the
/// type error must be the 1-based line and column of that offset IN THE FILE AS WRITTEN (seeded
/// change C25_3: the text was normalised before parsing while the index was built from the raw file).
fn check_cli_positions(rep: &mut Report, rng: &mut Rng, n: usize) {
    use crate::e2e::{self, Program};
    if !e2e::available() {
        rep.notes.push("capy CLI binary missing: CLI position stream skipped".into());
        return;
    }
    let mut cases = vec![];
    for _ in 0..n {
        let style = rng.below(3); // 0 LF, 1 CRLF, 2 mixed
        let mut eol = |rng: &mut Rng| -> &'static str {
            match style {
                0 => "\n",
                1 => "\r\n",
                _ => {
                    if rng.chance(1, 2) {
                        "\r\n"
                    } else {
                        "\n"
                    }
                }
            }
        };
        let mut t = String::from("core :: #mod(\"core\");");
        t.push_str(eol(rng));
        for k in 0..rng.below(4) {
            match rng.below(4) {
                0 => {}
                1 => t.push_str("// é ü — comment"),
                2 => t.push_str("\t// tab"),
                _ => t.push_str(&format!("K{k} :: 5;")),
            }
            t.push_str(eol(rng));
        }
        t.push_str("main :: () {");
        t.push_str(eol(rng));
        for _ in 0..rng.below(3) {
            t.push_str("    core.println(\"é\");");
            t.push_str(eol(rng));
        }
        for _ in 0..rng.below(5) {
            t.push(if rng.chance(1, 4) { '\t' } else { ' ' });
        }
        t.push_str("x : i32 =");
        for _ in 0..1 + rng.below(3) {
            t.push(' ');
        }
        let at = t.len();
        t.push_str("true;");
        t.push_str(eol(rng));
        t.push_str("}");
        if rng.chance(2, 3) {
            t.push_str(eol(rng));
        }
        cases.push((t, at, style));
    }
    let progs: Vec<Program> = cases.iter().map(|c| Program::single(&c.0)).collect();
    let outs = e2e::run_all(&progs, e2e::Limits::default());
    for ((t, at, style), out) in cases.iter().zip(outs.iter()) {
        rep.case(Some(format!("cli:{}:{}", lean::hex(t.as_bytes()), at)));
        rep.hit(["cli-position:lf", "cli-position:crlf", "cli-position:mixed"][*style as usize]);
        rep.traces_validated += 1;
        // the first position printed after an `error` line
        let mut seen_error = false;
        let mut got = None;
        for l in out.compile_out.lines() {
            let l = l.trim_start();
            if l.starts_with("error") {
                seen_error = true;
            }
            if seen_error {
                if let Some(rest) = l.strip_prefix("--> at ") {
                    let mut it = rest.trim_end().rsplitn(3, ':');
                    let c = it.next().and_then(|x| x.trim().parse::<u32>().ok());
                    let ln = it.next().and_then(|x| x.parse::<u32>().ok());
                    if let (Some(ln), Some(c)) = (ln, c) {
                        got = Some((ln, c));
                        break;
                    }
                }
            }
        }
        let (l, c) = oracle(t.as_bytes(), *at);
        let want = format!("{} {}", l + 1, c + 1);
        let gots = got.map(|(l, c)| format!("{l} {c}")).unwrap_or_else(|| format!("NO-POSITION (built={})", out.built));
        if gots != want {
            let ends = ["lf", "crlf", "mixed"][*style as usize];
            rep.oracle_fail(
                "cli_position",
                json!({"stream": "cli-positions", "text_hex": lean::hex(t.as_bytes()), "offset": at, "line_ends": ends}),
                json!(gots),
                json!(want),
                "the position the CLI prints for a type error is not the line and column of the erroneous expression in the file as written",
            );
        }
    }
}

pub fn replay(input: &serde_json::Value) -> String {
    let hexs = input["text_hex"].as_str().unwrap_or("-");
    let bytes: Vec<u8> = if hexs == "-" { vec![] } else {
        (0..hexs.len() / 2).map(|i| u8::from_str_radix(&hexs[2 * i..2 * i + 2], 16).unwrap()).collect()
    };
    let text = String::from_utf8_lossy(&bytes).to_string();
    let off = input["offset"].as_u64().or(input["range_start"].as_u64()).unwrap_or(0) as usize;
    let imp = impl_all(&text, &[off]);
    let model = lean::ask(&[format!("C25 linecol {} {}", hexs, off)]);
    let spec = oracle(text.as_bytes(), off.min(text.len()));
    let ok = matches!(&imp[0], Ok(p) if *p == spec);
    format!("implementation: {:?}\nmodel: {}\nspec: {:?}\n{}", imp[0], model[0], spec, if ok { "AGREE" } else { "SPEC-MISMATCH" })
}
