//! C15 — worker process: runs the real front end on one program per request line and answers
//! one JSON line. A separate process so that a non-terminating analysis (`get_const` follows
//! finished cyclic globals without a visited set) is an *outcome* (`hang`) of the parent's
//! deadline, not a stuck harness.
use crate::frontend;
use crate::ty;
use hir::common::Ty;
use serde_json::{json, Value};
use std::io::{BufRead, BufReader, Write};
use std::process::{Child, ChildStdin, Command, Stdio};
use std::sync::mpsc::{channel, Receiver};
use std::time::Duration;

/// What the front end did with one program.
#[derive(Clone, Debug, Default, PartialEq)]
pub struct Obs {
    /// diagnostic kinds (`ty:ArraySizeNotConst`, `lower:UndefinedRef`, …) in emission order
    pub kinds: Vec<String>,
    /// every concrete array type that exists after inference: (length, element type s-expression)
    pub arrays: Vec<(u64, String)>,
    /// every enum type: (variant name, discriminant) list
    pub enums: Vec<Vec<(String, u64)>>,
    pub panic: Option<String>,
    pub hang: bool,
}

impl Obs {
    pub fn to_json(&self) -> Value {
        json!({"kinds": self.kinds, "arrays": self.arrays, "enums": self.enums, "panic": self.panic, "hang": self.hang})
    }
    pub fn from_json(v: &Value) -> Obs {
        Obs {
            kinds: v["kinds"].as_array().map(|a| a.iter().map(|s| s.as_str().unwrap_or("").to_string()).collect()).unwrap_or_default(),
            arrays: v["arrays"]
                .as_array()
                .map(|a| a.iter().map(|p| (p[0].as_u64().unwrap_or(0), p[1].as_str().unwrap_or("").to_string())).collect())
                .unwrap_or_default(),
            enums: v["enums"]
                .as_array()
                .map(|a| {
                    a.iter()
                        .map(|e| {
                            e.as_array()
                                .map(|vs| vs.iter().map(|p| (p[0].as_str().unwrap_or("").to_string(), p[1].as_u64().unwrap_or(0))).collect())
                                .unwrap_or_default()
                        })
                        .collect()
                })
                .unwrap_or_default(),
            panic: v["panic"].as_str().map(|s| s.to_string()),
            hang: v["hang"].as_bool().unwrap_or(false),
        }
    }
    pub fn has(&self, kind: &str) -> bool {
        self.kinds.iter().any(|k| k == kind)
    }
    pub fn count(&self, kind: &str) -> usize {
        self.kinds.iter().filter(|k| *k == kind).count()
    }
    /// lengths of the arrays whose element type is `elem` (s-expression)
    pub fn lens_of(&self, elem: &str) -> Vec<u64> {
        let mut v: Vec<u64> = self.arrays.iter().filter(|(_, e)| e == elem).map(|(n, _)| *n).collect();
        v.sort();
        v.dedup();
        v
    }
}

/// In-process analysis (used by the worker; panics caught by `with_analysis`).
pub fn analyse(files: Vec<(String, String)>) -> Obs {
    let r = frontend::with_analysis(files, Some("main".into()), true, |a| {
        let mut arrays = vec![];
        let mut enums = vec![];
        for t in a.tys.all_tys() {
            match t.as_ref() {
                Ty::ConcreteArray { size, sub_ty } => arrays.push((*size, ty::sexp(sub_ty))),
                Ty::Enum { variants, .. } => {
                    let mut vs = vec![];
                    for v in variants {
                        if let Ty::EnumVariant { variant_name, discriminant, .. } = v.as_ref() {
                            vs.push((a.interner.lookup(variant_name.0).to_string(), *discriminant));
                        }
                    }
                    enums.push(vs);
                }
                _ => {}
            }
        }
        arrays.sort();
        arrays.dedup();
        enums.sort();
        enums.dedup();
        (a.kinds(), arrays, enums)
    });
    match r {
        Ok((kinds, arrays, enums)) => Obs { kinds, arrays, enums, panic: None, hang: false },
        Err(msg) => Obs { panic: Some(msg.chars().take(200).collect()), ..Default::default() },
    }
}

fn files_of(v: &Value) -> Vec<(String, String)> {
    v["files"]
        .as_array()
        .map(|a| a.iter().map(|p| (p[0].as_str().unwrap_or("").to_string(), p[1].as_str().unwrap_or("").to_string())).collect())
        .unwrap_or_default()
}

/// `CVH_C15_WORKER=1 cvh C15`: request lines on stdin, answer lines on stdout.
pub fn worker_main() -> ! {
    let stdin = std::io::stdin();
    let stdout = std::io::stdout();
    for line in stdin.lock().lines() {
        let Ok(line) = line else { break };
        if line.trim().is_empty() {
            continue;
        }
        let v: Value = serde_json::from_str(&line).unwrap_or(Value::Null);
        // hir_ty prints with println! on some paths ("not const …", "local mutable"): answers
        // are recognised by their prefix
        let obs = analyse(files_of(&v));
        let mut o = stdout.lock();
        let _ = writeln!(o, "\n@@C15 {}", obs.to_json());
        let _ = o.flush();
    }
    std::process::exit(0)
}

pub struct Worker {
    child: Child,
    stdin: ChildStdin,
    rx: Receiver<String>,
    pub deadline: Duration,
    pub restarts: u64,
}

impl Worker {
    pub fn spawn(deadline: Duration) -> Worker {
        let exe = std::env::current_exe().expect("current exe");
        let mut child = Command::new(exe)
            .arg("C15")
            .env("CVH_C15_WORKER", "1")
            .stdin(Stdio::piped())
            .stdout(Stdio::piped())
            .stderr(Stdio::null())
            .spawn()
            .expect("spawn C15 worker");
        let stdin = child.stdin.take().unwrap();
        let stdout = child.stdout.take().unwrap();
        let (tx, rx) = channel();
        std::thread::spawn(move || {
            for line in BufReader::new(stdout).lines() {
                let Ok(line) = line else { break };
                if let Some(rest) = line.strip_prefix("@@C15 ") {
                    if tx.send(rest.to_string()).is_err() {
                        break;
                    }
                }
            }
        });
        Worker { child, stdin, rx, deadline, restarts: 0 }
    }

    fn restart(&mut self) {
        let _ = self.child.kill();
        let _ = self.child.wait();
        let d = self.deadline;
        let n = self.restarts + 1;
        *self = Worker::spawn(d);
        self.restarts = n;
    }

    /// One program, with the deadline; a worker that does not answer in time is killed
    /// (`hang`), one that dies is reported as a panic (abort / stack overflow).
    pub fn run(&mut self, files: &[(String, String)]) -> Obs {
        let req = json!({ "files": files }).to_string();
        if writeln!(self.stdin, "{req}").and_then(|_| self.stdin.flush()).is_err() {
            self.restart();
            if writeln!(self.stdin, "{req}").and_then(|_| self.stdin.flush()).is_err() {
                return Obs { panic: Some("worker unavailable".into()), ..Default::default() };
            }
        }
        match self.rx.recv_timeout(self.deadline) {
            Ok(line) => serde_json::from_str::<Value>(&line).map(|v| Obs::from_json(&v)).unwrap_or_else(|_| Obs {
                panic: Some("unparsable worker answer".into()),
                ..Default::default()
            }),
            Err(std::sync::mpsc::RecvTimeoutError::Timeout) => {
                self.restart();
                Obs { hang: true, ..Default::default() }
            }
            Err(std::sync::mpsc::RecvTimeoutError::Disconnected) => {
                self.restart();
                Obs { panic: Some("worker process died (abort / stack overflow)".into()), ..Default::default() }
            }
        }
    }
}

impl Drop for Worker {
    fn drop(&mut self) {
        let _ = self.child.kill();
        let _ = self.child.wait();
    }
}

/// A pool of workers: programs are independent, so they are analysed in parallel.
pub fn run_all(programs: &[Vec<(String, String)>], deadline: Duration, threads: usize) -> Vec<Obs> {
    let n = programs.len();
    let threads = threads.max(1).min(n.max(1));
    let next = std::sync::atomic::AtomicUsize::new(0);
    let confirmed_hangs = std::sync::atomic::AtomicUsize::new(0);
    let out: Vec<std::sync::Mutex<Option<Obs>>> = (0..n).map(|_| std::sync::Mutex::new(None)).collect();
    std::thread::scope(|s| {
        for _ in 0..threads {
            s.spawn(|| {
                let mut w = Worker::spawn(deadline);
                loop {
                    let i = next.fetch_add(1, std::sync::atomic::Ordering::SeqCst);
                    if i >= n {
                        break;
                    }
                    let mut o = w.run(&programs[i]);
                    if o.hang && confirmed_hangs.load(std::sync::atomic::Ordering::SeqCst) < 3 {
                        // a loaded machine is not a hang: confirm the first few with a long deadline
                        let mut slow = Worker::spawn(deadline * 5);
                        o = slow.run(&programs[i]);
                        if o.hang {
                            confirmed_hangs.fetch_add(1, std::sync::atomic::Ordering::SeqCst);
                        }
                    }
                    *out[i].lock().unwrap() = Some(o);
                }
            });
        }
    });
    out.into_iter().map(|m| m.into_inner().unwrap().unwrap_or_default()).collect()
}
