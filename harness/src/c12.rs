//! C12 (and the machinery shared with C13) — the type relations of `hir::common::Ty`.
//!
//! Correspondence: the real `Ty::{can_fit_into, can_cast_to, is_weak_replaceable_by,
//! is_functionally_equivalent_to, has_semantics_of, might_be_weak, is_zero_sized, max}` on ordered
//! pairs of types vs the Lean model `CapyV.Ty.*` (`lean/CapyV/Model/TyRel.lean`).
//! Oracle (C12): the five laws of the property evaluated on the implementation's own answers.
use crate::lean;
use crate::report::Report;
use crate::rng::Rng;
use crate::ty::{self, T};
use hir::common::{FileName, MemberTy, NaiveLambdaLoc, NaiveLoc, ParamTy, Ty};
use interner::Key;
use la_arena::{Idx, RawIdx};
use serde_json::json;
use std::collections::hash_map::DefaultHasher;
use std::hash::{Hash, Hasher};
use std::panic::{catch_unwind, AssertUnwindSafe};

// ---------------------------------------------------------------------------------------------
// domain

/// Types of the correspondence domain. Every nominal uid names exactly one definition
/// (as in the checker), except for the types in `incoherent`.
pub struct Domain {
    pub d0: Vec<T>,
    pub nominal: Vec<T>,
    pub d1: Vec<T>,
    /// every registered enum (the explicit `ENUM_MAP` sent to the model)
    pub enums: Vec<T>,
    /// deliberately ill-formed: a uid reused for a different definition
    pub incoherent: Vec<T>,
    next_uid: u32,
}

fn mem(n: u32, t: T) -> MemberTy {
    MemberTy { name: ty::name(n), ty: t }
}

fn variant(enum_uid: u32, k: u32, uid: u32, sub: T) -> T {
    Ty::EnumVariant { enum_uid, variant_name: ty::name(200 + k), uid, sub_ty: sub, discriminant: k as u64 }.into()
}

fn npf(n: u32) -> T {
    let loc = NaiveLambdaLoc {
        file: FileName(Key::from_raw(50)),
        expr: Idx::from_raw(RawIdx::from(n)),
        lambda: Idx::from_raw(RawIdx::from(n)),
    };
    Ty::NaivePolymorphicFunction { fn_loc: NaiveLoc::Lambda(loc) }.into()
}

fn cfn_comptime(t: T, r: T, lambda: u32) -> T {
    let loc = NaiveLambdaLoc {
        file: FileName(Key::from_raw(50)),
        expr: Idx::from_raw(RawIdx::from(lambda)),
        lambda: Idx::from_raw(RawIdx::from(lambda)),
    }
    .make_concrete(None);
    Ty::ConcreteFunction {
        param_tys: vec![ParamTy { ty: t, comptime: Some(0), varargs: false, impossible_to_differentiate: false }],
        return_ty: r,
        fn_loc: loc,
    }
    .into()
}

impl Domain {
    fn fresh(&mut self) -> u32 {
        self.next_uid += 1;
        self.next_uid
    }
    fn enum_of(&mut self, payloads: &[T]) -> T {
        let uid = self.fresh();
        let e = ty::enumm(uid, payloads, None);
        self.enums.push(e);
        e
    }

    pub fn build() -> Domain {
        let mut d = Domain { d0: vec![], nominal: vec![], d1: vec![], enums: vec![], incoherent: vec![], next_uid: 100 };
        let mut d0 = ty::primitives();
        d0.extend(ty::weak_primitives());
        d0.push(Ty::Unknown.into());
        d0.push(Ty::AlwaysJumps.into());
        d0.push(Ty::NotYetResolved.into());
        d0.push(Ty::File(FileName(Key::from_raw(7))).into());
        d.d0 = d0;

        let i32_ = ty::i(32);
        let f32_ = ty::f(32);
        let void: T = Ty::Void.into();
        // two structurally identical named structs, one different, one empty
        let s1 = ty::strukt(1, &[i32_]);
        let s2 = ty::strukt(2, &[i32_]);
        let s3 = ty::strukt(3, &[f32_]);
        let s_empty = ty::strukt(4, &[]);
        // duplicate member names: the HashMap built from the expected members keeps the last one
        let s_dup: T = Ty::ConcreteStruct { uid: 5, members: vec![mem(100, i32_), mem(100, f32_)] }.into();
        let as_dup: T = Ty::AnonStruct { members: vec![mem(100, ty::u(0)), mem(100, ty::f(0))] }.into();
        let as_dup2: T = Ty::AnonStruct { members: vec![mem(100, ty::f(0)), mem(100, ty::f(0))] }.into();
        let s2m = ty::strukt(6, &[i32_, f32_]);
        let as2m_swapped: T = Ty::AnonStruct { members: vec![mem(101, ty::f(0)), mem(100, ty::u(0))] }.into();
        let as1 = ty::astruct(&[i32_]);
        let as1w = ty::astruct(&[ty::u(0)]);
        let as_other_name: T = Ty::AnonStruct { members: vec![mem(105, i32_)] }.into();
        // distinct wrappers
        let d1 = ty::dist(11, i32_);
        let d2 = ty::dist(12, i32_);
        let d3 = ty::dist(13, f32_);
        let d4 = ty::dist(14, s1);
        let d5 = ty::dist(15, d1);
        let d6 = ty::dist(16, void);
        let d7 = ty::dist(17, ty::opt(i32_));
        let d8 = ty::dist(18, ty::u(8));
        // two enums with identical payloads
        let e1 = ty::enumm(21, &[i32_, void, s1], None);
        let e2 = ty::enumm(22, &[i32_, void, s1], None);
        let e3 = ty::enumm(23, &[s2, s_empty], None);
        d.enums.extend([e1, e2, e3]);
        let mut nominal = vec![s1, s2, s3, s_empty, s_dup, as_dup, as_dup2, s2m, as2m_swapped, as1, as1w, as_other_name,
            d1, d2, d3, d4, d5, d6, d7, d8, e1, e2, e3];
        for e in [e1, e2, e3] {
            nominal.extend(ty::variants_of(e));
        }
        // variants whose enum is NOT in ENUM_MAP: `max` of two of them panics (`unwrap` on `None`)
        nominal.push(variant(99, 0, 9990, void));
        nominal.push(variant(99, 1, 9991, i32_));
        nominal.push(ty::fnptr(&[i32_], void));
        nominal.push(ty::cfn(&[i32_], void, 1));
        nominal.push(cfn_comptime(Ty::Type.into(), void, 2));
        nominal.push(npf(3));
        d.nominal = nominal;
        // deliberately incoherent: uid 11 / 1 / 21*16+1 reused with another definition
        d.incoherent = vec![ty::dist(11, ty::i(64)), ty::strukt(1, &[f32_]), variant(21, 0, 21 * 16 + 1, f32_)];

        // one constructor layer over everything so far
        let pool: Vec<T> = d.d0.iter().chain(d.nominal.iter()).copied().collect();
        let mut d1v = vec![];
        let str_: T = Ty::String.into();
        for &t in &pool {
            d1v.push(ty::arr(1, t));
            d1v.push(ty::arr(2, t));
            d1v.push(ty::aarr(1, t));
            d1v.push(ty::aarr(2, t));
            d1v.push(ty::slice(t));
            d1v.push(ty::ptr(false, t));
            d1v.push(ty::ptr(true, t));
            d1v.push(ty::opt(t));
            let (u1, u2) = (d.fresh(), d.fresh());
            d1v.push(ty::dist(u1, t));
            d1v.push(ty::dist(u2, t));
            let (u1, u2) = (d.fresh(), d.fresh());
            d1v.push(ty::strukt(u1, &[t]));
            d1v.push(ty::strukt(u2, &[t]));
            d1v.push(ty::astruct(&[t]));
            d1v.push(ty::eu(str_, t));
            d1v.push(ty::eu(t, i32_));
            d1v.push(ty::fnptr(&[t], t));
            let e = d.enum_of(&[t, void]);
            d1v.push(e);
            d1v.push(ty::variants_of(e)[0]);
        }
        d.d1 = d1v;
        d
    }

    pub fn enum_map(&self) -> std::collections::BTreeMap<u32, String> {
        self.enums
            .iter()
            .map(|e| match e.as_ref() {
                Ty::Enum { uid, .. } => (*uid, ty::sexp(e)),
                _ => unreachable!(),
            })
            .collect()
    }

    /// one random constructor over `t` (depth + 1); nominal uids are fresh (coherent)
    pub fn wrap(&mut self, rng: &mut Rng, t: T, other: T) -> T {
        match rng.below(14) {
            0 => ty::arr(1 + rng.below(2), t),
            1 => ty::aarr(1 + rng.below(2), t),
            2 => ty::slice(t),
            3 => ty::ptr(rng.chance(1, 2), t),
            4 | 5 => ty::opt(t),
            6 => { let u = self.fresh(); ty::dist(u, t) }
            7 => { let u = self.fresh(); ty::strukt(u, &[t, other]) }
            8 => ty::astruct(&[t, other]),
            9 => ty::eu(other, t),
            10 => ty::eu(t, other),
            11 => ty::fnptr(&[t], other),
            12 => { let e = self.enum_of(&[t, other]); e }
            _ => { let e = self.enum_of(&[other, t]); ty::variants_of(e)[1] }
        }
    }
}

// ---------------------------------------------------------------------------------------------
// the implementation's answers

#[derive(Clone, PartialEq, Debug)]
pub enum MaxRes {
    Panic,
    None,
    Some(Ty),
}

pub struct Rel {
    pub fit: Option<bool>,
    pub cast: Option<bool>,
    pub weak: Option<bool>,
    pub fe0: Option<bool>,
    pub fe1: Option<bool>,
    pub sem: Option<bool>,
    pub mbw: Option<bool>,
    pub zs: Option<bool>,
    pub max: MaxRes,
}

fn guard<R>(f: impl FnOnce() -> R) -> Option<R> {
    catch_unwind(AssertUnwindSafe(f)).ok()
}

pub fn impl_max(a: &Ty, b: &Ty) -> MaxRes {
    match guard(|| a.max(b)) {
        None => MaxRes::Panic,
        Some(None) => MaxRes::None,
        Some(Some(m)) => MaxRes::Some(m),
    }
}

pub fn impl_fit(a: &Ty, b: &Ty) -> Option<bool> {
    guard(|| a.can_fit_into(b))
}

pub fn impl_rel(a: &Ty, b: &Ty) -> Rel {
    Rel {
        fit: impl_fit(a, b),
        cast: guard(|| a.can_cast_to(b)),
        weak: guard(|| a.is_weak_replaceable_by(b)),
        fe0: guard(|| a.is_functionally_equivalent_to(b, false)),
        fe1: guard(|| a.is_functionally_equivalent_to(b, true)),
        sem: guard(|| a.has_semantics_of(b)),
        mbw: guard(|| a.might_be_weak()),
        zs: guard(|| a.is_zero_sized()),
        max: impl_max(a, b),
    }
}

fn bit(x: Option<bool>) -> char {
    match x {
        Some(true) => '1',
        Some(false) => '0',
        None => 'P',
    }
}

pub fn max_code(m: &MaxRes, a: &Ty, b: &Ty) -> String {
    match m {
        MaxRes::Panic => "P".into(),
        MaxRes::None => "N".into(),
        MaxRes::Some(m) => {
            if m == a { "A".into() } else if m == b { "B".into() } else { ty::sexp(m) }
        }
    }
}

pub fn rel_code(r: &Rel, a: &Ty, b: &Ty) -> String {
    let mut s = String::new();
    for x in [r.fit, r.cast, r.weak, r.fe0, r.fe1, r.sem, r.mbw, r.zs] {
        s.push(bit(x));
    }
    s.push(' ');
    s.push_str(&max_code(&r.max, a, b));
    s
}

// ---------------------------------------------------------------------------------------------
// classification helpers

pub fn head(t: &Ty) -> &'static str {
    match t {
        Ty::IInt(0) | Ty::UInt(0) | Ty::Float(0) => "weaknum",
        Ty::IInt(_) | Ty::UInt(_) | Ty::Float(_) => "num",
        Ty::Pointer { .. } | Ty::RawPtr { .. } => "ptr",
        Ty::AnonArray { .. } => "aarr",
        Ty::ConcreteArray { .. } => "arr",
        Ty::Slice { .. } | Ty::RawSlice => "slice",
        Ty::ConcreteStruct { .. } => "struct",
        Ty::AnonStruct { .. } => "astruct",
        Ty::Distinct { .. } => "dist",
        Ty::Enum { .. } => "enum",
        Ty::EnumVariant { .. } => "variant",
        Ty::Optional { .. } => "opt",
        Ty::Nil => "nil",
        Ty::ErrorUnion { .. } => "eu",
        Ty::FunctionPointer { .. } | Ty::ConcreteFunction { .. } | Ty::NaivePolymorphicFunction { .. } => "fn",
        Ty::Unknown | Ty::NotYetResolved | Ty::AlwaysJumps => "marker",
        Ty::Any => "any",
        Ty::Type => "type",
        _ => "prim",
    }
}

fn is_composite(t: &Ty) -> bool {
    !matches!(head(t), "num" | "weaknum" | "prim" | "marker" | "any" | "type" | "nil")
}

/// why `a` is functionally equivalent to `b` and yet does not fit: the first nominal mismatch
fn equiv_gap(a: &Ty, b: &Ty) -> String {
    match (a, b) {
        (Ty::ConcreteStruct { uid: x, .. }, Ty::ConcreteStruct { uid: y, .. }) if x != y => "struct_uid".into(),
        (Ty::Distinct { uid: x, .. }, Ty::Distinct { uid: y, .. }) if x != y => "distinct_uid".into(),
        (Ty::EnumVariant { uid: x, .. }, Ty::EnumVariant { uid: y, .. }) if x != y => "variant_uid".into(),
        (Ty::AnonStruct { members }, Ty::ConcreteStruct { .. }) => {
            let mut names: Vec<_> = members.iter().map(|m| m.name).collect();
            names.sort_by_key(|n| n.0.to_raw());
            names.dedup();
            if names.len() != members.len() { "duplicate_member_names".into() } else { member_gap(a, b) }
        }
        (Ty::ConcreteArray { sub_ty: x, .. } | Ty::AnonArray { sub_ty: x, .. }, Ty::ConcreteArray { sub_ty: y, .. })
        | (Ty::Optional { sub_ty: x }, Ty::Optional { sub_ty: y }) => equiv_gap(x, y),
        (x, Ty::Distinct { sub_ty: y, .. }) | (x, Ty::Optional { sub_ty: y }) => equiv_gap(x, y),
        (Ty::ErrorUnion { error_ty: e, payload_ty: p }, Ty::ErrorUnion { error_ty: e2, payload_ty: p2 }) => {
            if impl_fit(e, e2) == Some(true) { equiv_gap(p, p2) } else { equiv_gap(e, e2) }
        }
        _ => format!("other:{}/{}", head(a), head(b)),
    }
}

fn member_gap(a: &Ty, b: &Ty) -> String {
    if let (Ty::AnonStruct { members: ms }, Ty::ConcreteStruct { members: ns, .. }) = (a, b) {
        for (m, n) in ms.iter().zip(ns.iter()) {
            if impl_fit(&m.ty, &n.ty) != Some(true) {
                return equiv_gap(&m.ty, &n.ty);
            }
        }
    }
    format!("other:{}/{}", head(a), head(b))
}

/// the branch of `is_weak_replaceable_by` that answered `true` although `can_fit_into` says `false`
fn weak_label(a: &Ty, b: &Ty) -> String {
    match (a, b) {
        (Ty::AnonArray { sub_ty: x, .. }, Ty::ConcreteArray { sub_ty: y, .. })
        | (Ty::AnonArray { sub_ty: x, .. }, Ty::Slice { sub_ty: y }) => {
            if guard(|| x.is_weak_replaceable_by(y)) == Some(true) && impl_fit(x, y) != Some(true) {
                weak_label(x, y)
            } else {
                format!("anon_array_elem_equiv_not_fit:{}", equiv_gap(x, y))
            }
        }
        (Ty::Optional { sub_ty: x }, Ty::Optional { sub_ty: y }) => weak_label(x, y),
        (x, Ty::Distinct { sub_ty: y, .. }) | (x, Ty::Optional { sub_ty: y }) => weak_label(x, y),
        _ => format!("{}->{}", head(a), head(b)),
    }
}

/// `expect_match`'s acceptance of a found type where a concrete type is expected
/// (hir_ty/src/globals.rs): zero-sized values are accepted as `type`, otherwise `can_fit_into`.
pub fn impl_accepts(found: &Ty, expected: &Ty) -> bool {
    (*expected == Ty::Type && guard(|| found.is_zero_sized()) == Some(true)) || impl_fit(found, expected) == Some(true)
}

fn accepts_label(a: &Ty, b: &Ty, m: &Ty, top: bool) -> String {
    // below a constructor only can_fit_into counts (expect_match's `type` rule is top-level)
    let ok = |x: &Ty, m: &Ty| if top { impl_accepts(x, m) } else { impl_fit(x, m) == Some(true) };
    match (a, b, m) {
        (Ty::Optional { sub_ty: x }, Ty::Optional { sub_ty: y }, Ty::Optional { sub_ty: z }) => accepts_label(x, y, z, false),
        (
            Ty::ErrorUnion { error_ty: e1, payload_ty: p1 },
            Ty::ErrorUnion { error_ty: e2, payload_ty: p2 },
            Ty::ErrorUnion { error_ty: e3, payload_ty: p3 },
        ) => {
            if !(impl_fit(e1, e3) == Some(true) && impl_fit(e2, e3) == Some(true)) {
                accepts_label(e1, e2, e3, false)
            } else {
                accepts_label(p1, p2, p3, false)
            }
        }
        (Ty::Distinct { .. }, _, _) | (_, Ty::Distinct { .. }, _) => "distinct_arm".into(),
        (_, _, Ty::Type) if !top => "type_arm_under_constructor".into(),
        _ => {
            let _ = ok;
            format!("{}/{}", head(a), head(b))
        }
    }
}

fn comm_label(a: &Ty, b: &Ty) -> String {
    match (a, b) {
        (Ty::Optional { sub_ty: x }, Ty::Optional { sub_ty: y }) => comm_label(x, y),
        (Ty::ErrorUnion { error_ty: e1, payload_ty: p1 }, Ty::ErrorUnion { error_ty: e2, payload_ty: p2 }) => {
            if impl_max(e1, e2) != impl_max(e2, e1) { comm_label(e1, e2) } else { comm_label(p1, p2) }
        }
        (Ty::Unknown, Ty::AlwaysJumps) | (Ty::AlwaysJumps, Ty::Unknown) => "unknown_vs_always_jumps".into(),
        _ => {
            let (x, y) = if head(a) <= head(b) { (head(a), head(b)) } else { (head(b), head(a)) };
            format!("{x}/{y}")
        }
    }
}

// ---------------------------------------------------------------------------------------------
// the C12 oracle: the five laws, on the implementation's answers

pub fn oracle_c12(a: &Ty, b: &Ty, r: &Rel, coherent: bool, enums_registered: bool, rep: &mut Report) {
    let input = || json!({"a": ty::sexp(a), "b": ty::sexp(b)});
    // a panic is never an acceptable answer (the orphan variants are a harness artefact)
    let panicked = [r.fit, r.cast, r.weak, r.fe0, r.fe1, r.sem, r.mbw, r.zs].iter().any(|x| x.is_none())
        || (r.max == MaxRes::Panic && enums_registered);
    if panicked {
        rep.oracle_fail("panic", input(), json!(rel_code(r, a, b)), json!("no panic"), "a Ty relation panicked on types whose enums are registered");
        return;
    }
    let (fit, cast, weak) = (r.fit.unwrap(), r.cast.unwrap(), r.weak.unwrap());
    if a == b && !fit {
        rep.oracle_fail("fit_refl", input(), json!(false), json!(true), "a type is not accepted where itself is expected");
    }
    if fit && !cast {
        rep.oracle_fail(&format!("fit_imp_cast:{}->{}", head(a), head(b)), input(), json!("fit ∧ ¬cast"), json!("fit → cast"),
            "implicitly accepted but the explicit cast is rejected");
    }
    if weak && !fit {
        rep.oracle_fail(&format!("weak_imp_fit:{}", weak_label(a, b)), input(), json!("weak-replaceable ∧ ¬fit"), json!("weak → fit"),
            "a weak type can be specialised to B but is not accepted where B is expected (the compiler assert!s this in replace_weak_tys / expect_match)");
    }
    if let MaxRes::Some(m) = &r.max {
        if !(impl_accepts(a, m) && impl_accepts(b, m)) {
            rep.oracle_fail(&format!("max_accepts_both:{}", accepts_label(a, b, m, true)), input(), json!(ty::sexp(m)),
                json!("both operands accepted where max is expected"),
                "the common type does not accept one of the two operands");
        }
    }
    if coherent {
        let back = impl_max(b, a);
        if back != r.max && !(back == MaxRes::Panic && !enums_registered) {
            rep.oracle_fail(&format!("max_comm:{}", comm_label(a, b)), input(),
                json!({"max(a,b)": max_code(&r.max, a, b), "max(b,a)": max_code(&back, a, b)}),
                json!("max(a,b) = max(b,a)"), "the common type depends on the order of the operands");
        }
    }
}

// ---------------------------------------------------------------------------------------------
// running pairs

pub type Oracle = fn(&Ty, &Ty, &Rel, bool, bool, &mut Report);

fn key(a: &str, b: &str) -> String {
    let mut h = DefaultHasher::new();
    a.hash(&mut h);
    b.hash(&mut h);
    format!("{:016x}", h.finish())
}

fn mentions_orphan(t: &Ty) -> bool {
    ty::sexp(t).contains("(variant 99 ")
}

/// enum uids mentioned by the variants inside `t` (what `max` may look up in ENUM_MAP)
pub fn enum_uids(t: &Ty, out: &mut std::collections::BTreeSet<u32>) {
    match t {
        Ty::EnumVariant { enum_uid, sub_ty, .. } => {
            out.insert(*enum_uid);
            enum_uids(sub_ty, out);
        }
        Ty::Enum { variants, .. } => variants.iter().for_each(|v| enum_uids(v, out)),
        Ty::AnonArray { sub_ty, .. } | Ty::ConcreteArray { sub_ty, .. } | Ty::Slice { sub_ty } | Ty::Pointer { sub_ty, .. }
        | Ty::Distinct { sub_ty, .. } | Ty::Optional { sub_ty } => enum_uids(sub_ty, out),
        Ty::ErrorUnion { error_ty, payload_ty } => {
            enum_uids(error_ty, out);
            enum_uids(payload_ty, out);
        }
        Ty::AnonStruct { members } | Ty::ConcreteStruct { members, .. } => members.iter().for_each(|m| enum_uids(&m.ty, out)),
        Ty::ConcreteFunction { param_tys, return_ty, .. } | Ty::FunctionPointer { param_tys, return_ty } => {
            param_tys.iter().for_each(|p| enum_uids(&p.ty, out));
            enum_uids(return_ty, out);
        }
        _ => {}
    }
}

pub struct Ctx<'a> {
    pub prop: &'a str,
    /// registered enums by uid (S-expressions)
    pub enums: std::collections::BTreeMap<u32, String>,
    pub incoherent: Vec<T>,
    pub oracle: Oracle,
}

impl Ctx<'_> {
    /// the part of ENUM_MAP that `max` can consult for these types
    pub fn table_for(&self, tys: &[&Ty]) -> String {
        let mut uids = std::collections::BTreeSet::new();
        for t in tys {
            enum_uids(t, &mut uids);
        }
        uids.iter().filter_map(|u| self.enums.get(u).cloned()).collect::<Vec<_>>().join(" | ")
    }
}

fn check_pair(cx: &Ctx, a: T, b: T, sa: &str, sb: &str, model: &str, rep: &mut Report) {
    let r = impl_rel(&a, &b);
    let got = rel_code(&r, &a, &b);
    let nontrivial = a != b && (is_composite(&a) || is_composite(&b));
    rep.case(if nontrivial { Some(key(sa, sb)) } else { None });
    rep.hit(&format!("{}->{}:fit={}", head(&a), head(&b), bit(r.fit)));
    if got != model {
        rep.disagree(json!({"a": sa, "b": sb}), json!(got), json!(model));
    }
    if rep.evaluations % 9973 == 5 {
        rep.sample(json!({"a": sa, "b": sb, "fit cast weak fe0 fe1 sem mbw zs max": got}));
    }
    let coherent = !cx.incoherent.contains(&a) && !cx.incoherent.contains(&b);
    let registered = !(mentions_orphan(&a) || mentions_orphan(&b));
    (cx.oracle)(&a, &b, &r, coherent, registered, rep);
}

/// all ordered pairs rows × cols through one `cross` request per chunk of rows
pub fn run_cross(cx: &Ctx, rows: &[T], cols: &[T], rep: &mut Report) {
    let scols: Vec<String> = cols.iter().map(|t| ty::sexp(t)).collect();
    let cols_s = scols.join(" | ");
    for chunk in rows.chunks(64) {
        let srows: Vec<String> = chunk.iter().map(|t| ty::sexp(t)).collect();
        let mentioned: Vec<&Ty> = chunk.iter().chain(cols.iter()).map(|t| t.as_ref()).collect();
        let req = format!("{} cross {} # {} @ {}", cx.prop, srows.join(" | "), cols_s, cx.table_for(&mentioned));
        let ans = lean::ask(&[req]).pop().unwrap();
        let cells: Vec<&str> = if ans == "?" { vec![] } else { ans.split(';').collect() };
        if ans != "?" && cells.len() != chunk.len() * cols.len() {
            rep.disagree(json!({"op": "cross", "rows": srows.len(), "cols": scols.len()}), json!("n/a"), json!(ans.chars().take(200).collect::<String>()));
            continue;
        }
        for (i, a) in chunk.iter().enumerate() {
            for (j, b) in cols.iter().enumerate() {
                let model = if cells.is_empty() { "?" } else { cells[i * cols.len() + j] };
                check_pair(cx, *a, *b, &srows[i], &scols[j], model, rep);
            }
        }
    }
}

pub fn run_pairs(cx: &Ctx, pairs: &[(T, T)], rep: &mut Report) {
    let sx: Vec<(String, String)> = pairs.iter().map(|(a, b)| (ty::sexp(a), ty::sexp(b))).collect();
    let reqs: Vec<String> = sx
        .iter()
        .zip(pairs.iter())
        .map(|((sa, sb), (a, b))| format!("{} rel {} | {} @ {}", cx.prop, sa, sb, cx.table_for(&[a.as_ref(), b.as_ref()])))
        .collect();
    let answers = lean::ask(&reqs);
    for (((a, b), (sa, sb)), model) in pairs.iter().zip(sx.iter()).zip(answers.iter()) {
        check_pair(cx, *a, *b, sa, sb, model, rep);
    }
}

/// `max(max(a, b), c)`: correspondence only
pub fn run_triples(cx: &Ctx, triples: &[(T, T, T)], rep: &mut Report) {
    let reqs: Vec<String> = triples
        .iter()
        .map(|(a, b, c)| {
            format!("{} max3 {} | {} | {} @ {}", cx.prop, ty::sexp(a), ty::sexp(b), ty::sexp(c), cx.table_for(&[a.as_ref(), b.as_ref(), c.as_ref()]))
        })
        .collect();
    let answers = lean::ask(&reqs);
    for ((a, b, c), model) in triples.iter().zip(answers.iter()) {
        let got = match impl_max(a, b) {
            MaxRes::Panic => "P".to_string(),
            MaxRes::None => "N".to_string(),
            MaxRes::Some(m) => match impl_max(&m, c) {
                MaxRes::Panic => "P".to_string(),
                MaxRes::None => "N".to_string(),
                MaxRes::Some(r) => ty::sexp(&r),
            },
        };
        rep.case(Some(key(&format!("{}{}", ty::sexp(a), ty::sexp(b)), &ty::sexp(c))));
        rep.hit(&format!("max3:{}", if got == "N" { "none" } else if got == "P" { "panic" } else { "some" }));
        if &got != model {
            rep.disagree(json!({"max3": [ty::sexp(a), ty::sexp(b), ty::sexp(c)]}), json!(got), json!(model));
        }
    }
}

/// pairs that must be present in every run (the known findings and their neighbours)
pub fn regression_pairs() -> Vec<(T, T)> {
    let i32_ = ty::i(32);
    let s1 = ty::strukt(1, &[i32_]);
    let s2 = ty::strukt(2, &[i32_]);
    let d1 = ty::dist(11, i32_);
    let d2 = ty::dist(12, i32_);
    let e3v0 = variant(23, 0, 23 * 16 + 1, s2);
    vec![
        (ty::aarr(1, s1), ty::arr(1, s2)),
        (ty::aarr(1, s1), ty::slice(s2)),
        (ty::aarr(1, d1), ty::arr(1, d2)),
        (ty::aarr(1, s1), ty::arr(1, s1)),
        (ty::opt(ty::aarr(1, s1)), ty::opt(ty::arr(1, s2))),
        (ty::f(64), ty::dist(13, ty::f(32))),
        (ty::dist(13, ty::f(32)), ty::f(64)),
        (ty::i(0), ty::dist(18, ty::u(8))),
        (ty::opt(i32_), d1),
        (Ty::Unknown.into(), Ty::AlwaysJumps.into()),
        (s1, e3v0),
        (ty::ptr(false, s1), ty::ptr(false, s2)),
        (ty::opt(Ty::Void.into()), ty::opt(Ty::Type.into())),
        // pointer mutability under an array / slice constructor (seeded change C12_2)
        (ty::aarr(2, ty::ptr(false, i32_)), ty::arr(2, ty::ptr(true, i32_))),
        (ty::aarr(2, ty::ptr(false, i32_)), ty::slice(ty::ptr(true, i32_))),
        (ty::aarr(2, ty::ptr(true, i32_)), ty::arr(2, ty::ptr(false, i32_))),
        (ty::slice(ty::ptr(false, i32_)), ty::slice(ty::ptr(true, i32_))),
        (ty::arr(2, ty::ptr(false, i32_)), ty::arr(2, ty::ptr(true, i32_))),
        (ty::opt(ty::ptr(false, i32_)), ty::opt(ty::ptr(true, i32_))),
        // `.{ … }` literals whose members have a nominal type, where a struct with members of
        // another nominal type of the same structure is expected (seeded change C13_3)
        (ty::astruct(&[d1]), ty::strukt(3, &[d2])),
        (ty::astruct(&[d1, i32_]), ty::strukt(4, &[d2, i32_])),
        (ty::astruct(&[s1, d1]), ty::strukt(5, &[s2, d1])),
        (ty::astruct(&[d1]), ty::strukt(6, &[d1])),
    ]
}

pub fn shared_run(prop: &str, tier: &str, seed: u64, widen: bool, oracle: Oracle, row_filter: fn(&Ty) -> bool, rep: &mut Report) {
    let mut rng = Rng::new(seed);
    let mut dom = Domain::build();
    let thorough = tier == "thorough" || widen;
    let base: Vec<T> = dom.d0.iter().chain(dom.nominal.iter()).chain(dom.incoherent.iter()).copied().collect();
    let mut all: Vec<T> = base.clone();
    if thorough {
        all.extend(dom.d1.iter().copied());
        rep.exhaustive = true;
    } else {
        // quick: every depth-0 / nominal type plus a seeded sample of the one-layer types
        for _ in 0..130 {
            all.push(*rng.pick(&dom.d1));
        }
    }
    let mut seen = std::collections::HashSet::new();
    all.retain(|t| seen.insert(*t));
    // depth-2 pairs: related inner pairs under (often equal) random constructors
    let n2 = if widen { 200_000 } else if thorough { 40_000 } else { 2_500 };
    let d1 = dom.d1.clone();
    let mut pairs2 = regression_pairs();
    for _ in 0..n2 {
        let x = *rng.pick(&d1);
        let y = if rng.chance(1, 3) { x } else if rng.chance(1, 2) { *rng.pick(&d1) } else { *rng.pick(&base) };
        let other = *rng.pick(&base);
        let state = rng.clone();
        let a = dom.wrap(&mut rng, x, other);
        let b = if rng.chance(2, 3) {
            // the same constructor choice for the other side
            let mut replay = state;
            let b = dom.wrap(&mut replay, y, other);
            b
        } else {
            dom.wrap(&mut rng, y, other)
        };
        pairs2.push((a, b));
    }
    let n3 = if widen { 100_000 } else if thorough { 20_000 } else { 1_500 };
    let mut triples = vec![];
    for _ in 0..n3 {
        triples.push((*rng.pick(&all), *rng.pick(&all), *rng.pick(&all)));
    }
    let cx = Ctx { prop, enums: dom.enum_map(), incoherent: dom.incoherent.clone(), oracle };
    let rows: Vec<T> = all.iter().copied().filter(|t| row_filter(t)).collect();
    run_cross(&cx, &rows, &all, rep);
    let pairs2: Vec<(T, T)> = pairs2.into_iter().filter(|(a, _)| row_filter(a)).collect();
    run_pairs(&cx, &pairs2, rep);
    if prop == "C12" {
        run_triples(&cx, &triples, rep);
    }
}

pub fn run(tier: &str, seed: u64, widen: bool) -> Report {
    let mut rep = Report::new(
        "C12",
        "hir::common::Ty::{can_fit_into, can_cast_to, is_weak_replaceable_by, is_functionally_equivalent_to(false|true), has_semantics_of, might_be_weak, is_zero_sized, max} vs Lean model CapyV.Ty.* (Model/TyRel.lean), ENUM_MAP passed explicitly",
        "all ordered pairs over: every primitive, weak {int}/{uint}/{float}, nil, void, unknown/always-jumps/not-yet-resolved markers, a nominal pool (two structurally identical named structs, duplicate-name structs, 8 distinct wrappers, 3 enums (two with identical payloads) and their variants, variants of an unregistered enum, fn pointer / concrete fn / comptime fn / naive polymorphic fn, 3 uid-incoherent types) and (thorough: all, quick: a seeded sample of 130) one-constructor-layer types over all of those (18 constructors each, fresh uids); plus seeded depth-2 pairs (related inner pairs under mostly identical constructors) and seeded triples for max(max(a,b),c). Non-trivial = a != b and at least one side composite/nominal; distinct by (a, b)",
    );
    shared_run("C12", tier, seed, widen, oracle_c12, |_| true, &mut rep);
    rep
}

pub fn replay(input: &serde_json::Value) -> String {
    replay_with(input, oracle_c12, "C12")
}

pub fn replay_with(input: &serde_json::Value, oracle: Oracle, prop: &str) -> String {
    // the types of a failure are rebuilt from the deterministic domain by their S-expression
    let (Some(sa), Some(sb)) = (input["a"].as_str(), input["b"].as_str()) else {
        return "replay: input has no a/b pair".to_string();
    };
    let mut rng = Rng::new(1);
    let mut dom = Domain::build();
    let mut pool: Vec<T> = dom.d0.iter().chain(dom.nominal.iter()).chain(dom.incoherent.iter()).chain(dom.d1.iter()).copied().collect();
    for (a, b) in regression_pairs() {
        pool.push(a);
        pool.push(b);
    }
    let _ = (&mut rng, &mut dom);
    let find = |s: &str| pool.iter().copied().find(|t| ty::sexp(t) == s);
    let (Some(a), Some(b)) = (find(sa), find(sb)) else {
        return format!("replay: types not in the deterministic depth<=1 domain (depth-2 pairs are rebuilt from the seed: ./check {prop} --seed N)");
    };
    let r = impl_rel(&a, &b);
    let cx = Ctx { prop, enums: dom.enum_map(), incoherent: vec![], oracle };
    let model = lean::ask(&[format!("{prop} rel {sa} | {sb} @ {}", cx.table_for(&[a.as_ref(), b.as_ref()]))]).pop().unwrap();
    let mut rep = Report::new(prop, "replay", "replay");
    oracle(&a, &b, &r, true, !(mentions_orphan(&a) || mentions_orphan(&b)), &mut rep);
    let verdict = if rep.oracle_failure_count > 0 {
        format!("SPEC-MISMATCH {}", rep.oracle_failures.iter().map(|f| f["label"].as_str().unwrap_or("").to_string()).collect::<Vec<_>>().join(","))
    } else {
        "spec ok".to_string()
    };
    format!("implementation: {}\nmodel:          {}\nspec:           {}", rel_code(&r, &a, &b), model, verdict)
}
