//! In-process front end (lexer → parser → hir::index → hir::lower → hir_ty) on a set of
//! in-memory files, exactly as `crates/hir_ty/src/tests.rs` and `crates/capy/src/main.rs`
//! drive it (fake file system; comptime blocks evaluated by the real JIT).
//! Every analysis runs on its own thread so that the thread-local tables of `hir`
//! (ENUM_MAP, TYPE_NAMES, GLOBAL_LAMBDAS) start empty, and under `catch_unwind`.
use std::path::Path;

use hir::common::{ComptimeResultMap, FileName, Fqn, Name};
use interner::Interner;
use la_arena::Arena;
use uid_gen::UIDGenerator;

pub struct Analysis<'a> {
    pub interner: &'a Interner,
    pub world_index: &'a hir::WorldIndex,
    pub world_bodies: &'a hir::WorldBodies,
    pub tys: &'a hir_ty::WorldTys,
    pub files: Vec<(FileName, String)>,
    pub syntax_errors: Vec<(FileName, parser::SyntaxError)>,
    pub index_diags: Vec<(FileName, hir::IndexingDiagnostic)>,
    pub lowering_diags: Vec<(FileName, hir::LoweringDiagnostic)>,
    pub ty_diags: Vec<hir_ty::TyDiagnostic>,
    pub any_unsafe: bool,
}

impl<'a> Analysis<'a> {
    pub fn has_errors(&self) -> bool {
        !self.syntax_errors.is_empty()
            || !self.index_diags.is_empty()
            || self.lowering_diags.iter().any(|(_, d)| d.is_error())
            || self.ty_diags.iter().any(|d| d.is_error())
    }
    /// short kind names of all diagnostics, e.g. `ty:Mismatch`, `lower:UndefinedRef`
    pub fn kinds(&self) -> Vec<String> {
        let head = |s: String| s.split(|c: char| c == ' ' || c == '{' || c == '(').next().unwrap_or("").to_string();
        let mut v = vec![];
        for (_, e) in &self.syntax_errors {
            v.push(format!("syntax:{}", head(format!("{:?}", e.kind))));
        }
        for (_, d) in &self.index_diags {
            v.push(format!("index:{}", head(format!("{:?}", d.kind))));
        }
        for (_, d) in &self.lowering_diags {
            v.push(format!("lower:{}", head(format!("{:?}", d.kind))));
        }
        for d in &self.ty_diags {
            v.push(format!("ty:{}", head(format!("{:?}", d.kind))));
        }
        v
    }
}

/// Runs the front end on `files` (name, text); the last file is the root (`main.capy` in the
/// repo's own tests). `entry`: name of the entry point function to validate, if any.
/// `f` runs on the analysis thread. `Err(msg)` = the front end panicked.
pub fn with_analysis<R: Send + 'static>(
    files: Vec<(String, String)>,
    entry: Option<String>,
    track_unsafe: bool,
    f: impl FnOnce(&Analysis) -> R + Send + 'static,
) -> Result<R, String> {
    let handle = std::thread::Builder::new()
        .stack_size(256 * 1024 * 1024)
        .spawn(move || {
            std::panic::catch_unwind(std::panic::AssertUnwindSafe(|| analyze(files, entry, track_unsafe, f)))
        })
        .expect("spawn analysis thread");
    match handle.join() {
        Ok(Ok(r)) => Ok(r),
        Ok(Err(p)) | Err(p) => Err(panic_message(p)),
    }
}

pub fn panic_message(p: Box<dyn std::any::Any + Send>) -> String {
    if let Some(s) = p.downcast_ref::<&str>() {
        s.to_string()
    } else if let Some(s) = p.downcast_ref::<String>() {
        s.clone()
    } else {
        "panic".to_string()
    }
}

fn analyze<R>(
    files: Vec<(String, String)>,
    entry: Option<String>,
    track_unsafe: bool,
    f: impl FnOnce(&Analysis) -> R,
) -> R {
    let mut interner = Interner::default();
    let mut world_index = hir::WorldIndex::default();
    let mut world_bodies = hir::WorldBodies::default();
    let mut uid_gen = UIDGenerator::default();
    let mut syntax_errors = vec![];
    let mut index_diags = vec![];
    let mut lowering_diags = vec![];
    let mut names = vec![];
    for (name, text) in &files {
        let tokens = lexer::lex(text);
        let parse = parser::parse_source_file(&tokens, text);
        let module = FileName(interner.intern(name));
        syntax_errors.extend(parse.errors().iter().map(|e| (module, *e)));
        let tree = parse.into_syntax_tree();
        let root = <ast::Root as ast::AstNode>::cast(tree.root(), &tree).unwrap();
        let (index, d) = hir::index(root, &tree, &mut interner);
        index_diags.extend(d.into_iter().map(|d| (module, d)));
        let (bodies, d) =
            hir::lower(root, &tree, Path::new(name), &index, &mut uid_gen, &mut interner, Path::new(""), true);
        lowering_diags.extend(d.into_iter().map(|d| (module, d)));
        world_index.add_file(module, index);
        world_bodies.add_file(module, bodies);
        names.push((module, text.clone()));
    }
    let root_file = names.last().unwrap().0;
    let entry_point = entry.map(|e| Fqn { file: root_file, name: Name(interner.intern(&e)) });
    let mut comptime_results = ComptimeResultMap::default();
    let mut generic_values = Arena::new();
    let result = {
        let interner_ref = &interner;
        let bodies_ref = &world_bodies;
        hir_ty::InferenceCtx::new(&world_index, &world_bodies, &interner, &mut generic_values, |comptime, tys| {
            if let Some(r) = comptime_results.get(comptime) {
                return r.clone();
            }
            codegen::eval_comptime_blocks(
                codegen::Verbosity::None,
                &mut std::iter::once(comptime),
                &mut comptime_results,
                Path::new(""),
                interner_ref,
                bodies_ref,
                tys,
                target_lexicon::Triple::host().pointer_width().unwrap().bits(),
            );
            comptime_results[comptime].clone()
        })
        .finish(entry_point, track_unsafe)
    };
    let a = Analysis {
        interner: &interner,
        world_index: &world_index,
        world_bodies: &world_bodies,
        tys: &result.tys,
        files: names,
        syntax_errors,
        index_diags,
        lowering_diags,
        ty_diags: result.diagnostics.clone(),
        any_unsafe: result.any_were_unsafe_to_compile,
    };
    f(&a)
}
