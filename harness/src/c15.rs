//! C15 — only const values are used as types, sizes, discriminants and comptime args.
//!
//! A case is an expression tree (`Ex`) placed in a const position (`Site`) of a generated
//! multi-file Capy program. Three independent views of it are compared:
//!   * implementation: the real front end (`hir_ty` through `frontend::with_analysis`, in a worker
//!     process with a deadline): `*NotConst` diagnostics, the array types / enum discriminants that
//!     exist afterwards, panic, hang;
//!   * model: the node table of the same case sent to the Lean driver (`C15 <site> …`):
//!     `get_const` answer, diagnostic, evaluated?, accepted value — a difference is a model
//!     disagreement;
//!   * oracle: the README rule evaluated on `Ex` itself (`rule_const`, `rule_value`), written from
//!     the property text: an accepted value must be const by the rule and be the value the
//!     expression denotes; a non-const must be reported (no acceptance, no panic, no hang).
use crate::c15_worker::{self, Obs};
use crate::lean;
use crate::report::Report;
use crate::rng::Rng;
use serde_json::{json, Value};
use std::time::Duration;

#[derive(Clone, Debug, PartialEq)]
pub enum Binding {
    /// `imp :: #import(..)` at file level
    Global,
    /// `imp :: #import(..)` inside the function
    LocalImm,
    /// `imp := #import(..)` inside the function
    LocalMut,
}

#[derive(Clone, Debug, PartialEq)]
pub enum Ex {
    Lit(u64),
    Local { mutable: bool, value: Box<Ex> },
    Global { after: bool, value: Box<Ex> },
    /// `imp.K` with `K : T : value;` in the next file
    Imported { binding: Binding, value: Box<Ex> },
    Extern,
    ExternImported,
    /// `comptime { a + b }`
    Comptime(u64, u64),
    /// the comptime parameter of the enclosing generic function
    CtParam,
    Arith(u64, u64),
    Call(u64),
    Field(u64),
    Paren(Box<Ex>),
    Block(u64),
    Cast(u64),
    /// a finished global that refers to itself through `n` globals (1 or 2)
    Cycle(u8),
    // --- only as comptime arguments of their own parameter type
    BoolLit,
    StrLit,
    CharLit,
    // --- type-valued (comptime argument of type `type`)
    TyLit,
    TyCall,
    TyLocal { mutable: bool, value: Box<Ex> },
    TyGlobal { value: Box<Ex> },
    TyComptime,
}

#[derive(Clone, Copy, Debug, PartialEq)]
pub enum Site {
    Len,
    Disc,
    CtArg,
}

impl Site {
    fn name(self) -> &'static str {
        match self {
            Site::Len => "len",
            Site::Disc => "disc",
            Site::CtArg => "ctarg",
        }
    }
    fn diag(self) -> &'static str {
        match self {
            Site::Len => "ty:ArraySizeNotConst",
            Site::Disc => "ty:DiscriminantNotConst",
            Site::CtArg => "ty:ComptimeArgNotConst",
        }
    }
}

#[derive(Clone, Debug)]
pub struct Case {
    pub ex: Ex,
    pub site: Site,
    /// the site lives in `h :: (comptime p: T) -> usize { .. }`, called as `h(ARG)`
    pub generic: bool,
    /// File-typed decoy locals at the start of `main` + `fake.capy` (same global names, other values)
    pub decoy: bool,
}

const ARG: u64 = 5;

// ------------------------------------------------------------------------------------------
// the property's own oracle, from the README rule (independent of model and implementation)

/// const by the documented rule: an immutable binding to a literal, another const, a comptime
/// block or a comptime parameter
pub fn rule_const(ex: &Ex) -> bool {
    match ex {
        Ex::Lit(_) | Ex::BoolLit | Ex::StrLit | Ex::CharLit | Ex::TyLit => true,
        Ex::Comptime(..) | Ex::TyComptime | Ex::CtParam => true,
        Ex::Local { mutable, value } | Ex::TyLocal { mutable, value } => !*mutable && rule_const(value),
        Ex::Global { value, .. } | Ex::TyGlobal { value } => rule_const(value),
        Ex::Imported { binding, value } => *binding != Binding::LocalMut && rule_const(value),
        Ex::Extern | Ex::ExternImported => false,
        Ex::Arith(..) | Ex::Call(_) | Ex::Field(_) | Ex::Paren(_) | Ex::Block(_) | Ex::Cast(_) | Ex::TyCall => false,
        Ex::Cycle(_) => false,
    }
}

/// the integer a (const) expression denotes
pub fn rule_value(ex: &Ex) -> Option<u64> {
    match ex {
        Ex::Lit(n) => Some(*n),
        Ex::Comptime(a, b) => Some(a + b),
        Ex::CtParam => Some(ARG),
        Ex::Local { value, .. } | Ex::Global { value, .. } | Ex::Imported { value, .. } => rule_value(value),
        _ => None,
    }
}

fn is_type_valued(ex: &Ex) -> bool {
    matches!(ex, Ex::TyLit | Ex::TyCall | Ex::TyLocal { .. } | Ex::TyGlobal { .. } | Ex::TyComptime)
}

fn has_cycle(ex: &Ex) -> bool {
    match ex {
        Ex::Cycle(_) => true,
        Ex::Local { value, .. } | Ex::Global { value, .. } | Ex::Imported { value, .. } | Ex::TyLocal { value, .. } | Ex::TyGlobal { value } => {
            has_cycle(value)
        }
        Ex::Paren(e) => has_cycle(e),
        _ => false,
    }
}

/// shape label (kinds along the reference chain): findings are keyed by it
pub fn shape(ex: &Ex) -> String {
    match ex {
        Ex::Lit(_) => "lit".into(),
        Ex::Local { mutable, value } => format!("{}>{}", if *mutable { "mutlocal" } else { "local" }, shape(value)),
        Ex::Global { value, .. } => format!("global>{}", shape(value)),
        Ex::Imported { binding, value } => {
            format!("{}>{}", if *binding == Binding::LocalMut { "mutimported" } else { "imported" }, shape(value))
        }
        Ex::Extern => "extern".into(),
        Ex::ExternImported => "externimported".into(),
        Ex::Comptime(..) => "comptime".into(),
        Ex::CtParam => "ctparam".into(),
        Ex::Arith(..) => "arith".into(),
        Ex::Call(_) => "call".into(),
        Ex::Field(_) => "field".into(),
        Ex::Paren(e) => format!("paren>{}", shape(e)),
        Ex::Block(_) => "block".into(),
        Ex::Cast(_) => "cast".into(),
        Ex::Cycle(n) => format!("cycle{n}"),
        Ex::BoolLit => "boollit".into(),
        Ex::StrLit => "strlit".into(),
        Ex::CharLit => "charlit".into(),
        Ex::TyLit => "tylit".into(),
        Ex::TyCall => "tycall".into(),
        Ex::TyLocal { mutable, value } => format!("{}>{}", if *mutable { "mutlocal" } else { "local" }, shape(value)),
        Ex::TyGlobal { value } => format!("global>{}", shape(value)),
        Ex::TyComptime => "tycomptime".into(),
    }
}

/// the last kind of the chain (what the walk ends in)
fn leaf(ex: &Ex) -> String {
    shape(ex).rsplit('>').next().unwrap_or("").to_string()
}

// ------------------------------------------------------------------------------------------
// rendering: Capy source + the model's node table

struct FileB {
    before: Vec<String>,
    after: Vec<String>,
}

struct Build {
    nodes: Vec<String>,
    files: Vec<FileB>,
    stmts: Vec<String>,
    /// (site op, node)
    sites: Vec<(String, usize)>,
    fake: Vec<String>,
    next_id: u64,
    ity: &'static str,
    generic: bool,
    all_after: bool,
}

impl Build {
    fn id(&mut self) -> u64 {
        self.next_id += 1;
        self.next_id
    }
    fn node(&mut self, s: String) -> usize {
        self.nodes.push(s);
        self.nodes.len() - 1
    }
    fn file(&mut self, level: usize) -> &mut FileB {
        while self.files.len() <= level {
            self.files.push(FileB { before: vec![], after: vec![] });
        }
        &mut self.files[level]
    }
    fn global_def(&mut self, level: usize, after: bool, text: String) {
        let after = after || self.all_after;
        let f = self.file(level);
        if after {
            f.after.push(text)
        } else {
            f.before.push(text)
        }
    }
    /// the import binding of file `level + 1` visible at `level`: (expression text, node)
    fn import_binding(&mut self, level: usize, binding: &Binding) -> (String, usize) {
        let name = format!("imp{}", level + 1);
        let path = format!("m{}.capy", level + 1);
        let atom = self.node("N,i".into());
        match binding {
            Binding::Global => {
                let def = format!("{name} :: #import(\"{path}\");");
                let already = {
                    let f = self.file(level);
                    f.before.contains(&def) || f.after.contains(&def)
                };
                if !already {
                    self.global_def(level, false, def);
                }
                let n = self.node(format!("G,0,1,{atom}"));
                (name, n)
            }
            Binding::LocalImm | Binding::LocalMut => {
                let m = *binding == Binding::LocalMut;
                let id = self.id();
                let lname = format!("li{id}");
                self.stmts.push(format!("{lname} {} #import(\"{path}\");", if m { ":=" } else { "::" }));
                let n = self.node(format!("L,{},{atom}", m as u8));
                (lname, n)
            }
        }
    }

    /// returns (expression text, node index)
    fn render(&mut self, ex: &Ex, level: usize, fnctx: bool) -> (String, usize) {
        let ity = self.ity;
        match ex {
            Ex::Lit(n) => (n.to_string(), self.node(format!("I,{n}"))),
            Ex::Local { mutable, value } => {
                assert!(fnctx);
                let (t, v) = self.render(value, level, true);
                let id = self.id();
                let name = format!("x{id}");
                if matches!(**value, Ex::BoolLit | Ex::StrLit | Ex::CharLit) {
                    self.stmts.push(format!("{name} {} {t};", if *mutable { ":=" } else { "::" }));
                } else {
                    self.stmts.push(format!("{name} : {ity} {} {t};", if *mutable { "=" } else { ":" }));
                }
                (name, self.node(format!("L,{},{v}", *mutable as u8)))
            }
            Ex::Global { after, value } => {
                let (t, v) = self.render(value, level, false);
                let id = self.id();
                let name = format!("G{id}");
                self.global_def(level, *after, format!("{name} : {ity} : {t};"));
                self.sites.push(("global".into(), v));
                if level >= 2 {
                    self.fake.push(format!("{name} : {ity} : {};", 40 + id));
                }
                (name, self.node(format!("G,0,1,{v}")))
            }
            Ex::Imported { binding, value } => {
                let (imp, prev) = self.import_binding(level, binding);
                let (t, v) = self.render(value, level + 1, false);
                let id = self.id();
                let name = format!("K{id}");
                self.global_def(level + 1, false, format!("{name} : {ity} : {t};"));
                self.sites.push(("global".into(), v));
                if level + 1 >= 2 {
                    self.fake.push(format!("{name} : {ity} : {};", 40 + id));
                }
                (format!("{imp}.{name}"), self.node(format!("M,1,{prev},1,0,1,{v}")))
            }
            Ex::Extern => {
                let id = self.id();
                let name = format!("X{id}");
                self.global_def(level, false, format!("{name} : {ity} : extern;"));
                (name, self.node("G,1,1,0".into()))
            }
            Ex::ExternImported => {
                let (imp, prev) = self.import_binding(level, &Binding::Global);
                let id = self.id();
                let name = format!("X{id}");
                self.global_def(level + 1, false, format!("{name} : {ity} : extern;"));
                (format!("{imp}.{name}"), self.node(format!("M,1,{prev},1,1,1,0")))
            }
            Ex::Comptime(a, b) => (format!("comptime {{ {a} + {b} }}"), self.node(format!("C,1,i{}", a + b))),
            Ex::CtParam => {
                assert!(fnctx && self.generic);
                ("p".into(), self.node("P,0".into()))
            }
            Ex::Arith(a, b) => (format!("{a} + {b}"), self.node("O,arith,v,-".into())),
            Ex::Call(n) => {
                let id = self.id();
                self.global_def(level, false, format!("fn{id} :: () -> {ity} {{ {n} }}"));
                (format!("fn{id}()"), self.node("O,call,v,-".into()))
            }
            Ex::Field(n) => {
                assert!(fnctx);
                let id = self.id();
                self.global_def(level, false, format!("S{id} :: struct {{ n: {ity} }};"));
                self.stmts.push(format!("s{id} :: S{id}.{{ n = {n} }};"));
                (format!("s{id}.n"), self.node("O,field,v,-".into()))
            }
            Ex::Paren(e) => {
                let (t, _) = self.render(e, level, fnctx);
                (format!("({t})"), self.node("O,paren,v,-".into()))
            }
            Ex::Block(n) => (format!("{{ {n} }}"), self.node("O,block,v,-".into())),
            Ex::Cast(n) => (format!("{ity}.({n})"), self.node("O,cast,v,-".into())),
            Ex::Cycle(k) => {
                let id = self.id();
                let me = self.nodes.len();
                if *k == 1 {
                    self.global_def(level, false, format!("Y{id} : {ity} : Y{id};"));
                    (format!("Y{id}"), self.node(format!("G,0,1,{me}")))
                } else {
                    self.global_def(level, false, format!("Y{id} : {ity} : Z{id};"));
                    self.global_def(level, false, format!("Z{id} : {ity} : Y{id};"));
                    let a = self.node(format!("G,0,1,{}", me + 1));
                    self.node(format!("G,0,1,{me}"));
                    (format!("Y{id}"), a)
                }
            }
            Ex::BoolLit => ("true".into(), self.node("N,b".into())),
            Ex::StrLit => ("\"hi\"".into(), self.node("N,s".into())),
            Ex::CharLit => ("'a'".into(), self.node("O,char,v,-".into())),
            Ex::TyLit => ("i32".into(), self.node("T,32".into())),
            Ex::TyCall => {
                let id = self.id();
                self.global_def(level, false, format!("tf{id} :: () -> type {{ i32 }}"));
                (format!("tf{id}()"), self.node("O,call,t,-".into()))
            }
            Ex::TyLocal { mutable, value } => {
                assert!(fnctx);
                let (t, v) = self.render(value, level, true);
                let id = self.id();
                self.stmts.push(format!("T{id} {} {t};", if *mutable { ":=" } else { "::" }));
                (format!("T{id}"), self.node(format!("L,{},{v}", *mutable as u8)))
            }
            Ex::TyGlobal { value } => {
                let (t, v) = self.render(value, level, false);
                let id = self.id();
                self.global_def(level, false, format!("TG{id} :: {t};"));
                self.sites.push(("global".into(), v));
                (format!("TG{id}"), self.node(format!("G,0,1,{v}")))
            }
            Ex::TyComptime => ("comptime { i32 }".into(), self.node("C,1,t32".into())),
        }
    }
}

pub struct Rendered {
    pub files: Vec<(String, String)>,
    /// Lean requests, the main site first
    pub requests: Vec<String>,
}

fn param_ty(c: &Case) -> &'static str {
    match (&c.site, leaf(&c.ex).as_str()) {
        (Site::Disc, _) => "u8",
        (Site::CtArg, "boollit") => "bool",
        (Site::CtArg, "strlit") => "str",
        (Site::CtArg, "charlit") => "char",
        (Site::CtArg, _) if is_type_valued(&c.ex) => "type",
        _ => "usize",
    }
}

pub fn render_case(c: &Case) -> Rendered {
    let ity = param_ty(c);
    let mut b = Build {
        nodes: vec![],
        files: vec![],
        stmts: vec![],
        sites: vec![],
        fake: vec![],
        next_id: 0,
        ity,
        generic: c.generic,
        all_after: c.decoy,
    };
    b.file(0);
    if c.decoy {
        b.stmts.push("d0 :: #import(\"fake.capy\");".into());
        for i in 1..8 {
            b.stmts.push(format!("d{i} :: d{};", i - 1));
        }
    }
    let (text, node) = b.render(&c.ex, 0, true);
    let site_stmt = match c.site {
        Site::Len => format!("arr : [{text}]i16;"),
        Site::Disc => format!("En :: enum {{ A | {text}, B }};"),
        Site::CtArg => {
            if ity == "type" {
                b.global_def(0, false, "g :: (comptime n: type) -> usize { a : [2]n; 0 }".into());
            } else if ity == "usize" {
                b.global_def(0, false, "g :: (comptime n: usize) -> usize { a : [n]i8; 0 }".into());
            } else {
                b.global_def(0, false, format!("g :: (comptime n: {ity}) -> usize {{ 0 }}"));
            }
            format!("r := g({text});")
        }
    };
    let body = format!("{}\n    {}", b.stmts.iter().map(|s| format!("    {s}")).collect::<Vec<_>>().join("\n"), site_stmt);
    let main_fn = if c.generic {
        let arg = match ity {
            "type" => "i32".to_string(),
            "bool" => "false".to_string(),
            "str" => "\"s\"".to_string(),
            "char" => "'c'".to_string(),
            _ => ARG.to_string(),
        };
        format!("h :: (comptime p: {ity}) -> usize {{\n{body}\n    0\n}}\nmain :: () {{ q := h({arg}); }}")
    } else {
        format!("main :: () {{\n{body}\n}}")
    };
    let mut files = vec![];
    let nfiles = b.files.len();
    for (lvl, f) in b.files.iter().enumerate().rev() {
        let mut t = String::new();
        for g in &f.before {
            t.push_str(g);
            t.push('\n');
        }
        if lvl == 0 {
            t.push_str(&main_fn);
            t.push('\n');
        }
        for g in &f.after {
            t.push_str(g);
            t.push('\n');
        }
        files.push((if lvl == 0 { "main.capy".to_string() } else { format!("m{lvl}.capy") }, t));
    }
    if c.decoy {
        let mut t = String::new();
        for g in &b.fake {
            t.push_str(g);
            t.push('\n');
        }
        files.insert(0, ("fake.capy".to_string(), t));
    }
    let _ = nfiles;
    let nodes = b.nodes.join(";");
    let args = if c.generic {
        if ity == "type" { "t32".to_string() } else { format!("i{ARG}") }
    } else {
        "-".to_string()
    };
    let mut requests = vec![format!("C15 {} 100000 {node} {args} {nodes}", c.site.name())];
    for (op, n) in &b.sites {
        requests.push(format!("C15 {op} 100000 {n} {args} {nodes}"));
    }
    Rendered { files, requests }
}

// ------------------------------------------------------------------------------------------
// comparison

#[derive(Debug, Clone, PartialEq)]
enum Res {
    Accepted(String),
    Rejected,
    Panic,
    Hang,
}

fn parse_model(line: &str) -> Option<(String, String, bool, String)> {
    let mut gc = None;
    let mut diag = None;
    let mut ev = None;
    let mut res = None;
    for w in line.split(' ') {
        if let Some(v) = w.strip_prefix("gc=") {
            gc = Some(v.to_string())
        } else if let Some(v) = w.strip_prefix("diag=") {
            diag = Some(v.to_string())
        } else if let Some(v) = w.strip_prefix("eval=") {
            ev = Some(v == "1")
        } else if let Some(v) = w.strip_prefix("res=") {
            res = Some(v.to_string())
        }
    }
    Some((gc?, diag?, ev?, res?))
}

/// what the implementation did at the main site
fn impl_result(c: &Case, o: &Obs) -> Res {
    if o.hang {
        return Res::Hang;
    }
    if o.panic.is_some() {
        return Res::Panic;
    }
    match c.site {
        Site::Len => match o.lens_of("(i 16)").as_slice() {
            [] => Res::Rejected,
            [n] => Res::Accepted(format!("i{n}")),
            more => Res::Accepted(format!("several:{more:?}")),
        },
        Site::Disc => {
            let mut found = None;
            for e in &o.enums {
                if e.len() == 2 && e[0].0 == "A" && e[1].0 == "B" {
                    found = Some(e[0].1);
                }
            }
            match found {
                // a rejected discriminant leaves the automatic numbering (A = 0)
                Some(0) | None => Res::Rejected,
                Some(n) => Res::Accepted(format!("i{n}")),
            }
        }
        Site::CtArg => match param_ty(c) {
            "usize" => match o.lens_of("(i 8)").as_slice() {
                [] => Res::Rejected,
                [n] => Res::Accepted(format!("i{n}")),
                more => Res::Accepted(format!("several:{more:?}")),
            },
            "type" => {
                let elems: Vec<&String> = o.arrays.iter().filter(|(n, _)| *n == 2).map(|(_, e)| e).collect();
                match elems.as_slice() {
                    [] => Res::Rejected,
                    [e] if e.as_str() == "(i 32)" => Res::Accepted("t32".into()),
                    other => Res::Accepted(format!("type:{other:?}")),
                }
            }
            _ => {
                // bool / str / char parameter: accepted ⇔ no diagnostic at all
                if o.kinds.is_empty() { Res::Accepted("data".into()) } else { Res::Rejected }
            }
        },
    }
}

fn notconst_kinds(o: &Obs) -> Vec<String> {
    let mut v: Vec<String> = o.kinds.iter().filter(|k| k.ends_with("NotConst")).cloned().collect();
    v.sort();
    v
}

pub fn check_cases(cases: &[Case], rep: &mut Report, threads: usize) {
    let rendered: Vec<Rendered> = cases.iter().map(render_case).collect();
    let programs: Vec<Vec<(String, String)>> = rendered.iter().map(|r| r.files.clone()).collect();
    let obs = c15_worker::run_all(&programs, Duration::from_secs(10), threads);
    let mut reqs = vec![];
    for r in &rendered {
        reqs.extend(r.requests.iter().cloned());
    }
    let answers = lean::ask(&reqs);
    let mut k = 0;
    for ((c, r), o) in cases.iter().zip(rendered.iter()).zip(obs.iter()) {
        let ans = &answers[k..k + r.requests.len()];
        k += r.requests.len();
        judge(c, r, o, ans, rep);
    }
}

fn judge(c: &Case, r: &Rendered, o: &Obs, ans: &[String], rep: &mut Report) {
    let sh = shape(&c.ex);
    let key = format!("{}{}{}:{sh}", c.site.name(), if c.generic { ":generic" } else { "" }, if c.decoy { ":decoy" } else { "" });
    rep.case(if sh != "lit" { Some(key.clone()) } else { None });
    let input = json!({"case": key, "files": r.files});
    let got = impl_result(c, o);
    rep.hit(&format!(
        "{}:{}",
        c.site.name(),
        match &got {
            Res::Accepted(_) => "accepted",
            Res::Rejected => "rejected",
            Res::Panic => "panic",
            Res::Hang => "hang",
        }
    ));
    if rep.evaluations % 97 == 3 {
        rep.sample(json!({"case": key, "implementation": o.to_json(), "model": ans}));
    }
    let cyclic = has_cycle(&c.ex);

    // ---- model vs implementation
    if ans.iter().all(|a| a != "?") {
        let parsed: Vec<_> = ans.iter().map(|a| parse_model(a)).collect();
        if parsed.iter().any(|p| p.is_none()) {
            rep.disagree(input.clone(), o.to_json(), json!(ans));
        } else {
            let parsed: Vec<_> = parsed.into_iter().map(|p| p.unwrap()).collect();
            let (gc, _, _, res) = &parsed[0];
            rep.hit(&format!("get_const={gc}"));
            let want = if let Some(v) = res.strip_prefix("accepted:") {
                Res::Accepted(if param_ty(c) == "bool" || param_ty(c) == "str" || param_ty(c) == "char" { "data".into() } else { v.to_string() })
            } else if res == "panic" {
                Res::Panic
            } else if res == "stuck" {
                Res::Hang
            } else {
                Res::Rejected
            };
            let mut want_kinds: Vec<String> = vec![];
            for (i, (_, d, _, _)) in parsed.iter().enumerate() {
                if d != "-" && !(cyclic && i > 0) {
                    want_kinds.push(format!("ty:{d}"));
                }
            }
            want_kinds.sort();
            let mut got_kinds = notconst_kinds(o);
            if cyclic {
                got_kinds.retain(|k| k != "ty:GlobalNotConst");
            }
            let other_errors: Vec<&String> =
                o.kinds.iter().filter(|k| !k.ends_with("NotConst") && !(cyclic && k.as_str() == "ty:NotYetResolved")).collect();
            // after a panic / hang there are no diagnostics to compare
            let kinds_ok = matches!(got, Res::Panic | Res::Hang) || (want_kinds == got_kinds && other_errors.is_empty());
            if want != got || !kinds_ok {
                rep.disagree(
                    input.clone(),
                    json!({"result": format!("{got:?}"), "observation": o.to_json()}),
                    json!({"result": format!("{want:?}"), "notconst_kinds": want_kinds, "answers": ans}),
                );
            }
        }
    }

    // ---- implementation vs the property's oracle (README rule)
    let is_const = rule_const(&c.ex);
    let value = rule_value(&c.ex);
    let imp = json!({"result": format!("{got:?}"), "kinds": o.kinds, "arrays": o.arrays, "enums": o.enums, "panic": o.panic});
    match &got {
        Res::Accepted(v) => {
            if !is_const {
                rep.oracle_fail(
                    &format!("accepted-nonconst:{}", leaf(&c.ex)),
                    input.clone(),
                    imp,
                    json!({"const_by_rule": false, "must": format!("report {}", c.site.diag())}),
                    "a value that is not const by the documented rule was accepted in a const position",
                );
            } else if let Some(n) = value {
                if *v != format!("i{n}") {
                    rep.oracle_fail(
                        if c.decoy || sh.matches("imported").count() >= 2 { "const_data-foreign-member-wrong-area" } else { "accepted-wrong-value" },
                        input.clone(),
                        imp,
                        json!({"const_by_rule": true, "denotes": n}),
                        "the accepted const value is not the value the expression denotes",
                    );
                } else {
                    rep.traces_validated += 1;
                }
            } else if is_type_valued(&c.ex) && v != "t32" {
                rep.oracle_fail("accepted-wrong-type", input.clone(), imp, json!({"denotes": "i32"}), "the accepted const type is not the denoted type");
            }
        }
        Res::Rejected => {
            if !is_const {
                // must be *reported*: the site's diagnostic (or, if a definition it depends on was
                // already reported, any error)
                if !o.has(c.site.diag()) && o.kinds.is_empty() {
                    rep.oracle_fail(
                        &format!("nonconst-silently-rejected:{}", leaf(&c.ex)),
                        input.clone(),
                        imp,
                        json!({"const_by_rule": false, "must": format!("report {}", c.site.diag())}),
                        "a non-const value in a const position was neither accepted nor reported",
                    );
                }
            } else {
                // const by the rule but rejected: not what the property forbids
                rep.hit(&format!("rule-const-but-rejected:{}", leaf(&c.ex)));
            }
        }
        Res::Panic => {
            if !is_const {
                rep.oracle_fail(
                    &format!("nonconst-not-reported-panic:{}", leaf(&c.ex)),
                    input.clone(),
                    imp,
                    json!({"const_by_rule": false, "must": format!("report {}", c.site.diag())}),
                    "a non-const value in a const position crashes the compiler instead of being reported",
                );
            } else if sh.matches("imported").count() >= 2 {
                // const, value known, and the evaluator crashes while fetching it
                rep.oracle_fail(
                    "const_data-foreign-member-wrong-area",
                    input.clone(),
                    imp,
                    json!({"const_by_rule": true, "denotes": value}),
                    "an accepted const value is looked up in the wrong file's type table (panic)",
                );
            } else {
                // const by the rule, accepted by the walk, no value available: a crash on valid
                // input is C06's subject, not an acceptance of a non-const
                rep.hit(&format!("side:const-accepted-then-panic:{}", leaf(&c.ex)));
            }
        }
        Res::Hang => {
            rep.oracle_fail(
                "get_const-cyclic-hang",
                input.clone(),
                imp,
                json!({"const_by_rule": is_const, "must": "terminate and report"}),
                "the analysis does not terminate (get_const follows finished cyclic globals without a visited set)",
            );
        }
    }
}

// ------------------------------------------------------------------------------------------
// generation

fn file_ctx_leaves(v: &mut u64) -> Vec<Ex> {
    let mut n = || {
        *v += 1;
        *v
    };
    vec![Ex::Lit(n()), Ex::Extern, Ex::ExternImported, Ex::Comptime(n(), 1), Ex::Arith(n(), 1), Ex::Call(n()), Ex::Cast(n()), Ex::Paren(Box::new(Ex::Lit(n())))]
}

fn fn_ctx_leaves(v: &mut u64, generic: bool) -> Vec<Ex> {
    let mut l = file_ctx_leaves(v);
    *v += 1;
    l.push(Ex::Field(*v));
    *v += 1;
    l.push(Ex::Block(*v));
    l.push(Ex::Cycle(1));
    l.push(Ex::Cycle(2));
    if generic {
        l.push(Ex::CtParam);
    }
    l
}

/// all expressions of reference depth ≤ `depth` (file-level context: value of a global)
fn enum_file(depth: usize, v: &mut u64) -> Vec<Ex> {
    let mut out = file_ctx_leaves(v);
    if depth > 0 {
        for e in enum_file(depth - 1, v) {
            for after in [false, true] {
                out.push(Ex::Global { after, value: Box::new(e.clone()) });
            }
            out.push(Ex::Imported { binding: Binding::Global, value: Box::new(e.clone()) });
        }
    }
    out
}

fn enum_fn(depth: usize, v: &mut u64, generic: bool) -> Vec<Ex> {
    let mut out = fn_ctx_leaves(v, generic);
    if depth > 0 {
        for e in enum_fn(depth - 1, v, generic) {
            for mutable in [false, true] {
                out.push(Ex::Local { mutable, value: Box::new(e.clone()) });
            }
            if !matches!(e, Ex::Paren(_)) {
                out.push(Ex::Paren(Box::new(e.clone())));
            }
        }
        for e in enum_file(depth - 1, v) {
            for after in [false, true] {
                out.push(Ex::Global { after, value: Box::new(e.clone()) });
            }
            for binding in [Binding::Global, Binding::LocalImm, Binding::LocalMut] {
                out.push(Ex::Imported { binding, value: Box::new(e.clone()) });
            }
        }
    }
    out
}

fn ctarg_only() -> Vec<Ex> {
    let b = |e: Ex| Box::new(e);
    vec![
        Ex::BoolLit,
        Ex::StrLit,
        Ex::CharLit,
        Ex::Local { mutable: false, value: b(Ex::BoolLit) },
        Ex::Local { mutable: true, value: b(Ex::BoolLit) },
        Ex::Local { mutable: false, value: b(Ex::CharLit) },
        Ex::TyLit,
        Ex::TyCall,
        Ex::TyComptime,
        Ex::TyLocal { mutable: false, value: b(Ex::TyLit) },
        Ex::TyLocal { mutable: true, value: b(Ex::TyLit) },
        Ex::TyLocal { mutable: false, value: b(Ex::TyCall) },
        Ex::TyLocal { mutable: false, value: b(Ex::TyComptime) },
        Ex::TyGlobal { value: b(Ex::TyLit) },
        Ex::TyGlobal { value: b(Ex::TyCall) },
        Ex::TyGlobal { value: b(Ex::TyComptime) },
        Ex::TyLocal { mutable: false, value: b(Ex::TyGlobal { value: b(Ex::TyLit) }) },
        Ex::TyLocal { mutable: false, value: b(Ex::TyLocal { mutable: false, value: b(Ex::TyLit) }) },
        Ex::TyLocal { mutable: false, value: b(Ex::TyLocal { mutable: true, value: b(Ex::TyLit) }) },
    ]
}

fn random_ex(rng: &mut Rng, depth: usize, fnctx: bool, generic: bool, v: &mut u64) -> Ex {
    let leaves = if fnctx { fn_ctx_leaves(v, generic) } else { file_ctx_leaves(v) };
    if depth == 0 || rng.chance(1, 5) {
        // bias towards const leaves so that long chains stay interesting
        if rng.chance(1, 2) {
            *v += 1;
            return match rng.below(if fnctx && generic { 3 } else { 2 }) {
                0 => Ex::Lit(*v),
                1 => Ex::Comptime(*v, 1),
                _ => Ex::CtParam,
            };
        }
        return rng.pick(&leaves).clone();
    }
    let choice = rng.below(if fnctx { 8 } else { 4 });
    match choice {
        0 | 1 => Ex::Global { after: rng.chance(1, 2), value: Box::new(random_ex(rng, depth - 1, false, generic, v)) },
        2 | 3 => {
            let binding = if fnctx { rng.pick(&[Binding::Global, Binding::Global, Binding::LocalImm, Binding::LocalMut]).clone() } else { Binding::Global };
            Ex::Imported { binding, value: Box::new(random_ex(rng, depth - 1, false, generic, v)) }
        }
        4 | 5 | 6 => Ex::Local { mutable: rng.chance(1, 6), value: Box::new(random_ex(rng, depth - 1, true, generic, v)) },
        _ => Ex::Paren(Box::new(random_ex(rng, depth - 1, true, generic, v))),
    }
}

/// not generated: a `comptime` block anywhere in a program that also instantiates a generic
/// function makes the JIT panic (`these shouldn't get to codegen`, codegen/src/convert.rs:209) —
/// confirmed with the CLI, independent of constness (C04 / C06); bool / str literals as comptime
/// arguments panic in `evaluate_comptime_args`, so they cannot be the argument of the wrapper `h`
fn skip_in_generic(ex: &Ex) -> bool {
    let s = shape(ex);
    s.contains("comptime") || s.contains("boollit") || s.contains("strlit") || s.contains("charlit")
}

/// the comptime-argument site needs a generic callee `g`, so a `comptime` block that has to be
/// evaluated during inference hits the same JIT panic there (`g(comptime { 2 + 1 })`, confirmed
/// with the CLI): comptime blocks are exercised in the array-length and discriminant sites of
/// programs without generic functions only
fn skip_case(c: &Case) -> bool {
    (c.generic && skip_in_generic(&c.ex)) || (c.site == Site::CtArg && shape(&c.ex).contains("comptime"))
}

fn imported_depth(ex: &Ex) -> usize {
    shape(ex).matches("imported").count()
}

pub fn run(tier: &str, seed: u64, widen: bool) -> Report {
    if std::env::var("CVH_C15_WORKER").is_ok() {
        c15_worker::worker_main();
    }
    let mut rep = Report::new(
        "C15",
        "hir_ty front end in a worker process (deadline) on generated multi-file programs vs Lean get_const/const_data/use-site model vs README-rule oracle",
        "a case is non-trivial when the expression is not a bare literal; distinct = site × context × kind chain",
    );
    let thorough = tier == "thorough";
    let mut rng = Rng::new(seed);
    let mut cases: Vec<Case> = vec![];
    let depth = if thorough || widen { 3 } else { 2 };
    // exhaustive: every kind chain of reference depth ≤ depth, in every site, in main and in a generic
    for site in [Site::Len, Site::Disc, Site::CtArg] {
        for generic in [false, true] {
            let mut v = 0;
            for ex in enum_fn(depth, &mut v, generic) {
                if generic && skip_in_generic(&ex) {
                    continue;
                }
                // the decoy needs `main` to be the first global: only meaningful outside a generic
                let decoys: &[bool] = if !generic && imported_depth(&ex) >= 1 { &[false, true] } else { &[false] };
                for &decoy in decoys {
                    cases.push(Case { ex: ex.clone(), site, generic, decoy });
                }
            }
        }
    }
    // imported chains through two and three files (the evaluator changes area at every hop)
    for site in [Site::Len, Site::Disc, Site::CtArg] {
        let l = |n| Box::new(Ex::Lit(n));
        let imp = |e: Box<Ex>| Box::new(Ex::Imported { binding: Binding::Global, value: e });
        let glob = |e: Box<Ex>| Box::new(Ex::Global { after: false, value: e });
        for ex in [
            *imp(imp(l(3))),
            *imp(imp(imp(l(4)))),
            *imp(glob(imp(l(5)))),
            *glob(imp(imp(l(6)))),
            Ex::Local { mutable: false, value: imp(imp(l(7))) },
            *imp(imp(Box::new(Ex::Comptime(2, 6)))),
            *imp(imp(Box::new(Ex::Arith(2, 6)))),
            *imp(imp(Box::new(Ex::Extern))),
        ] {
            for decoy in [false, true] {
                cases.push(Case { ex: ex.clone(), site, generic: false, decoy });
            }
            if !skip_in_generic(&ex) {
                cases.push(Case { ex: ex.clone(), site, generic: true, decoy: false });
            }
        }
    }
    for ex in ctarg_only() {
        for generic in [false, true] {
            if generic && skip_in_generic(&ex) {
                continue;
            }
            cases.push(Case { ex: ex.clone(), site: Site::CtArg, generic, decoy: false });
        }
    }
    rep.exhaustive = true;
    let n_random = if widen { 6000 } else if thorough { 2500 } else { 250 };
    let mut v = 100;
    for _ in 0..n_random {
        let generic = rng.chance(1, 3);
        let site = *rng.pick(&[Site::Len, Site::Disc, Site::CtArg]);
        let d = 2 + rng.below(4) as usize;
        v = 1 + (v % 150);
        let mut vv = v;
        let ex = random_ex(&mut rng, d, true, generic, &mut vv);
        v = vv;
        if generic && skip_in_generic(&ex) {
            continue;
        }
        let decoy = !generic && imported_depth(&ex) >= 1 && rng.chance(1, 2);
        cases.push(Case { ex, site, generic, decoy });
    }
    // u8 discriminants: keep the values in range
    for c in cases.iter_mut() {
        if c.site == Site::Disc {
            clamp(&mut c.ex);
        }
    }
    cases.retain(|c| !skip_case(c));
    // debugging aid: CVH_C15_ONLY=<substring of the case key>
    if let Ok(only) = std::env::var("CVH_C15_ONLY") {
        cases.retain(|c| {
            format!("{}{}{}:{}", c.site.name(), if c.generic { ":generic" } else { "" }, if c.decoy { ":decoy" } else { "" }, shape(&c.ex)).contains(&only)
        });
    }
    let threads = std::thread::available_parallelism().map(|n| n.get()).unwrap_or(4).clamp(2, 12);
    rep.notes.push(format!("{} cases (exhaustive to reference depth {depth}, ≤ {n_random} random to depth 5), {threads} worker processes", cases.len()));
    for chunk in cases.chunks(400) {
        check_cases(chunk, &mut rep, threads);
    }
    diamonds(&mut rep, &mut rng);
    rep
}

/// Const positions whose walk reaches the SAME global twice without any cycle (the expression
/// chains above are single paths): items of a constant array that share a constant, two constants
/// that are bindings to the same constant, a chain that crosses the same import alias twice
/// (main -> other -> main -> other), in the three const positions. Every program is const by the
/// documented rule: it must build and print the value (seeded change C15_3: "reached twice" was
/// taken for "refers to itself").
fn diamonds(rep: &mut Report, rng: &mut Rng) {
    use crate::e2e::{self, Program};
    if !e2e::available() {
        return;
    }
    let n = 2 + rng.below(6);
    let mut progs: Vec<(String, Program, String)> = vec![];
    // items of a constant global array share a constant; two bindings to the same constant
    progs.push((
        "array-items-share-a-constant".into(),
        Program::single(&format!(
            "core :: #mod(\"core\");\nN : usize : {n};\nW : usize : N;\nH : usize : N;\nSQUARE :: usize.[N, N];\nAREA :: usize.[W, H];\nPAIR :: usize.[N, W, N];\nmain :: () {{\n    board : [N]i32;\n    core.println(board.len + SQUARE[0] + SQUARE[1] + AREA[0] + AREA[1] + PAIR[2]);\n}}\n"
        )),
        format!("{}", 6 * n),
    ));
    // the same, the constants living in an imported file
    progs.push((
        "array-items-share-an-imported-constant".into(),
        Program {
            files: vec![
                ("main.capy".into(), "core :: #mod(\"core\");\nd :: #import(\"d.capy\");\nBOTH :: usize.[d.N, d.N];\nmain :: () {\n    a : [d.W]i32;\n    core.println(a.len + BOTH[0] + BOTH[1] + d.AREA[1]);\n}\n".into()),
                ("d.capy".into(), format!("N : usize : {n};\nW : usize : N;\nH : usize : N;\nAREA :: usize.[W, H];\n")),
            ],
        },
        format!("{}", 4 * n),
    ));
    // the chain crosses the import alias `other` twice: array size, discriminant, comptime argument
    let other = format!("m :: #import(\"main.capy\");\nUNIT : usize : {n};\nROW : usize : m.BASE;\nDISC : u8 : m.DBASE;\nDUNIT : u8 : {n};\n");
    progs.push((
        "import-alias-crossed-twice:array-size".into(),
        Program {
            files: vec![
                ("main.capy".into(), "core :: #mod(\"core\");\nother :: #import(\"other.capy\");\nBASE : usize : other.UNIT;\nDBASE : u8 : other.DUNIT;\nmain :: () {\n    row : [other.ROW]i32;\n    core.println(row.len);\n}\n".into()),
                ("other.capy".into(), other.clone()),
            ],
        },
        format!("{n}"),
    ));
    progs.push((
        "import-alias-crossed-twice:comptime-argument".into(),
        Program {
            files: vec![
                ("main.capy".into(), "core :: #mod(\"core\");\nother :: #import(\"other.capy\");\nBASE : usize : other.UNIT;\nDBASE : u8 : other.DUNIT;\ntwice :: (comptime k: usize) -> usize { k * 2 }\nmain :: () {\n    core.println(twice(other.ROW));\n}\n".into()),
                ("other.capy".into(), other.clone()),
            ],
        },
        format!("{}", 2 * n),
    ));
    progs.push((
        "import-alias-crossed-twice:discriminant".into(),
        Program {
            files: vec![
                ("main.capy".into(), "core :: #mod(\"core\");\nother :: #import(\"other.capy\");\nBASE : usize : other.UNIT;\nDBASE : u8 : other.DUNIT;\nE :: enum { A | other.DISC, B };\nmain :: () {\n    e : E = E.A;\n    switch e { .A => core.println(1), .B => core.println(2), }\n}\n".into()),
                ("other.capy".into(), other),
            ],
        },
        "1".into(),
    ));
    let ps: Vec<Program> = progs.iter().map(|p| p.1.clone()).collect();
    let outs = e2e::run_all(&ps, e2e::Limits::default());
    for ((what, prog, want), out) in progs.iter().zip(outs.iter()) {
        rep.case(Some(format!("diamond|{what}|{n}")));
        rep.hit(&format!("diamond:{what}"));
        let got = if out.built && out.run_status == Some(0) {
            out.stdout().trim().to_string()
        } else {
            format!("{} {}", out.run_summary(), out.compile_out.lines().filter(|l| l.starts_with("error") || l.contains("panicked")).take(2).collect::<Vec<_>>().join(" / "))
        };
        if &got != want {
            rep.oracle_fail(
                &format!("const-by-the-rule-rejected:{what}"),
                json!({"stream": "diamonds", "what": what, "files": prog.files}),
                json!(got),
                json!(want),
                "a value that is const by the documented rule (no binding refers to itself) was not accepted in a const position, or has the wrong value",
            );
        }
        rep.traces_validated += 1;
    }
}

fn clamp(ex: &mut Ex) {
    match ex {
        Ex::Lit(n) | Ex::Call(n) | Ex::Field(n) | Ex::Block(n) | Ex::Cast(n) => *n = 1 + *n % 200,
        Ex::Comptime(a, b) | Ex::Arith(a, b) => {
            *a = 1 + *a % 200;
            *b = 1;
        }
        Ex::Local { value, .. } | Ex::Global { value, .. } | Ex::Imported { value, .. } | Ex::TyLocal { value, .. } | Ex::TyGlobal { value } => clamp(value),
        Ex::Paren(e) => clamp(e),
        _ => {}
    }
}

pub fn replay(input: &Value) -> String {
    let files: Vec<(String, String)> = input["files"]
        .as_array()
        .map(|a| a.iter().map(|p| (p[0].as_str().unwrap_or("").to_string(), p[1].as_str().unwrap_or("").to_string())).collect())
        .unwrap_or_default();
    let mut w = c15_worker::Worker::spawn(Duration::from_secs(30));
    let o: Obs = w.run(&files);
    let mut s = String::new();
    for (n, t) in &files {
        s.push_str(&format!("--- {n}\n{t}"));
    }
    s.push_str(&format!("case: {}\nimplementation: {}\n", input["case"], o.to_json()));
    if o.hang || o.panic.is_some() {
        s.push_str("SPEC-MISMATCH (hang / panic in a const position)\n");
    }
    s
}
