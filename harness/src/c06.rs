//! C06 — the compiler never crashes or hangs, whatever it is given.
//! The theorem content of C06 is the panic-freedom obligations of the modelled stages (listed in
//! Props/C06.lean, proved under their own properties). This module is the totality SEARCH on the
//! real CLI: every input is compiled in a child process with a deadline; an outcome other than
//! "diagnostics" or "built" (panic, abort, signal, time-out, Cranelift / verifier error) is a
//! violation whose label is the panic location, so that known crashes are identified one by one.
use crate::c23;
use crate::core::{self, GenCfg};
use crate::report::Report;
use crate::rng::Rng;
use serde_json::json;
use std::io::Read;
use std::process::{Command, Stdio};
use std::sync::atomic::{AtomicUsize, Ordering};
use std::sync::{Arc, Mutex};
use std::time::{Duration, Instant};

#[derive(Clone, Debug)]
pub struct Verdict {
    pub class: String,
    pub detail: String,
}

fn classify(status: Option<i32>, signal: Option<i32>, timeout: bool, text: &str, exe: bool) -> Verdict {
    let v = |c: &str, d: String| Verdict { class: c.to_string(), detail: d };
    if timeout {
        return v("hang", "no result within the deadline".into());
    }
    if let Some(pos) = text.find("panicked at ") {
        let rest = &text[pos + 12..];
        let loc: String = rest.split_whitespace().next().unwrap_or("").trim_end_matches(':').to_string();
        // drop the column so that the label is stable against small edits on the line
        let file = loc.split(':').next().unwrap_or("").rsplit("crates/").next().unwrap_or("").to_string();
        let msg: String = rest.lines().nth(1).unwrap_or("").chars().take(160).collect();
        // the label is the file plus the start of the message with numbers blanked: stable against
        // line shifts, still specific to the failing assertion
        let key: String = msg.chars().take(48).map(|c| if c.is_ascii_digit() { '#' } else { c }).collect();
        let short = format!("{file}:{}", key.trim());
        return v(&format!("panic@{short}"), msg);
    }
    if let Some(s) = signal {
        return v(&format!("signal-{s}"), "compiler killed by a signal (stack overflow / abort)".into());
    }
    if text.contains("Cranelift Error") || text.contains("Error defining function") || text.contains("Verifier errors") {
        let l: String = text.lines().find(|l| l.contains("Error")).unwrap_or("").chars().take(160).collect();
        // the verifier's own message (`- inst18 (..): arg 0 (v18) has type i32, expected i64`), numbers
        // blanked, identifies the defect: two different verifier errors get two labels
        let detail: String = text
            .lines()
            .map(|x| x.trim())
            .find(|x| x.starts_with("arg ") || x.starts_with("mismatched ") || x.contains(" has type "))
            .or_else(|| text.lines().map(|x| x.trim()).find(|x| x.starts_with("- inst")))
            .unwrap_or("")
            .chars()
            .take(60)
            .map(|c| if c.is_ascii_digit() { '#' } else { c })
            .collect();
        if detail.is_empty() {
            return v("codegen-internal-error", l);
        }
        return v(&format!("codegen-internal-error:{}", detail.trim()), l);
    }
    if text.contains("stdout:") && text.contains("failed!") {
        return v("link-failed", text.lines().rev().take(3).collect::<Vec<_>>().join(" / "));
    }
    match status {
        Some(0) if exe => v("built", String::new()),
        Some(0) => v("exit0-without-executable", text.lines().last().unwrap_or("").to_string()),
        Some(1) => v("diagnostics", String::new()),
        other => v(&format!("exit-{other:?}"), text.lines().last().unwrap_or("").to_string()),
    }
}

pub fn compile_one(idx: usize, src: &str, deadline: Duration) -> Verdict {
    let base = std::env::var("CVH_SCRATCH").unwrap_or_else(|_| "/verif/.build/e2e".into());
    let dir = std::path::PathBuf::from(base).join(format!("c06_p{}_{}", std::process::id(), idx));
    let _ = std::fs::remove_dir_all(&dir);
    std::fs::create_dir_all(&dir).unwrap();
    std::fs::write(dir.join("main.capy"), src).unwrap();
    let mut child = match Command::new(crate::e2e::capy_bin())
        .current_dir(&dir)
        .args(["build", "main.capy", "--mod-dir", &crate::e2e::mod_dir(), "--color", "never", "-o", "prog"])
        .env("RUST_BACKTRACE", "0")
        .stdin(Stdio::null())
        .stdout(Stdio::piped())
        .stderr(Stdio::piped())
        .spawn()
    {
        Ok(c) => c,
        Err(e) => return Verdict { class: "spawn-failed".into(), detail: e.to_string() },
    };
    let mut so = child.stdout.take().unwrap();
    let mut se = child.stderr.take().unwrap();
    let t1 = std::thread::spawn(move || {
        let mut v = vec![];
        let _ = so.read_to_end(&mut v);
        v
    });
    let t2 = std::thread::spawn(move || {
        let mut v = vec![];
        let _ = se.read_to_end(&mut v);
        v
    });
    let start = Instant::now();
    let mut timeout = false;
    let status = loop {
        match child.try_wait() {
            Ok(Some(s)) => break Some(s),
            Ok(None) => {
                if start.elapsed() > deadline {
                    let _ = child.kill();
                    timeout = true;
                    break child.wait().ok();
                }
                std::thread::sleep(Duration::from_millis(5));
            }
            Err(_) => break None,
        }
    };
    let mut text = String::from_utf8_lossy(&t1.join().unwrap_or_default()).to_string();
    text.push_str(&String::from_utf8_lossy(&t2.join().unwrap_or_default()));
    #[cfg(unix)]
    let signal = {
        use std::os::unix::process::ExitStatusExt;
        status.and_then(|s| s.signal())
    };
    let exe = dir.join("out").join("prog").exists();
    let v = classify(status.and_then(|s| s.code()), if timeout { None } else { signal }, timeout, &text, exe);
    let _ = std::fs::remove_dir_all(&dir);
    v
}

/// (text, file name): a crash on a probe is identified by the probe, so that the same panic message
/// on ANOTHER program is still reported
fn probes() -> Vec<(String, String)> {
    let mut v = vec![];
    if let Ok(rd) = std::fs::read_dir("/verif/corpus/probes") {
        let mut ps: Vec<_> = rd.flatten().map(|e| e.path()).collect();
        ps.sort();
        for p in ps {
            if p.extension().map(|e| e == "capy").unwrap_or(false) {
                if let Ok(t) = std::fs::read_to_string(&p) {
                    v.push((t, p.file_name().map(|n| n.to_string_lossy().to_string()).unwrap_or_default()));
                }
            }
        }
    }
    v
}

/// Long chains of one construct inside a semantically checked position (the type checker walks
/// places, aliases, wrappers and conversions recursively): a walk that visits a sub-chain twice per
/// level is exponential and looks like a hang from depth ~25 on (seeded change C06_2: the
/// mutability walk called its helper twice on the immutable-pointer path). Depths 24, 64 and 200
/// (the bound of the property) for valid and invalid variants.
fn deep_chains() -> Vec<String> {
    let mut v = vec![];
    for n in [24usize, 64, 200] {
        for imm in [false, true] {
            let ptr = if imm { "^x" } else { "^mut x" };
            // a chain of local aliases of a pointer, written through at the end
            let mut s = format!("core :: #mod(\"core\");\nmain :: () {{\n    x := 1;\n    p0 := {ptr};\n");
            for i in 1..=n {
                s.push_str(&format!("    p{i} := p{};\n", i - 1));
            }
            s.push_str(&format!("    p{n}^ = 5;\n    core.println(x);\n}}\n"));
            v.push(s);
            // the same place behind n parentheses
            v.push(format!(
                "core :: #mod(\"core\");\nmain :: () {{\n    x := 1;\n    p := {ptr};\n    {}p{}^ = 5;\n    core.println(x);\n}}\n",
                "(".repeat(n),
                ")".repeat(n)
            ));
            // a chain of struct fields
            let mut t = String::from("core :: #mod(\"core\");\n");
            for i in 0..n {
                t.push_str(&format!("S{i} :: struct {{ f: {} }};\n", if i + 1 == n { "i32".to_string() } else { format!("S{}", i + 1) }));
            }
            let mut lit = String::from("7");
            for i in (0..n).rev() {
                lit = format!("S{i}.{{ f = {lit} }}");
            }
            t.push_str(&format!(
                "main :: () {{\n    s {} {lit};\n    s{} = 9;\n    core.println(s{});\n}}\n",
                if imm { "::" } else { ":=" },
                ".f".repeat(n),
                ".f".repeat(n)
            ));
            if n <= 64 {
                v.push(t);
            }
        }
        // chains of casts, of unary operators, of blocks, of `if` values and of nested calls
        v.push(format!("core :: #mod(\"core\");\nmain :: () {{\n    x : i64 = {}1{};\n    core.println(x);\n}}\n", "i64.(".repeat(n), ")".repeat(n)));
        v.push(format!("core :: #mod(\"core\");\nmain :: () {{\n    x : i64 = {}1;\n    core.println(x);\n}}\n", "-".repeat(n)));
        v.push(format!("core :: #mod(\"core\");\nmain :: () {{\n    x : i64 = {}1{};\n    core.println(x);\n}}\n", "{ ".repeat(n), " }".repeat(n)));
        v.push(format!(
            "core :: #mod(\"core\");\nid :: (v: i64) -> i64 {{ v }}\nmain :: () {{\n    x : i64 = {}1{};\n    core.println(x);\n}}\n",
            "id(".repeat(n),
            ")".repeat(n)
        ));
        if n <= 64 {
            v.push(format!(
                "core :: #mod(\"core\");\nmain :: () {{\n    t := true;\n    x : i64 = {}1{};\n    core.println(x);\n}}\n",
                "if t { ".repeat(n),
                " } else { 0 }".repeat(n)
            ));
        }
        // a chain of global aliases and of type aliases
        let mut g = String::from("core :: #mod(\"core\");\nG0 : i64 : 3;\nT0 :: i64;\n");
        for i in 1..=n {
            g.push_str(&format!("G{i} :: G{};\nT{i} :: T{};\n", i - 1, i - 1));
        }
        g.push_str(&format!("main :: () {{\n    x : T{n} = G{n};\n    core.println(x);\n}}\n"));
        v.push(g);
    }
    v
}

pub fn run(tier: &str, seed: u64, widen: bool) -> Report {
    let mut rep = Report::new(
        "C06",
        "real capy CLI in child processes with a deadline; outcome classes {diagnostics, built} vs anything else",
        "the probe corpus of past crashes first; chains of depth 24 / 64 / 200 of one construct in a checked position (local pointer aliases written through, parenthesised places, struct field paths, casts, unary operators, blocks, calls, `if` values, global and type aliases; mutable and immutable variants); token soups, nesting and corpus mutations (the generator of C23, source-file mode); seeded random UTF-8; generated well-typed CapyCore programs and 1-3 token/byte mutations of them (compiled together with the core module). Non-trivial = the front end got past parsing (no syntax error) or the input is a mutated well-typed program; distinct by source text",
    );
    if !crate::e2e::available() {
        rep.notes.push("capy CLI binary missing".into());
        return rep;
    }
    let mut rng = Rng::new(seed);
    let probe_files = probes();
    let probe_names: std::collections::HashMap<String, String> = probe_files.iter().cloned().collect();
    let mut inputs: Vec<(String, &'static str)> = probe_files.into_iter().map(|(t, _)| (t, "probe")).collect();
    for t in deep_chains() {
        inputs.push((t, "deep-chain"));
    }
    // parser-level inputs (a slice of C23's generator)
    let (p_inputs, _) = c23::gen_inputs("quick", seed, false);
    let n_soup = if widen { 6000 } else if tier == "thorough" { 2500 } else { 400 };
    let mut k = 0;
    for (t, repl) in p_inputs.iter().rev() {
        if *repl {
            continue;
        }
        if k >= n_soup {
            break;
        }
        if rng.chance(1, 3) {
            inputs.push((t.clone(), "soup-or-corpus-mutation"));
            k += 1;
        }
    }
    // well-typed programs and mutations of them
    let n_prog = if widen { 1500 } else if tier == "thorough" { 600 } else { 120 };
    let cfg = GenCfg { faults: false, ..GenCfg::default() };
    for _ in 0..n_prog {
        let p = core::gen_program(&mut rng, &cfg);
        let src = p.capy();
        if rng.chance(1, 6) {
            inputs.push((src.clone(), "well-typed"));
        }
        inputs.push((c23::mutate(&mut rng, &src), "mutated-well-typed"));
    }
    let n = inputs.len();
    let jobs = 14;
    let next = Arc::new(AtomicUsize::new(0));
    let results: Arc<Mutex<Vec<Option<Verdict>>>> = Arc::new(Mutex::new(vec![None; n]));
    let shared = Arc::new(inputs.clone());
    let mut hs = vec![];
    for _ in 0..jobs {
        let (nx, rs, inp) = (next.clone(), results.clone(), shared.clone());
        hs.push(std::thread::spawn(move || loop {
            let i = nx.fetch_add(1, Ordering::SeqCst);
            if i >= inp.len() {
                break;
            }
            let v = compile_one(i, &inp[i].0, Duration::from_secs(40));
            rs.lock().unwrap()[i] = Some(v);
        }));
    }
    for h in hs {
        let _ = h.join();
    }
    let mut results: Vec<Verdict> = results.lock().unwrap().iter().map(|v| v.clone().unwrap()).collect();
    // a time-out under load is confirmed alone before it is called a hang
    for i in 0..n {
        if results[i].class == "hang" {
            results[i] = compile_one(i, &inputs[i].0, Duration::from_secs(60));
        }
    }
    for ((src, kind), v) in inputs.iter().zip(results.iter()) {
        let nontrivial = *kind != "soup-or-corpus-mutation" || v.class == "built";
        rep.case(if nontrivial { Some(src.clone()) } else { None });
        rep.hit(&format!("{kind}:{}", if v.class.starts_with("panic@") { "panic" } else { &v.class }));
        if rep.evaluations % 211 == 3 {
            rep.sample(json!({"kind": kind, "outcome": v.class, "source": src.chars().take(300).collect::<String>()}));
        }
        if v.class != "built" && v.class != "diagnostics" {
            // crashes on inputs that are NOT valid programs are so numerous in the type checker
            // that they are identified by crate only; on valid programs (and for every other
            // stage or kind of failure) the exact site is the label
            let label = if v.class.starts_with("panic@") && *kind != "well-typed" && *kind != "probe" {
                {
                    // crate + the KIND of failure. The type checker leaves erroneous expressions
                    // untyped and later code trips over them at far too many sites to list one by one,
                    // but the kinds of failure are few (`known_findings.json` lists them); a panic whose
                    // message is none of these generic kinds keeps its own text, so that a new
                    // `unreachable!()`, `panic!(..)` or `.expect(..)` is still reported
                    let rest = &v.class["panic@".len()..];
                    let krate = rest.split('/').next().unwrap_or("?");
                    let msg = rest.splitn(2, ':').nth(1).unwrap_or("");
                    let kind_of: String = if msg.contains("was not given a type") {
                        "expression left without a type".into()
                    } else if msg.starts_with("assertion failed") || msg.starts_with("assertion `") {
                        "assertion failed".into()
                    } else if msg.contains("Option::unwrap()") {
                        "unwrap on None".into()
                    } else if msg.contains("no entry found for key") {
                        "no entry found for key".into()
                    } else if msg.contains("index out of bounds") || msg.contains("out of bounds of") || msg.contains("is out of bounds") {
                        "index out of bounds".into()
                    } else if msg.contains("not yet implemented") {
                        "not yet implemented".into()
                    } else if msg.contains("is not weak") {
                        "is not weak replaceable".into()
                    } else if msg.contains("didn't work") {
                        // `panic!("{} expr #{} didn't work", location, idx)`: the text starts with a location
                        "comptime argument didn't work".into()
                    } else {
                        let mut k = String::new();
                        for c in msg.chars().take(40) {
                            if c == '#' && k.ends_with('#') {
                                continue;
                            }
                            k.push(c);
                        }
                        k.trim().to_string()
                    };
                    format!("panic-on-invalid-input@{krate}:{kind_of}")
                }
            } else if *kind == "probe" {
                format!("{}#{}", v.class, probe_names.get(src).cloned().unwrap_or_default())
            } else {
                v.class.clone()
            };
            rep.oracle_fail(&label, json!({"source": src, "kind": kind}), json!(format!("{} {}", v.class, v.detail)), json!("diagnostics or an object file"), "the compiler crashed, hung or reported an internal error");
        }
    }
    rep.traces_validated = rep.evaluations;
    rep
}

pub fn replay(input: &serde_json::Value) -> String {
    let v = compile_one(0, input["source"].as_str().unwrap_or(""), Duration::from_secs(60));
    format!("implementation: {} {}\n{}", v.class, v.detail, if v.class == "built" || v.class == "diagnostics" { "AGREE" } else { "SPEC-MISMATCH" })
}
