//! C03 — defers. End-to-end correspondence: generated DeferLang programs are printed as Capy
//! source, built with the real CLI and run; the printed event trace is compared with the Lean
//! model of the code generator (`runCompiled`), and with an independent structural semantics
//! written here from the property text (the oracle).
//!
//! A `defer` holds a *body* (`defer { ... }`): prints, nested blocks and loops with their own
//! labels, `if`, nested `defer`s, and `break`/`continue` whose targets are inside the body
//! (HIR rejects jumps that leave a defer; `return`/`.try` are always rejected there).
use crate::e2e::{self, Program};
use crate::lean;
use crate::report::Report;
use crate::rng::Rng;
use serde_json::json;
use std::collections::BTreeSet;

#[derive(Clone, Debug, PartialEq)]
pub enum Stmt {
    Print(u32),
    /// `defer { body }`; `[Print(c)]` is the atomic defer `defer core.println(c)`
    Defer(Vec<Stmt>),
    Block(Option<u32>, Vec<Stmt>),
    Loop(u32, Vec<Stmt>),
    /// `l: while { cond-statements; <decision> } { body }`: the condition is a block of its own
    /// (defers, jumps to `l` or further out); `Stmt.loopC` in the Lean model.
    LoopC(u32, Vec<Stmt>, Vec<Stmt>),
    If(Vec<Stmt>),
    Brk(u32),
    Cont(u32),
    Try(u32),
}

const NDEC: usize = 48;

fn sexp_inner(stmts: &[Stmt]) -> String {
    let s = sexp(stmts);
    s[1..s.len() - 1].to_string()
}

pub fn sexp(stmts: &[Stmt]) -> String {
    let mut s = String::from("(");
    for (i, st) in stmts.iter().enumerate() {
        if i > 0 {
            s.push(' ');
        }
        match st {
            Stmt::Print(c) => s.push_str(&format!("(print {c})")),
            Stmt::Defer(b) => match b.as_slice() {
                [Stmt::Print(c)] => s.push_str(&format!("(defer {c})")),
                _ if b.is_empty() => s.push_str("(defer)"),
                _ => s.push_str(&format!("(defer {})", sexp_inner(b))),
            },
            Stmt::Block(l, b) => {
                s.push_str(&format!("(block {} {})", l.map(|x| x.to_string()).unwrap_or("-".into()), sexp_inner(b)));
            }
            Stmt::Loop(l, b) => s.push_str(&format!("(loop {l} {})", sexp_inner(b))),
            Stmt::LoopC(l, c, b) => s.push_str(&format!("(loopc {l} {} {})", sexp(c), sexp(b))),
            Stmt::If(b) => s.push_str(&format!("(if {})", sexp_inner(b))),
            Stmt::Brk(l) => s.push_str(&format!("(brk {l})")),
            Stmt::Cont(l) => s.push_str(&format!("(cont {l})")),
            Stmt::Try(l) => s.push_str(&format!("(try {l})")),
        }
    }
    s.push(')');
    // "(block - )" etc. for empty bodies: normalise the trailing blank
    s.replace(" )", ")")
}

fn capy(stmts: &[Stmt], ind: usize, out: &mut String) {
    let pad = "    ".repeat(ind);
    for st in stmts {
        match st {
            Stmt::Print(c) => out.push_str(&format!("{pad}core.println({c});\n")),
            // the atomic defer is printed both ways: as a bare call (no block, no frame) and
            // as a one-statement block
            Stmt::Defer(b) if matches!(b.as_slice(), [Stmt::Print(c)] if c % 2 == 1) => {
                if let [Stmt::Print(c)] = b.as_slice() {
                    out.push_str(&format!("{pad}defer core.println({c});\n"));
                }
            }
            Stmt::Defer(b) => {
                out.push_str(&format!("{pad}defer {{\n"));
                capy(b, ind + 1, out);
                out.push_str(&format!("{pad}}};\n"));
            }
            Stmt::Block(l, b) => {
                match l {
                    Some(l) => out.push_str(&format!("{pad}`b{l}: {{\n")),
                    None => out.push_str(&format!("{pad}{{\n")),
                }
                capy(b, ind + 1, out);
                out.push_str(&format!("{pad}}}\n"));
            }
            Stmt::Loop(l, b) => {
                out.push_str(&format!("{pad}`b{l}: while nxt(d, di) {{\n"));
                capy(b, ind + 1, out);
                out.push_str(&format!("{pad}}}\n"));
            }
            Stmt::LoopC(l, c, b) => {
                out.push_str(&format!("{pad}`b{l}: while {{\n"));
                capy(c, ind + 1, out);
                out.push_str(&format!("{pad}    nxt(d, di)\n{pad}}} {{\n"));
                capy(b, ind + 1, out);
                out.push_str(&format!("{pad}}}\n"));
            }
            Stmt::If(b) => {
                out.push_str(&format!("{pad}if nxt(d, di) {{\n"));
                capy(b, ind + 1, out);
                out.push_str(&format!("{pad}}}\n"));
            }
            Stmt::Brk(0) => out.push_str(&format!("{pad}return 7;\n")),
            Stmt::Brk(l) => out.push_str(&format!("{pad}break `b{l};\n")),
            Stmt::Cont(l) => out.push_str(&format!("{pad}continue `b{l};\n")),
            Stmt::Try(_) => out.push_str(&format!("{pad}opt(nxt(d, di)).try;\n")),
        }
    }
}

pub fn to_capy(body: &[Stmt], oracles: &[Vec<bool>]) -> String {
    let mut s = String::new();
    s.push_str("core :: #mod(\"core\");\n\n");
    s.push_str(&format!(
        "nxt :: (d: ^[{NDEC}]bool, di: ^mut usize) -> bool {{\n    i := di^;\n    di^ = i + 1;\n    if i < {NDEC} {{ d^[i] }} else {{ false }}\n}}\n\n"
    ));
    s.push_str("opt :: (fail: bool) -> ?u8 {\n    if fail { return nil; }\n    1\n}\n\n");
    s.push_str(&format!("body :: (d: ^[{NDEC}]bool, di: ^mut usize) -> ?u8 {{\n"));
    capy(body, 1, &mut s);
    s.push_str("    0\n}\n\nmain :: () {\n    di : usize = 0;\n");
    for (k, o) in oracles.iter().enumerate() {
        let mut bits: Vec<&str> = o.iter().map(|b| if *b { "true" } else { "false" }).collect();
        while bits.len() < NDEC {
            bits.push("false");
        }
        s.push_str(&format!("    d{k} := bool.[{}];\n    di = 0;\n    body(^d{k}, ^mut di);\n    core.println(9999);\n", bits.join(", ")));
    }
    s.push_str("}\n");
    s
}

// ---- static shape helpers -------------------------------------------------------------------

/// does `stmts` contain (anywhere, also inside nested defer bodies) a statement satisfying `f`
fn any(stmts: &[Stmt], f: &dyn Fn(&Stmt) -> bool) -> bool {
    count(stmts, f) > 0
}

fn count(stmts: &[Stmt], f: &dyn Fn(&Stmt) -> bool) -> usize {
    stmts
        .iter()
        .map(|s| {
            (if f(s) { 1 } else { 0 })
                + match s {
                    Stmt::Block(_, b) | Stmt::Loop(_, b) | Stmt::If(b) | Stmt::Defer(b) => count(b, f),
                    Stmt::LoopC(_, c, b) => count(c, f) + count(b, f),
                    _ => 0,
                }
        })
        .sum()
}

fn is_jump(s: &Stmt) -> bool {
    matches!(s, Stmt::Brk(_) | Stmt::Cont(_) | Stmt::Try(_))
}

fn is_atomic(b: &[Stmt]) -> bool {
    matches!(b, [Stmt::Print(_)])
}

/// labels declared in `stmts` outside deferred bodies
fn declared(stmts: &[Stmt], out: &mut BTreeSet<u32>) {
    for s in stmts {
        match s {
            Stmt::Block(l, b) => {
                if let Some(l) = l {
                    out.insert(*l);
                }
                declared(b, out);
            }
            Stmt::Loop(l, b) => {
                out.insert(*l);
                declared(b, out);
            }
            Stmt::LoopC(l, c, b) => {
                out.insert(*l);
                declared(c, out);
                declared(b, out);
            }
            Stmt::If(b) => declared(b, out),
            _ => {}
        }
    }
}

/// the kinds of jump in `stmts` (outside deferred bodies) that leave `stmts`
fn escaping(stmts: &[Stmt], out: &mut BTreeSet<&'static str>) {
    let mut decl = BTreeSet::new();
    declared(stmts, &mut decl);
    fn walk(stmts: &[Stmt], decl: &BTreeSet<u32>, out: &mut BTreeSet<&'static str>) {
        for s in stmts {
            match s {
                Stmt::Block(_, b) | Stmt::Loop(_, b) | Stmt::If(b) => walk(b, decl, out),
                Stmt::LoopC(_, c, b) => {
                    walk(c, decl, out);
                    walk(b, decl, out);
                }
                Stmt::Brk(0) => {
                    out.insert("return");
                }
                Stmt::Brk(l) if !decl.contains(l) => {
                    out.insert("break");
                }
                Stmt::Cont(l) if !decl.contains(l) => {
                    out.insert("continue");
                }
                Stmt::Try(_) => {
                    out.insert("try");
                }
                _ => {}
            }
        }
    }
    walk(stmts, &decl, out);
}

/// Static coverage of the defer-body shapes (one label per shape present in the program).
fn shapes(stmts: &[Stmt], in_defer: bool, out: &mut BTreeSet<String>) {
    let mut earlier_defer = false;
    for (i, s) in stmts.iter().enumerate() {
        match s {
            Stmt::Defer(b) => {
                if in_defer {
                    out.insert("defer-body:nested-defer".into());
                }
                if !is_atomic(b) {
                    out.insert("defer-body:non-trivial".into());
                    if any(b, &|s| matches!(s, Stmt::Loop(..))) {
                        out.insert("defer-body:inner-loop".into());
                    }
                    if any(b, &|s| matches!(s, Stmt::Cont(_))) {
                        out.insert("defer-body:inner-continue".into());
                    }
                    if any(b, &|s| matches!(s, Stmt::Brk(_))) {
                        out.insert("defer-body:inner-break".into());
                    }
                    if any(b, &|s| matches!(s, Stmt::Block(Some(_), _))) {
                        out.insert("defer-body:inner-labelled-block".into());
                    }
                    if any(b, &|s| matches!(s, Stmt::If(_))) {
                        out.insert("defer-body:inner-if".into());
                    }
                    if earlier_defer {
                        out.insert("defer-body:after-earlier-defer-of-same-frame".into());
                    }
                    // the re-entrancy shape: a deferred body with a jump of its own, registered
                    // after another defer of the same frame, and the frame is left by a jump
                    if earlier_defer && any(b, &is_jump) {
                        let mut kinds = BTreeSet::new();
                        escaping(&stmts[i + 1..], &mut kinds);
                        for k in kinds {
                            out.insert(format!("reentrant-unwind:frame-left-via-{k}"));
                        }
                    }
                }
                shapes(b, true, out);
                earlier_defer = true;
            }
            Stmt::Block(_, b) | Stmt::Loop(_, b) | Stmt::If(b) => shapes(b, in_defer, out),
            Stmt::LoopC(_, c, b) => {
                out.insert("loop-condition-is-a-block".into());
                if any(c, &is_jump) {
                    out.insert("loop-condition-is-a-block:with-jump".into());
                }
                if any(c, &|s| matches!(s, Stmt::Defer(_))) {
                    out.insert("loop-condition-is-a-block:with-defer".into());
                }
                shapes(c, in_defer, out);
                shapes(b, in_defer, out);
            }
            _ => {}
        }
    }
}

// ---- the oracle: structural semantics written from the property text ---------------------
//
// "Each executed defer runs exactly once, in LIFO order, on every exit path": a block
// activation that is left — by falling off its end, `break`, `continue`, `return` or `.try`
// propagation — runs the deferred bodies registered in it so far, newest first, each once.
// Running a deferred body is itself a block activation (own registrations, own jumps).

#[derive(Clone, Copy, PartialEq, Debug)]
enum Sig {
    Normal,
    Brk(u32),
    Cont(u32),
}

struct Run<'a> {
    trace: Vec<u32>,
    oracle: &'a [bool],
    pos: usize,
    /// dynamic coverage: what this run actually executed
    dynamic: BTreeSet<&'static str>,
    in_defer: u32,
}

impl<'a> Run<'a> {
    fn decide(&mut self) -> bool {
        let b = self.oracle.get(self.pos).copied().unwrap_or(false);
        self.pos += 1;
        b
    }
    /// Runs the statements of one block activation; on leaving (any way) runs what was
    /// registered in it, newest first.
    fn block(&mut self, stmts: &'a [Stmt]) -> Sig {
        let mut regs: Vec<&'a [Stmt]> = vec![];
        let mut sig = Sig::Normal;
        for st in stmts {
            sig = self.stmt(st, &mut regs);
            if sig != Sig::Normal {
                break;
            }
        }
        if sig != Sig::Normal && !regs.is_empty() {
            self.dynamic.insert("ran:frame-with-defers-left-by-jump");
            if regs.iter().any(|b| !is_atomic(b)) {
                self.dynamic.insert("ran:frame-with-block-defer-left-by-jump");
            }
            // a later-registered body with its own jump, above an earlier defer
            if regs.iter().skip(1).any(|b| any(b, &is_jump)) {
                self.dynamic.insert("ran:reentrant-unwind");
            }
        }
        for b in regs.iter().rev() {
            self.in_defer += 1;
            let s = self.block(b);
            self.in_defer -= 1;
            if s != Sig::Normal {
                // impossible for accepted programs (HIR: no jump leaves a defer)
                self.dynamic.insert("ILL-FORMED:jump-left-a-defer");
            }
        }
        sig
    }
    fn stmt(&mut self, st: &'a Stmt, regs: &mut Vec<&'a [Stmt]>) -> Sig {
        match st {
            Stmt::Print(c) => {
                self.trace.push(*c);
                Sig::Normal
            }
            Stmt::Defer(b) => {
                regs.push(b.as_slice());
                if self.in_defer > 0 {
                    self.dynamic.insert("ran:defer-registered-inside-defer-body");
                }
                Sig::Normal
            }
            Stmt::Block(l, b) => match self.block(b) {
                Sig::Brk(t) if Some(t) == *l => Sig::Normal,
                s => s,
            },
            Stmt::If(b) => {
                if self.decide() {
                    self.block(b)
                } else {
                    Sig::Normal
                }
            }
            Stmt::Loop(l, b) => {
                let mut guard = 0;
                loop {
                    guard += 1;
                    if guard > 10_000 || !self.decide() {
                        return Sig::Normal;
                    }
                    match self.block(b) {
                        Sig::Normal => {}
                        Sig::Brk(t) if t == *l => return Sig::Normal,
                        Sig::Cont(t) if t == *l => {
                            if self.in_defer > 0 {
                                self.dynamic.insert("ran:continue-inside-defer-body");
                            }
                        }
                        s => return s,
                    }
                }
            }
            Stmt::LoopC(l, c, b) => {
                let mut guard = 0;
                loop {
                    guard += 1;
                    if guard > 10_000 {
                        return Sig::Normal;
                    }
                    // the condition block: its statements, then the decision (the tail
                    // expression), then what was deferred in it
                    let mut cregs: Vec<&'a [Stmt]> = vec![];
                    let mut sig = Sig::Normal;
                    for st in c {
                        sig = self.stmt(st, &mut cregs);
                        if sig != Sig::Normal {
                            break;
                        }
                    }
                    let go = if sig == Sig::Normal { self.decide() } else { false };
                    for d in cregs.iter().rev() {
                        self.in_defer += 1;
                        let _ = self.block(d);
                        self.in_defer -= 1;
                    }
                    match sig {
                        Sig::Normal => {
                            if !go {
                                return Sig::Normal;
                            }
                        }
                        Sig::Brk(t) if t == *l => {
                            self.dynamic.insert("ran:break-in-loop-condition");
                            return Sig::Normal;
                        }
                        Sig::Cont(t) if t == *l => {
                            self.dynamic.insert("ran:continue-in-loop-condition");
                            continue;
                        }
                        s => {
                            self.dynamic.insert("ran:jump-out-of-loop-condition");
                            return s;
                        }
                    }
                    match self.block(b) {
                        Sig::Normal => {}
                        Sig::Brk(t) if t == *l => return Sig::Normal,
                        Sig::Cont(t) if t == *l => {}
                        s => return s,
                    }
                }
            }
            Stmt::Brk(l) => {
                if self.in_defer > 0 {
                    self.dynamic.insert("ran:break-inside-defer-body");
                }
                Sig::Brk(*l)
            }
            Stmt::Cont(l) => Sig::Cont(*l),
            Stmt::Try(l) => {
                if self.decide() {
                    Sig::Brk(*l)
                } else {
                    Sig::Normal
                }
            }
        }
    }
}

pub fn spec_run<'a>(body: &'a [Stmt], oracle: &'a [bool]) -> (Vec<u32>, BTreeSet<&'static str>) {
    let mut r = Run { trace: vec![], oracle, pos: 0, dynamic: BTreeSet::new(), in_defer: 0 };
    let _ = r.block(body); // the function body is the block `return` targets
    (r.trace, r.dynamic)
}

pub fn spec_trace(body: &[Stmt], oracle: &[bool]) -> Vec<u32> {
    spec_run(body, oracle).0
}

// ---- generator ---------------------------------------------------------------------------

struct Gen<'a> {
    rng: &'a mut Rng,
    next_event: u32,
    next_label: u32,
}

impl<'a> Gen<'a> {
    /// ctx: enclosing labelled constructs *inside the current defer body* (or the function),
    /// innermost last: (label, is_loop). `ddepth` = how many defer bodies enclose us.
    fn stmts(&mut self, depth: u32, ctx: &mut Vec<(u32, bool)>, in_loop_body: bool, ddepth: u32) -> Vec<Stmt> {
        let n = 1 + self.rng.below(5) as usize;
        let mut out = vec![];
        let mut defers = 0;
        for k in 0..n {
            let last = k + 1 == n;
            let choice = self.rng.below(100);
            if choice < 22 {
                out.push(Stmt::Print(self.ev()));
            } else if choice < 47 && defers < 3 {
                defers += 1;
                let b = self.defer_body(depth, ddepth);
                out.push(Stmt::Defer(b));
            } else if choice < 57 && depth < 4 {
                let labelled = self.rng.chance(2, 3);
                let l = if labelled { Some(self.label()) } else { None };
                if let Some(l) = l {
                    ctx.push((l, false));
                }
                let b = self.stmts(depth + 1, ctx, false, ddepth);
                if l.is_some() {
                    ctx.pop();
                }
                out.push(Stmt::Block(l, b));
            } else if choice < 69 && depth < 4 {
                let l = self.label();
                ctx.push((l, true));
                let b = self.stmts(depth + 1, ctx, true, ddepth);
                ctx.pop();
                out.push(Stmt::Loop(l, b));
            } else if choice < 86 && depth < 5 {
                // conditional jump or conditional nested statements
                let b = if self.rng.chance(3, 5) { vec![self.jump(ctx, ddepth)] } else { self.stmts(depth + 1, ctx, false, ddepth) };
                out.push(Stmt::If(b));
            } else if choice < 92 && ddepth == 0 {
                out.push(Stmt::Try(0));
            } else if last && (depth > 0 || in_loop_body) {
                // an unconditional jump as the last statement of a nested block
                out.push(self.jump(ctx, ddepth));
            } else {
                out.push(Stmt::Print(self.ev()));
            }
        }
        out
    }
    /// a jump that HIR accepts here: inside a defer body only to labels of that body
    fn jump(&mut self, ctx: &[(u32, bool)], ddepth: u32) -> Stmt {
        let loops: Vec<u32> = ctx.iter().filter(|c| c.1).map(|c| c.0).collect();
        if !loops.is_empty() && self.rng.chance(1, 3) {
            return Stmt::Cont(*self.rng.pick(&loops));
        }
        if ddepth > 0 {
            if ctx.is_empty() {
                return Stmt::Print(self.ev());
            }
            return Stmt::Brk(self.rng.pick(ctx).0);
        }
        if self.rng.chance(1, 4) || ctx.is_empty() {
            return Stmt::Brk(0);
        }
        Stmt::Brk(self.rng.pick(ctx).0)
    }
    /// `i: while ? { [defer ..;] [print;] if ? { continue i | break i } [print] }`
    fn inner_loop(&mut self, depth: u32, ddepth: u32) -> Stmt {
        let l = self.label();
        let mut b = vec![];
        if self.rng.chance(1, 3) && ddepth < 3 {
            let nb = self.defer_body(depth + 1, ddepth);
            b.push(Stmt::Defer(nb));
        }
        if self.rng.chance(1, 2) {
            b.push(Stmt::Print(self.ev()));
        }
        let j = if self.rng.chance(1, 2) { Stmt::Cont(l) } else { Stmt::Brk(l) };
        b.push(Stmt::If(vec![j]));
        if self.rng.chance(2, 3) {
            b.push(Stmt::Print(self.ev()));
        }
        Stmt::Loop(l, b)
    }
    /// the body of a `defer` that is itself inside `ddepth` defer bodies
    fn defer_body(&mut self, depth: u32, ddepth: u32) -> Vec<Stmt> {
        let r = if ddepth >= 3 { 0 } else { self.rng.below(100) };
        let dd = ddepth + 1;
        if r < 42 {
            vec![Stmt::Print(self.ev())]
        } else if r < 64 {
            // inner loop left/continued by a conditional jump
            let mut b = vec![];
            if self.rng.chance(1, 3) {
                b.push(Stmt::Defer(self.defer_body(depth + 1, dd)));
            }
            b.push(self.inner_loop(depth + 1, dd));
            b.push(Stmt::Print(self.ev()));
            b
        } else if r < 76 {
            // nested defers inside the deferred block
            let mut b = vec![Stmt::Defer(self.defer_body(depth + 1, dd))];
            b.push(Stmt::Print(self.ev()));
            if self.rng.chance(1, 2) {
                b.push(Stmt::Defer(self.defer_body(depth + 1, dd)));
            }
            if self.rng.chance(1, 3) {
                b.push(self.inner_loop(depth + 1, dd));
            }
            b
        } else if r < 86 {
            // labelled block left early
            let l = self.label();
            let mut inner = vec![];
            if self.rng.chance(1, 2) {
                inner.push(Stmt::Defer(self.defer_body(depth + 1, dd)));
            }
            inner.push(Stmt::If(vec![Stmt::Brk(l)]));
            inner.push(Stmt::Print(self.ev()));
            vec![Stmt::Block(Some(l), inner), Stmt::Print(self.ev())]
        } else {
            let mut ctx = vec![];
            self.stmts((depth + 1).max(2), &mut ctx, false, dd)
        }
    }
    /// A frame holding an earlier defer, then a deferred block with control flow of its own,
    /// which is then left by a jump — placed in the function body, a labelled block or a
    /// loop body, with random statements around.
    fn scenario(&mut self) -> Vec<Stmt> {
        let mut frame = vec![];
        if self.rng.chance(1, 3) {
            frame.push(Stmt::Print(self.ev()));
        }
        let first = if self.rng.chance(2, 3) { vec![Stmt::Print(self.ev())] } else { self.defer_body(1, 0) };
        frame.push(Stmt::Defer(first));
        if self.rng.chance(1, 3) {
            frame.push(Stmt::Defer(vec![Stmt::Print(self.ev())]));
        }
        // the deferred block with a jump of its own
        let mut b = vec![];
        if self.rng.chance(1, 3) {
            b.push(Stmt::Defer(self.defer_body(2, 1)));
        }
        if self.rng.chance(3, 4) {
            b.push(self.inner_loop(2, 1));
        } else {
            let l = self.label();
            b.push(Stmt::Block(Some(l), vec![Stmt::If(vec![Stmt::Brk(l)]), Stmt::Print(self.ev())]));
        }
        b.push(Stmt::Print(self.ev()));
        frame.push(Stmt::Defer(b));
        if self.rng.chance(1, 3) {
            frame.push(Stmt::Defer(self.defer_body(1, 0)));
        }
        if self.rng.chance(1, 2) {
            frame.push(Stmt::Print(self.ev()));
        }
        let kind = self.rng.below(3);
        let mut out = vec![];
        if self.rng.chance(1, 2) {
            out.push(Stmt::Defer(vec![Stmt::Print(self.ev())]));
        }
        match kind {
            0 => {
                // the function body itself, left by return / .try
                match self.rng.below(3) {
                    0 => frame.push(Stmt::If(vec![Stmt::Print(self.ev()), Stmt::Brk(0)])),
                    1 => frame.push(Stmt::Try(0)),
                    _ => {
                        let l = self.label();
                        frame.push(Stmt::Loop(l, vec![Stmt::Defer(vec![Stmt::Print(self.ev())]), Stmt::If(vec![Stmt::Brk(0)]), Stmt::Print(self.ev())]));
                    }
                }
                frame.push(Stmt::Print(self.ev()));
                out.extend(frame);
            }
            1 => {
                let l = self.label();
                match self.rng.below(3) {
                    0 => frame.push(Stmt::If(vec![Stmt::Brk(l)])),
                    1 => frame.push(Stmt::If(vec![Stmt::Brk(0)])),
                    _ => frame.push(Stmt::Try(0)),
                }
                frame.push(Stmt::Print(self.ev()));
                out.push(Stmt::Block(Some(l), frame));
                out.push(Stmt::Print(self.ev()));
            }
            _ => {
                let l = self.label();
                frame.push(Stmt::If(vec![Stmt::Print(self.ev()), Stmt::Cont(l)]));
                match self.rng.below(3) {
                    0 => frame.push(Stmt::If(vec![Stmt::Brk(l)])),
                    1 => frame.push(Stmt::If(vec![Stmt::Brk(0)])),
                    _ => frame.push(Stmt::Try(0)),
                }
                out.push(Stmt::Loop(l, frame));
                out.push(Stmt::Print(self.ev()));
            }
        }
        if self.rng.chance(1, 3) {
            let mut ctx = vec![];
            let more = self.stmts(2, &mut ctx, false, 0);
            out.extend(more);
        }
        out
    }
    /// Two nested loops; the outer body (or a block between the loops) registers defers before the
    /// inner loop; the inner loop is the target of a jump of its own and holds a jump to the OUTER
    /// loop (`continue `outer` / `break `outer`), in either order, with nothing or something
    /// deferred in the inner body (seeded change C03_3: the unwinding of a labelled `continue`
    /// stopped at the first loop frame).
    fn nested_loops(&mut self) -> Vec<Stmt> {
        let lo = self.label();
        let li = self.label();
        let mut inner = vec![];
        if self.rng.chance(1, 4) {
            inner.push(Stmt::Defer(self.defer_body(3, 0)));
        }
        if self.rng.chance(1, 2) {
            inner.push(Stmt::Print(self.ev()));
        }
        let own = Stmt::If(vec![if self.rng.chance(1, 2) { Stmt::Brk(li) } else { Stmt::Cont(li) }]);
        let out_jump = match self.rng.below(5) {
            0 | 1 | 2 => Stmt::Cont(lo),
            3 => Stmt::Brk(lo),
            _ => Stmt::Brk(0),
        };
        let to_outer = if self.rng.chance(1, 3) { Stmt::If(vec![Stmt::If(vec![out_jump])]) } else { Stmt::If(vec![out_jump]) };
        if self.rng.chance(1, 2) {
            inner.push(own);
            inner.push(to_outer);
        } else {
            inner.push(to_outer);
            inner.push(own);
        }
        if self.rng.chance(1, 2) {
            inner.push(Stmt::Print(self.ev()));
        }
        if self.rng.chance(1, 5) {
            inner.push(Stmt::Defer(vec![Stmt::Print(self.ev())]));
        }
        let mut mid = vec![];
        if self.rng.chance(1, 2) {
            mid.push(Stmt::Defer(vec![Stmt::Print(self.ev())]));
        }
        mid.push(Stmt::Loop(li, inner));
        if self.rng.chance(1, 2) {
            mid.push(Stmt::Print(self.ev()));
        }
        let mut outer = vec![];
        if self.rng.chance(1, 3) {
            outer.push(Stmt::Print(self.ev()));
        }
        outer.push(Stmt::Defer(if self.rng.chance(3, 4) { vec![Stmt::Print(self.ev())] } else { self.defer_body(2, 0) }));
        if self.rng.chance(1, 3) {
            outer.push(Stmt::Defer(vec![Stmt::Print(self.ev())]));
        }
        match self.rng.below(3) {
            0 => outer.push(Stmt::Block(None, mid)),
            1 => {
                let l = self.label();
                outer.push(Stmt::Block(Some(l), mid));
            }
            _ => outer.extend(mid),
        }
        outer.push(Stmt::Print(self.ev()));
        let mut out = vec![];
        if self.rng.chance(1, 2) {
            out.push(Stmt::Defer(vec![Stmt::Print(self.ev())]));
        }
        out.push(Stmt::Loop(lo, outer));
        out.push(Stmt::Print(self.ev()));
        out
    }
    /// A loop whose CONDITION is a block with a jump of its own (`break` / `continue` of that loop,
    /// or a jump further out), inside frames that hold defers (fix 2c2d7e7: such a `break` ran the
    /// defers of every enclosing block).
    fn cond_loop(&mut self) -> Vec<Stmt> {
        let lo = self.label();
        let l = self.label();
        let mut cond = vec![];
        if self.rng.chance(1, 3) {
            cond.push(Stmt::Defer(vec![Stmt::Print(self.ev())]));
        }
        if self.rng.chance(1, 3) {
            cond.push(Stmt::Print(self.ev()));
        }
        let j = match self.rng.below(6) {
            0 | 1 | 2 => Stmt::Brk(l),
            3 => Stmt::Cont(l),
            4 => Stmt::Brk(lo),
            _ => Stmt::Brk(0),
        };
        cond.push(Stmt::If(if self.rng.chance(1, 3) { vec![Stmt::Print(self.ev()), j] } else { vec![j] }));
        let mut body = vec![];
        if self.rng.chance(2, 3) {
            body.push(Stmt::Defer(vec![Stmt::Print(self.ev())]));
        }
        body.push(Stmt::Print(self.ev()));
        if self.rng.chance(1, 3) {
            body.push(Stmt::If(vec![if self.rng.chance(1, 2) { Stmt::Cont(l) } else { Stmt::Brk(l) }]));
        }
        let mut frame = vec![];
        frame.push(Stmt::Defer(if self.rng.chance(3, 4) { vec![Stmt::Print(self.ev())] } else { self.defer_body(2, 0) }));
        if self.rng.chance(1, 3) {
            frame.push(Stmt::Defer(vec![Stmt::Print(self.ev())]));
        }
        frame.push(Stmt::LoopC(l, cond, body));
        frame.push(Stmt::Print(self.ev()));
        let mut out = vec![];
        if self.rng.chance(1, 2) {
            out.push(Stmt::Defer(vec![Stmt::Print(self.ev())]));
        }
        match self.rng.below(3) {
            0 => out.push(Stmt::Block(Some(lo), frame)),
            1 => {
                frame.insert(0, Stmt::Print(self.ev()));
                out.push(Stmt::Loop(lo, frame));
            }
            _ => {
                // `lo` must exist for `break lo`: wrap in a labelled block without defers
                out.push(Stmt::Block(Some(lo), vec![Stmt::Block(None, frame)]));
            }
        }
        out.push(Stmt::Print(self.ev()));
        out
    }
    fn ev(&mut self) -> u32 {
        self.next_event += 1;
        self.next_event
    }
    fn label(&mut self) -> u32 {
        self.next_label += 1;
        self.next_label
    }
}

pub fn gen_program(rng: &mut Rng) -> Vec<Stmt> {
    let which = rng.below(10);
    let mut g = Gen { rng, next_event: 0, next_label: 0 };
    if which < 4 {
        return g.scenario();
    }
    if which < 6 {
        return g.nested_loops();
    }
    if which < 7 {
        return g.cond_loop();
    }
    let mut ctx = vec![];
    g.stmts(0, &mut ctx, false, 0)
}

fn parse_traces(stdout: &str) -> Vec<Vec<u32>> {
    let mut all = vec![];
    let mut cur = vec![];
    for line in stdout.lines() {
        match line.trim().parse::<u32>() {
            Ok(9999) => all.push(std::mem::take(&mut cur)),
            Ok(n) => cur.push(n),
            Err(_) => cur.push(u32::MAX),
        }
    }
    all
}

fn fmt(t: &[u32]) -> String {
    t.iter().map(|x| x.to_string()).collect::<Vec<_>>().join(",")
}

fn d(c: u32) -> Stmt {
    Stmt::Defer(vec![Stmt::Print(c)])
}

fn corpus() -> Vec<Vec<Stmt>> {
    use Stmt::*;
    vec![
        // the two confirmed defects of the pinned tree (corpus/probes/C03_defer_break_continue.capy)
        vec![d(1), Loop(10, vec![d(2), If(vec![Brk(10)]), Print(3)]), Print(4),
             Loop(11, vec![d(5), If(vec![Cont(11)]), Print(6)]), Print(7)],
        // early break / return before a later defer of the same block
        vec![Block(Some(5), vec![d(1), If(vec![Brk(5)]), d(2), Print(3)]), Print(4),
             d(6), If(vec![Brk(0)]), d(7), Print(8)],
        // jump out of a loop nested inside blocks with their own defers
        vec![d(1), Block(Some(2), vec![d(3), Loop(4, vec![d(5), Block(None, vec![d(6), If(vec![Brk(2)]), If(vec![Cont(4)]), Try(0)]), Print(7)]), Print(8)]), Print(9)],
        // seeded/C03_1 demo, `with_break` / `with_untaken_break`: two defers, the later one has a
        // loop with a `break` of its own; the function is left by `return` or by falling off
        vec![d(1), Defer(vec![Loop(5, vec![If(vec![Brk(5)]), Print(6)]), Print(2)]),
             If(vec![Print(3), Brk(0)]), Print(4)],
        // seeded/C03_1 demo, `in_loop`: three defers in a loop body left by `continue` / `break`;
        // the last one has a loop with a `continue` of its own
        vec![Loop(6, vec![d(1), d(2), Defer(vec![Loop(7, vec![If(vec![Cont(7)]), Print(8)]), Print(3)]),
                          If(vec![Print(4), Cont(6)]), If(vec![Print(5), Brk(6)])]), Print(9)],
        // the same frame left by `.try`, the deferred block holds a nested defer and a labelled block
        vec![d(1), Defer(vec![d(10), Block(Some(3), vec![d(11), If(vec![Brk(3)]), Print(12)]), Print(2)]),
             Try(0), Print(4)],
        // defer body with a loop, a conditional `continue` and a nested defer in the loop body
        // (the `deferLoop` example of Props/C03.lean)
        vec![d(1), Defer(vec![Loop(5, vec![d(2), If(vec![Cont(5)]), Print(3)]), Print(4)]),
             If(vec![Brk(0)]), Print(6)],
        // seeded/C03_3 demo: `continue `outer` from an inner loop that has a jump of its own; the
        // outer body deferred something before the inner loop (both orders of the two jumps)
        vec![d(1), Loop(2, vec![d(3), Loop(4, vec![If(vec![Cont(2)]), If(vec![Brk(4)]), Print(5)]), Print(6)]), Print(7)],
        vec![Loop(2, vec![d(3), d(8), Block(None, vec![d(9), Loop(4, vec![If(vec![Cont(4)]), If(vec![Cont(2)]), Print(5)])]), Print(6)]), Print(7)],
        // `break` / `continue` inside a block CONDITION of a `while` (fix 2c2d7e7: the function's
        // defers ran at the jump and again at the end)
        vec![d(1), LoopC(2, vec![If(vec![Brk(2)])], vec![d(3), Print(4)]), Print(5)],
        vec![d(1), Block(Some(6), vec![d(7), LoopC(2, vec![d(8), If(vec![Cont(2)]), If(vec![Brk(6)])], vec![d(3), Print(4)]), Print(5)]), Print(9)],
    ]
}

pub fn run(tier: &str, seed: u64, widen: bool) -> Report {
    let mut rep = Report::new(
        "C03",
        "real capy CLI + built executable (event trace on stdout) vs Lean model CapyV.Defer.runCompiled (and runSpec) on generated DeferLang programs",
        "corpus of past failures first (incl. the seeded/C03_1 demo), then seeded random programs: <= 4 nested blocks/loops below the function body, <= 3 defers per block, a defer holds a body (atomic print, or a block with inner labelled loops/blocks, if, conditional break/continue to inner labels, nested defers, <= 3 defer levels), break/continue/return/.try in every position (conditional and as last statement), 2 of 5 programs are built around a frame with an earlier defer + a deferred block with its own jump that is left by a jump, 1 of 5 around two nested loops where the inner one has its own jump and a jump to the outer one past defers of the outer body, 1 of 10 around a loop whose condition is a block with defers and a jump; each program run under 6 decision sequences of up to 48 decisions; non-trivial = the program has a defer and a jump (break/continue/return/.try); distinct by (program, decisions)",
    );
    if !e2e::available() {
        rep.notes.push("capy CLI binary missing".into());
        return rep;
    }
    let mut rng = Rng::new(seed);
    let n_prog = if widen { 1500 } else if tier == "thorough" { 600 } else { 64 };
    let mut bodies = corpus();
    while bodies.len() < n_prog {
        bodies.push(gen_program(&mut rng));
    }
    let mut cases = vec![];
    for b in &bodies {
        let mut oracles: Vec<Vec<bool>> = vec![vec![], vec![true; NDEC]];
        for k in 0..4 {
            let bias = 2 + k; // of 6
            oracles.push((0..NDEC).map(|_| rng.chance(bias, 7)).collect());
        }
        cases.push((b.clone(), oracles));
    }
    let progs: Vec<Program> = cases.iter().map(|(b, o)| Program::single(&to_capy(b, o))).collect();
    let outcomes = e2e::run_all(&progs, e2e::Limits::default());
    // ask the model
    let mut reqs = vec![];
    for (b, os) in &cases {
        for o in os {
            let bits: String = if o.is_empty() { "-".into() } else { o.iter().map(|x| if *x { '1' } else { '0' }).collect() };
            reqs.push(format!("C03 run 1000 {} {}", bits, sexp(b)));
        }
    }
    let answers = lean::ask(&reqs);
    let mut ai = 0;
    for ((b, os), out) in cases.iter().zip(outcomes.iter()) {
        let sx = sexp(b);
        let has_defer = count(b, &|s| matches!(s, Stmt::Defer(_))) > 0;
        let jumps = count(b, &is_jump);
        rep.hit(&format!("jumps-in-program={}", jumps.min(6)));
        let mut sh = BTreeSet::new();
        shapes(b, false, &mut sh);
        for s in &sh {
            rep.hit(s);
        }
        let traces = if out.built && out.run_status == Some(0) { Some(parse_traces(&out.stdout())) } else { None };
        if traces.is_none() {
            rep.hit(if out.built { "run-failed" } else { "not-built" });
        }
        for (k, o) in os.iter().enumerate() {
            let model = answers[ai].clone();
            ai += 1;
            let (spec, dynamic) = spec_run(b, o);
            for dflag in &dynamic {
                rep.hit(dflag);
            }
            let bits: String = o.iter().map(|x| if *x { '1' } else { '0' }).collect();
            let input = json!({"program": sx, "decisions": bits});
            let nontrivial = has_defer && jumps > 0;
            rep.case(if nontrivial { Some(format!("{sx}|{bits}")) } else { None });
            let got = match &traces {
                Some(t) if k < t.len() => fmt(&t[k]),
                Some(_) => "MISSING-RUN".to_string(),
                None => format!("NOT-RUN({} {})", out.run_summary(), out.compile_out.lines().filter(|l| l.contains("error") || l.contains("panicked")).take(2).collect::<Vec<_>>().join(" / ")),
            };
            if rep.evaluations % 97 == 1 {
                rep.sample(json!({"program": sx, "decisions": bits, "trace": got}));
            }
            // model comparison: the compiled-code model must predict the real trace
            let model_compiled = model.split(' ').next().unwrap_or("").trim_start_matches("compiled=").to_string();
            if model != "?" && model_compiled != got {
                rep.disagree(input.clone(), json!(got), json!(model));
            }
            // oracle: the structural semantics
            if got != fmt(&spec) {
                let got_events: Vec<&str> = got.split(',').filter(|g| !g.is_empty()).collect();
                let label = if traces.is_none() {
                    "program-not-built-or-crashed"
                } else if spec.iter().any(|c| !got_events.iter().any(|g| *g == c.to_string())) {
                    "defer-or-event-missing"
                } else if got_events.len() > spec.len() {
                    "defer-ran-twice-or-unreached-defer-ran"
                } else {
                    "wrong-order"
                };
                rep.oracle_fail(label, input, json!(got), json!(fmt(&spec)), "printed event trace differs from the structural defer semantics");
            }
        }
    }
    rep.traces_validated = rep.evaluations;
    rep
}

pub fn replay(input: &serde_json::Value) -> String {
    format!("re-run with the same seed; program: {} decisions: {}", input["program"], input["decisions"])
}
