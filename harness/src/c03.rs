//! C03 — defers. End-to-end correspondence: generated DeferLang programs are printed as Capy
//! source, built with the real CLI and run; the printed event trace is compared with the Lean
//! model of the code generator (`runCompiled`), and with an independent structural semantics
//! written here from the property text (the oracle).
use crate::e2e::{self, Program};
use crate::lean;
use crate::report::Report;
use crate::rng::Rng;
use serde_json::json;

#[derive(Clone, Debug)]
pub enum Stmt {
    Print(u32),
    Defer(u32),
    Block(Option<u32>, Vec<Stmt>),
    Loop(u32, Vec<Stmt>),
    If(Vec<Stmt>),
    Brk(u32),
    Cont(u32),
    Try(u32),
}

const NDEC: usize = 48;

pub fn sexp(stmts: &[Stmt]) -> String {
    let mut s = String::from("(");
    for (i, st) in stmts.iter().enumerate() {
        if i > 0 {
            s.push(' ');
        }
        match st {
            Stmt::Print(c) => s.push_str(&format!("(print {c})")),
            Stmt::Defer(c) => s.push_str(&format!("(defer {c})")),
            Stmt::Block(l, b) => {
                let inner = sexp(b);
                s.push_str(&format!("(block {} {})", l.map(|x| x.to_string()).unwrap_or("-".into()), &inner[1..inner.len() - 1]));
            }
            Stmt::Loop(l, b) => {
                let inner = sexp(b);
                s.push_str(&format!("(loop {l} {})", &inner[1..inner.len() - 1]));
            }
            Stmt::If(b) => {
                let inner = sexp(b);
                s.push_str(&format!("(if {})", &inner[1..inner.len() - 1]));
            }
            Stmt::Brk(l) => s.push_str(&format!("(brk {l})")),
            Stmt::Cont(l) => s.push_str(&format!("(cont {l})")),
            Stmt::Try(l) => s.push_str(&format!("(try {l})")),
        }
    }
    s.push(')');
    s
}

fn capy(stmts: &[Stmt], ind: usize, out: &mut String) {
    let pad = "    ".repeat(ind);
    for st in stmts {
        match st {
            Stmt::Print(c) => out.push_str(&format!("{pad}core.println({c});\n")),
            Stmt::Defer(c) => out.push_str(&format!("{pad}defer core.println({c});\n")),
            Stmt::Block(l, b) => {
                match l {
                    Some(l) => out.push_str(&format!("{pad}`b{l}: {{\n")),
                    None => out.push_str(&format!("{pad}{{\n")),
                }
                capy(b, ind + 1, out);
                out.push_str(&format!("{pad}}}\n"));
            }
            Stmt::Loop(l, b) => {
                out.push_str(&format!("{pad}`b{l}: while nxt(d, di) {{\n"));
                capy(b, ind + 1, out);
                out.push_str(&format!("{pad}}}\n"));
            }
            Stmt::If(b) => {
                out.push_str(&format!("{pad}if nxt(d, di) {{\n"));
                capy(b, ind + 1, out);
                out.push_str(&format!("{pad}}}\n"));
            }
            Stmt::Brk(0) => out.push_str(&format!("{pad}return 7;\n")),
            Stmt::Brk(l) => out.push_str(&format!("{pad}break `b{l};\n")),
            Stmt::Cont(l) => out.push_str(&format!("{pad}continue `b{l};\n")),
            Stmt::Try(_) => out.push_str(&format!("{pad}opt(nxt(d, di)).try;\n")),
        }
    }
}

pub fn to_capy(body: &[Stmt], oracles: &[Vec<bool>]) -> String {
    let mut s = String::new();
    s.push_str("core :: #mod(\"core\");\n\n");
    s.push_str(&format!(
        "nxt :: (d: ^[{NDEC}]bool, di: ^mut usize) -> bool {{\n    i := di^;\n    di^ = i + 1;\n    if i < {NDEC} {{ d^[i] }} else {{ false }}\n}}\n\n"
    ));
    s.push_str("opt :: (fail: bool) -> ?u8 {\n    if fail { return nil; }\n    1\n}\n\n");
    s.push_str(&format!("body :: (d: ^[{NDEC}]bool, di: ^mut usize) -> ?u8 {{\n"));
    capy(body, 1, &mut s);
    s.push_str("    0\n}\n\nmain :: () {\n    di : usize = 0;\n");
    for (k, o) in oracles.iter().enumerate() {
        let mut bits: Vec<&str> = o.iter().map(|b| if *b { "true" } else { "false" }).collect();
        while bits.len() < NDEC {
            bits.push("false");
        }
        s.push_str(&format!("    d{k} := bool.[{}];\n    di = 0;\n    body(^d{k}, ^mut di);\n    core.println(9999);\n", bits.join(", ")));
    }
    s.push_str("}\n");
    s
}

// ---- the oracle: structural semantics written from the property text ---------------------

#[derive(Clone, Copy, PartialEq, Debug)]
enum Sig {
    Normal,
    Brk(u32),
    Cont(u32),
}

struct Run<'a> {
    trace: Vec<u32>,
    oracle: &'a [bool],
    pos: usize,
}

impl<'a> Run<'a> {
    fn decide(&mut self) -> bool {
        let b = self.oracle.get(self.pos).copied().unwrap_or(false);
        self.pos += 1;
        b
    }
    /// Runs the statements of one block activation; on leaving (any way) runs what was
    /// registered in it, newest first.
    fn block(&mut self, stmts: &[Stmt]) -> Sig {
        let mut regs: Vec<u32> = vec![];
        let mut sig = Sig::Normal;
        for st in stmts {
            sig = self.stmt(st, &mut regs);
            if sig != Sig::Normal {
                break;
            }
        }
        for c in regs.iter().rev() {
            self.trace.push(*c);
        }
        sig
    }
    fn stmt(&mut self, st: &Stmt, regs: &mut Vec<u32>) -> Sig {
        match st {
            Stmt::Print(c) => {
                self.trace.push(*c);
                Sig::Normal
            }
            Stmt::Defer(c) => {
                regs.push(*c);
                Sig::Normal
            }
            Stmt::Block(l, b) => match self.block(b) {
                Sig::Brk(t) if Some(t) == *l => Sig::Normal,
                s => s,
            },
            Stmt::If(b) => {
                if self.decide() {
                    self.block(b)
                } else {
                    Sig::Normal
                }
            }
            Stmt::Loop(l, b) => {
                let mut guard = 0;
                loop {
                    guard += 1;
                    if guard > 10_000 || !self.decide() {
                        return Sig::Normal;
                    }
                    match self.block(b) {
                        Sig::Normal => {}
                        Sig::Brk(t) if t == *l => return Sig::Normal,
                        Sig::Cont(t) if t == *l => {}
                        s => return s,
                    }
                }
            }
            Stmt::Brk(l) => Sig::Brk(*l),
            Stmt::Cont(l) => Sig::Cont(*l),
            Stmt::Try(l) => {
                if self.decide() {
                    Sig::Brk(*l)
                } else {
                    Sig::Normal
                }
            }
        }
    }
}

pub fn spec_trace(body: &[Stmt], oracle: &[bool]) -> Vec<u32> {
    let mut r = Run { trace: vec![], oracle, pos: 0 };
    let _ = r.block(body); // the function body is the block `return` targets
    r.trace
}

// ---- generator ---------------------------------------------------------------------------

struct Gen<'a> {
    rng: &'a mut Rng,
    next_event: u32,
    next_label: u32,
}

impl<'a> Gen<'a> {
    /// ctx: enclosing labelled constructs, innermost last: (label, is_loop)
    fn stmts(&mut self, depth: u32, ctx: &mut Vec<(u32, bool)>, in_loop_body: bool) -> Vec<Stmt> {
        let n = 1 + self.rng.below(5) as usize;
        let mut out = vec![];
        let mut defers = 0;
        for k in 0..n {
            let last = k + 1 == n;
            let choice = self.rng.below(100);
            if choice < 22 {
                out.push(Stmt::Print(self.ev()));
            } else if choice < 47 && defers < 3 {
                defers += 1;
                out.push(Stmt::Defer(self.ev()));
            } else if choice < 57 && depth < 4 {
                let labelled = self.rng.chance(2, 3);
                let l = if labelled { Some(self.label()) } else { None };
                if let Some(l) = l {
                    ctx.push((l, false));
                }
                let b = self.stmts(depth + 1, ctx, false);
                if l.is_some() {
                    ctx.pop();
                }
                out.push(Stmt::Block(l, b));
            } else if choice < 69 && depth < 4 {
                let l = self.label();
                ctx.push((l, true));
                let b = self.stmts(depth + 1, ctx, true);
                ctx.pop();
                out.push(Stmt::Loop(l, b));
            } else if choice < 86 && depth < 5 {
                // conditional jump or conditional nested statements
                let b = if self.rng.chance(3, 5) { vec![self.jump(ctx)] } else { self.stmts(depth + 1, ctx, false) };
                out.push(Stmt::If(b));
            } else if choice < 92 {
                out.push(Stmt::Try(0));
            } else if last && (depth > 0 || in_loop_body) {
                // an unconditional jump as the last statement of a nested block
                out.push(self.jump(ctx));
            } else {
                out.push(Stmt::Print(self.ev()));
            }
        }
        out
    }
    fn jump(&mut self, ctx: &[(u32, bool)]) -> Stmt {
        let loops: Vec<u32> = ctx.iter().filter(|c| c.1).map(|c| c.0).collect();
        if !loops.is_empty() && self.rng.chance(1, 3) {
            return Stmt::Cont(*self.rng.pick(&loops));
        }
        if self.rng.chance(1, 4) || ctx.is_empty() {
            return Stmt::Brk(0);
        }
        Stmt::Brk(self.rng.pick(ctx).0)
    }
    fn ev(&mut self) -> u32 {
        self.next_event += 1;
        self.next_event
    }
    fn label(&mut self) -> u32 {
        self.next_label += 1;
        self.next_label
    }
}

pub fn gen_program(rng: &mut Rng) -> Vec<Stmt> {
    let mut g = Gen { rng, next_event: 0, next_label: 0 };
    let mut ctx = vec![];
    g.stmts(0, &mut ctx, false)
}

fn count(stmts: &[Stmt], f: &dyn Fn(&Stmt) -> bool) -> usize {
    stmts
        .iter()
        .map(|s| {
            (if f(s) { 1 } else { 0 })
                + match s {
                    Stmt::Block(_, b) | Stmt::Loop(_, b) | Stmt::If(b) => count(b, f),
                    _ => 0,
                }
        })
        .sum()
}

fn parse_traces(stdout: &str) -> Vec<Vec<u32>> {
    let mut all = vec![];
    let mut cur = vec![];
    for line in stdout.lines() {
        match line.trim().parse::<u32>() {
            Ok(9999) => all.push(std::mem::take(&mut cur)),
            Ok(n) => cur.push(n),
            Err(_) => cur.push(u32::MAX),
        }
    }
    all
}

fn fmt(t: &[u32]) -> String {
    t.iter().map(|x| x.to_string()).collect::<Vec<_>>().join(",")
}

fn corpus() -> Vec<Vec<Stmt>> {
    use Stmt::*;
    vec![
        // the two confirmed defects of the pinned tree (corpus/probes/C03_defer_break_continue.capy)
        vec![Defer(1), Loop(10, vec![Defer(2), If(vec![Brk(10)]), Print(3)]), Print(4),
             Loop(11, vec![Defer(5), If(vec![Cont(11)]), Print(6)]), Print(7)],
        // early break / return before a later defer of the same block
        vec![Block(Some(5), vec![Defer(1), If(vec![Brk(5)]), Defer(2), Print(3)]), Print(4),
             Defer(6), If(vec![Brk(0)]), Defer(7), Print(8)],
        // jump out of a loop nested inside blocks with their own defers
        vec![Defer(1), Block(Some(2), vec![Defer(3), Loop(4, vec![Defer(5), Block(None, vec![Defer(6), If(vec![Brk(2)]), If(vec![Cont(4)]), Try(0)]), Print(7)]), Print(8)]), Print(9)],
    ]
}

pub fn run(tier: &str, seed: u64, widen: bool) -> Report {
    let mut rep = Report::new(
        "C03",
        "real capy CLI + built executable (event trace on stdout) vs Lean model CapyV.Defer.runCompiled (and runSpec) on generated DeferLang programs",
        "corpus of past failures first, then seeded random programs: <= 4 nested blocks/loops below the function body, <= 3 defers per block, break/continue/return/.try in every position (conditional and as last statement), each program run under 6 decision sequences of up to 48 decisions; non-trivial = the run executed a jump (break/continue/return/.try) with at least one defer registered in the program; distinct by (program, decisions)",
    );
    if !e2e::available() {
        rep.notes.push("capy CLI binary missing".into());
        return rep;
    }
    let mut rng = Rng::new(seed);
    let n_prog = if widen { 1500 } else if tier == "thorough" { 600 } else { 64 };
    let mut bodies = corpus();
    while bodies.len() < n_prog {
        bodies.push(gen_program(&mut rng));
    }
    let mut cases = vec![];
    for b in &bodies {
        let mut oracles: Vec<Vec<bool>> = vec![vec![], vec![true; NDEC]];
        for k in 0..4 {
            let bias = 2 + k; // of 6
            oracles.push((0..NDEC).map(|_| rng.chance(bias, 7)).collect());
        }
        cases.push((b.clone(), oracles));
    }
    let progs: Vec<Program> = cases.iter().map(|(b, o)| Program::single(&to_capy(b, o))).collect();
    let outcomes = e2e::run_all(&progs, e2e::Limits::default());
    // ask the model
    let mut reqs = vec![];
    for (b, os) in &cases {
        for o in os {
            let bits: String = if o.is_empty() { "-".into() } else { o.iter().map(|x| if *x { '1' } else { '0' }).collect() };
            reqs.push(format!("C03 run 1000 {} {}", bits, sexp(b)));
        }
    }
    let answers = lean::ask(&reqs);
    let mut ai = 0;
    for ((b, os), out) in cases.iter().zip(outcomes.iter()) {
        let sx = sexp(b);
        let has_defer = count(b, &|s| matches!(s, Stmt::Defer(_))) > 0;
        let jumps = count(b, &|s| matches!(s, Stmt::Brk(_) | Stmt::Cont(_) | Stmt::Try(_)));
        rep.hit(&format!("jumps-in-program={}", jumps.min(6)));
        let traces = if out.built && out.run_status == Some(0) { Some(parse_traces(&out.stdout())) } else { None };
        if traces.is_none() {
            rep.hit(if out.built { "run-failed" } else { "not-built" });
        }
        for (k, o) in os.iter().enumerate() {
            let model = answers[ai].clone();
            ai += 1;
            let spec = spec_trace(b, o);
            let bits: String = o.iter().map(|x| if *x { '1' } else { '0' }).collect();
            let input = json!({"program": sx, "decisions": bits});
            // did this run take a jump? (trace differs from the jump-free reading is hard to
            // know; use: spec trace shorter than the number of prints+defers reachable)
            let nontrivial = has_defer && jumps > 0;
            rep.case(if nontrivial { Some(format!("{sx}|{bits}")) } else { None });
            let got = match &traces {
                Some(t) if k < t.len() => fmt(&t[k]),
                Some(_) => "MISSING-RUN".to_string(),
                None => format!("NOT-RUN({} {})", out.run_summary(), out.compile_out.lines().filter(|l| l.contains("error") || l.contains("panicked")).take(2).collect::<Vec<_>>().join(" / ")),
            };
            if rep.evaluations % 97 == 1 {
                rep.sample(json!({"program": sx, "decisions": bits, "trace": got}));
            }
            let expect_model = format!("compiled={} spec={}", got, got);
            // model comparison: the compiled-code model must predict the real trace
            let model_compiled = model.split(' ').next().unwrap_or("").trim_start_matches("compiled=").to_string();
            if model != "?" && model_compiled != got {
                rep.disagree(input.clone(), json!(got), json!(model));
            }
            let _ = expect_model;
            // oracle: the structural semantics
            if got != fmt(&spec) {
                let label = if traces.is_none() {
                    "program-not-built-or-crashed"
                } else if spec.iter().filter(|c| !got.split(',').any(|g| g == c.to_string())).count() > 0 {
                    "defer-or-event-missing"
                } else if got.split(',').filter(|g| !g.is_empty()).count() > spec.len() {
                    "defer-ran-twice-or-unreached-defer-ran"
                } else {
                    "wrong-order"
                };
                rep.oracle_fail(label, input, json!(got), json!(fmt(&spec)), "printed event trace differs from the structural defer semantics");
            }
        }
    }
    rep.traces_validated = rep.evaluations;
    rep
}

pub fn replay(input: &serde_json::Value) -> String {
    format!("re-run with the same seed; program: {} decisions: {}", input["program"], input["decisions"])
}
