//! C22 — lexing is total and lossless.
//! Correspondence: real `lexer::lex` observed through `Tokens::{len,kind,range}` and
//! `Tokens::iter()` vs the Lean model `CapyV.Lexer.lex`.
//! Oracle: the declarative spec (lossless cover + kind agrees with text), decided on the
//! implementation's own output by the Lean-verified checker `checkLex` (`checkLex_sound`),
//! plus a Rust re-statement of the cover clauses (independent of Lean) and the no-panic
//! clause (`catch_unwind`).
use crate::lean;
use crate::report::Report;
use crate::rng::Rng;
use serde_json::json;
use std::collections::BTreeSet;
use std::panic::{catch_unwind, AssertUnwindSafe};

/// 24 symbols covering every token-starting class: letters (keyword `as`, exponent `e`,
/// radix `x` `b`, hex digits), digits, `_`, both quotes, backslash, slash, dot, the operators
/// that form two-character tokens, space, newline, a non-ASCII character.
const ALPHABET: [&str; 24] = [
    "a", "s", "e", "x", "b", "0", "1", "_", "'", "\"", "\\", "/", ".", "-", "+", ">", "=", "<", "!", "&", "|",
    " ", "\n", "é",
];

#[derive(Clone, Debug, PartialEq)]
struct Observed {
    kinds: Vec<String>,
    starts: Vec<u32>,
}

impl Observed {
    fn show(&self) -> String {
        let ks = if self.kinds.is_empty() { "-".to_string() } else { self.kinds.join(",") };
        let ss: Vec<String> = self.starts.iter().map(|s| s.to_string()).collect();
        format!("{} {}", ks, ss.join(","))
    }
}

/// `lex` + every `kind(i)` / `range(i)`; a panic anywhere is an outcome.
fn impl_lex(text: &str) -> Result<Observed, String> {
    catch_unwind(AssertUnwindSafe(|| {
        let tokens = lexer::lex(text);
        let n = tokens.len();
        let mut kinds = Vec::with_capacity(n);
        let mut starts = Vec::with_capacity(n + 1);
        let mut prev_end: Option<u32> = None;
        let mut contiguous = true;
        for i in 0..n {
            kinds.push(format!("{:?}", tokens.kind(i)));
            let r = tokens.range(i);
            let (s, e) = (u32::from(r.start()), u32::from(r.end()));
            if let Some(p) = prev_end {
                if p != s {
                    contiguous = false;
                }
            }
            starts.push(s);
            prev_end = Some(e);
        }
        // the extra last entry of `starts` is only observable as the end of the last range
        starts.push(prev_end.unwrap_or(0));
        (Observed { kinds, starts }, contiguous)
    }))
    .map_err(|e| panic_text(e))
    .and_then(|(o, c)| if c { Ok(o) } else { Err("NON-CONTIGUOUS ranges".into()) })
}

fn panic_text(e: Box<dyn std::any::Any + Send>) -> String {
    let msg = if let Some(s) = e.downcast_ref::<&str>() {
        s.to_string()
    } else if let Some(s) = e.downcast_ref::<String>() {
        s.clone()
    } else {
        "?".into()
    };
    let short: String = msg.chars().take(90).collect();
    format!("PANIC {}", short.replace('\n', " "))
}

/// full traversal of `Tokens::iter()` and a traversal of the first `len()` items only
fn impl_iter(text: &str) -> (Result<usize, String>, Result<Vec<(String, u32, u32)>, String>) {
    let full = catch_unwind(AssertUnwindSafe(|| lexer::lex(text).iter().count())).map_err(panic_text);
    let part = catch_unwind(AssertUnwindSafe(|| {
        let t = lexer::lex(text);
        let n = t.len();
        t.iter().take(n).map(|(k, r)| (format!("{k:?}"), u32::from(r.start()), u32::from(r.end()))).collect::<Vec<_>>()
    }))
    .map_err(panic_text);
    (full, part)
}

/// Cover clauses of the property, re-stated in Rust (no Lean involved).
fn cover_oracle(text: &str, o: &Observed) -> Result<(), &'static str> {
    if o.starts.len() != o.kinds.len() + 1 {
        return Err("cover:length");
    }
    if o.starts[0] != 0 {
        return Err("cover:first-start-not-0");
    }
    if *o.starts.last().unwrap() as usize != text.len() {
        return Err("cover:end-not-text-len");
    }
    for w in o.starts.windows(2) {
        if w[0] > w[1] {
            return Err("cover:starts-decrease");
        }
    }
    for &s in &o.starts {
        if !text.is_char_boundary(s as usize) {
            return Err("cover:boundary-inside-char");
        }
    }
    Ok(())
}

fn enumerate(alphabet: &[String], max_len: usize, out: &mut Vec<String>) {
    let mut cur: Vec<usize> = vec![];
    loop {
        out.push(cur.iter().map(|&i| alphabet[i].as_str()).collect());
        let mut i = cur.len();
        loop {
            if i == 0 {
                if cur.len() == max_len {
                    return;
                }
                cur = vec![0; cur.len() + 1];
                break;
            }
            i -= 1;
            if cur[i] + 1 < alphabet.len() {
                cur[i] += 1;
                for j in i + 1..cur.len() {
                    cur[j] = 0;
                }
                break;
            }
        }
    }
}

/// every ASCII code point plus scalar values from the classes logos' UTF-8 automaton
/// distinguishes (NBSP, Latin-1, Unicode decimal digits of 2/3/4 bytes, their neighbours)
fn wide_alphabet() -> Vec<String> {
    let mut v: Vec<String> = (0u8..128).map(|b| (b as char).to_string()).collect();
    for cp in [
        0x80u32, 0x85, 0xA0, 0xA1, 0xE9, 0x65F, 0x660, 0x663, 0x669, 0x66A, 0x7C0, 0x7FF, 0x800, 0x966, 0x2028, 0x3000,
        0x4E2D, 0xFEFF, 0xFF10, 0xFF19, 0xFF1A, 0xFFFD, 0x10000, 0x104A0, 0x1D7CE, 0x1F600, 0x1FBF0, 0x10FFFF,
    ] {
        v.push(char::from_u32(cp).unwrap().to_string());
    }
    v
}

fn random_unicode(rng: &mut Rng, max: usize) -> String {
    let n = rng.below(max as u64 + 1) as usize;
    let mut s = String::new();
    let pieces = [
        "\"", "'", "\\", "//", "/", ".", "..", "...", "0x", "0b", "1", "9", "_", "e", "E", "+", "-", "true", "false", "as",
        "if", "else", "->", "=>", "==", "<<", ">>", "&&", "||", "!=", "<=", ">=", "#", "`", "^", "~", "?", "\u{a0}",
        "\r\n", "\t", "٣", "０", "𝟘",
    ];
    while s.len() < n {
        match rng.below(16) {
            0 => s.push('\n'),
            1 => s.push(' '),
            2 => s.push(char::from_u32(0x80 + rng.below(0x780) as u32).unwrap_or('é')),
            3 => s.push(char::from_u32(0x800 + rng.below(0xD000) as u32).unwrap_or('中')),
            4 => s.push(char::from_u32(0x10000 + rng.below(0xFFFFF) as u32).unwrap_or('😀')),
            5 => s.push(char::from_u32(rng.below(0x80) as u32).unwrap()),
            6 | 7 | 8 | 9 => s.push_str(*rng.pick(&pieces[..])),
            10 => s.push((b'0' + rng.below(10) as u8) as char),
            _ => s.push((b'a' + rng.below(26) as u8) as char),
        }
    }
    s
}

fn corpus_files() -> Vec<String> {
    fn walk(dir: &std::path::Path, out: &mut Vec<std::path::PathBuf>) {
        let Ok(rd) = std::fs::read_dir(dir) else { return };
        let mut entries: Vec<_> = rd.flatten().map(|e| e.path()).collect();
        entries.sort();
        for p in entries {
            if p.is_dir() {
                if p.file_name().map(|n| n == "target" || n == ".git").unwrap_or(false) {
                    continue;
                }
                walk(&p, out);
            } else if matches!(p.extension().and_then(|e| e.to_str()), Some("capy") | Some("test")) {
                out.push(p);
            }
        }
    }
    let mut files = vec![];
    for d in ["/repo/examples", "/repo/core", "/repo/crates"] {
        walk(std::path::Path::new(d), &mut files);
    }
    let mut texts = vec![];
    for f in files {
        let Ok(t) = std::fs::read_to_string(&f) else { continue };
        let t = if f.extension().and_then(|e| e.to_str()) == Some("test") {
            t.split("\n===\n").next().unwrap_or("").to_string()
        } else {
            t
        };
        if !t.is_empty() {
            texts.push(t);
        }
    }
    texts
}

fn floor_boundary(s: &str, mut i: usize) -> usize {
    i = i.min(s.len());
    while !s.is_char_boundary(i) {
        i -= 1;
    }
    i
}

fn mutate(rng: &mut Rng, corpus: &[String]) -> String {
    let base = rng.pick(corpus).clone();
    let mut s = base;
    // grow towards 64 KiB sometimes
    if rng.chance(1, 12) {
        while s.len() < 40_000 {
            let more = rng.pick(corpus).clone();
            s.push_str(&more);
        }
    }
    let inserts = [
        "\"", "'", "\\", "\\\"", "//", "/", "\n", "\r", ".", "..", "0x", "0b", "1e", "1.", "_", "é", "\u{a0}", "٣", "😀",
        "\"\\", "'\\", "e+", "E-", "true", "as",
    ];
    let k = 1 + rng.below(6);
    for _ in 0..k {
        let pos = floor_boundary(&s, rng.below(s.len() as u64 + 1) as usize);
        match rng.below(5) {
            0 => s.insert_str(pos, *rng.pick(&inserts[..])),
            1 => {
                // delete a short span
                let end = floor_boundary(&s, pos + 1 + rng.below(4) as usize);
                if end > pos {
                    s.replace_range(pos..end, "");
                }
            }
            2 => {
                // truncate (unterminated strings / comments at EOF)
                s.truncate(pos);
            }
            3 => {
                // duplicate a span
                let end = floor_boundary(&s, pos + rng.below(40) as usize);
                let span = s[pos..end].to_string();
                s.insert_str(pos, &span);
            }
            _ => {
                // replace one char
                let end = floor_boundary(&s, pos + 1);
                if let Some(c) = s[pos..].chars().next() {
                    let e = pos + c.len_utf8();
                    s.replace_range(pos..e.max(end), *rng.pick(&inserts[..]));
                }
            }
        }
    }
    if s.len() > 65536 {
        let cut = floor_boundary(&s, 65536);
        s.truncate(cut);
    }
    s
}

fn key_of(text: &str) -> String {
    if text.len() <= 24 {
        lean::hex(text.as_bytes())
    } else {
        // FNV-1a of the text: distinctness key for long inputs
        let mut h: u64 = 0xcbf29ce484222325;
        for b in text.as_bytes() {
            h ^= *b as u64;
            h = h.wrapping_mul(0x100000001b3);
        }
        format!("h{:016x}:{}", h, text.len())
    }
}

/// ASCII-only rendering (`\u{..}` escapes): the report is one JSON line and some consumers
/// split lines on U+0085 / U+2028
fn printable(s: &str) -> String {
    s.chars().flat_map(|c| c.escape_default()).collect()
}

fn input_json(text: &str) -> serde_json::Value {
    if text.len() <= 200 {
        json!({"text_hex": lean::hex(text.as_bytes()), "text": printable(text)})
    } else {
        json!({"text_hex": lean::hex(text.as_bytes())})
    }
}

fn check_texts(texts: &[String], rep: &mut Report, stream: &str) {
    let observed: Vec<Result<Observed, String>> = texts.iter().map(|t| impl_lex(t)).collect();
    let reqs: Vec<String> = texts
        .iter()
        .zip(observed.iter())
        .map(|(t, o)| match o {
            Ok(o) => format!("C22 both {} {}", lean::hex(t.as_bytes()), o.show()),
            Err(_) => format!("C22 both {} - 0", lean::hex(t.as_bytes())),
        })
        .collect();
    let answers = lean::ask(&reqs);
    for ((t, o), ans) in texts.iter().zip(observed.iter()).zip(answers.iter()) {
        let mut parts = ans.split(" | ");
        let model_lex = parts.next().unwrap_or("?").to_string();
        let spec = parts.next().unwrap_or("?").to_string();
        let model_iter = parts.next().unwrap_or("?").to_string();
        rep.hit(&format!("stream:{stream}"));
        match o {
            Err(p) => {
                rep.case(Some(key_of(t)));
                rep.hit("impl:panic");
                rep.oracle_fail("lex_panics", input_json(t), json!(p), json!("no panic"), "lexer::lex / Tokens::kind / Tokens::range panicked");
                if ans != "?" {
                    rep.disagree(input_json(t), json!(p), json!(model_lex));
                }
                continue;
            }
            Ok(o) => {
                let distinct: BTreeSet<&String> = o.kinds.iter().collect();
                rep.case(if distinct.len() >= 2 { Some(key_of(t)) } else { None });
                for k in &distinct {
                    rep.hit(&format!("kind:{k}"));
                }
                if !t.is_ascii() {
                    rep.hit("text:non-ascii");
                }
                rep.hit(&format!("tokens:{}", match o.kinds.len() { 0 => "0", 1 => "1", 2..=4 => "2-4", 5..=63 => "5-63", _ => "64+" }));
                if rep.evaluations % 39_119 == 7 || (stream != "exhaustive24" && rep.evaluations % 211 == 3) {
                    let shown: String = t.chars().take(60).collect();
                    rep.sample(json!({"text_prefix": printable(&shown), "bytes": t.len(), "tokens": o.kinds.len(),
                        "implementation": o.show().chars().take(300).collect::<String>(), "spec_check": spec}));
                }
                let shown = o.show();
                if ans != "?" && shown != model_lex {
                    rep.disagree(input_json(t), json!(shown.chars().take(400).collect::<String>()), json!(model_lex.chars().take(400).collect::<String>()));
                }
                // oracle 1: cover clauses, in Rust
                if let Err(label) = cover_oracle(t, o) {
                    rep.oracle_fail(label, input_json(t), json!(shown), json!("lossless cover"), "tokens do not cover the text exactly");
                }
                // oracle 2: the verified checker on the implementation's output
                if spec != "ok" && spec != "?" {
                    let label = spec.split(' ').nth(1).unwrap_or("spec");
                    rep.oracle_fail(&format!("spec:{label}"), input_json(t), json!(shown), json!(spec), "implementation's tokens fail the declarative spec (checkLex)");
                }
            }
        }
        // observing the tokens through `Tokens::iter()`
        let (full, part) = impl_iter(t);
        let o = o.as_ref().unwrap();
        let n = o.kinds.len();
        let full_s = match &full {
            Ok(c) => format!("ok:{c}"),
            Err(p) => if p.contains("zip_eq") { "PANIC zip_eq".to_string() } else { p.clone() },
        };
        let part_s = match &part {
            Ok(v) => format!("ok:{}", v.len()),
            Err(p) => if p.contains("zip_eq") { "PANIC zip_eq".to_string() } else { p.clone() },
        };
        let got_iter = format!("iter={full_s} take_len={part_s}");
        if ans != "?" && got_iter != model_iter {
            rep.disagree(input_json(t), json!(got_iter), json!(model_iter));
        }
        match &full {
            Ok(c) if *c == n => rep.hit("iter:full-ok"),
            Ok(c) => rep.oracle_fail("tokens_iter_count", input_json(t), json!(c), json!(n), "Tokens::iter() yields a different number of items than len()"),
            Err(p) => {
                rep.hit("iter:full-panics");
                let label = if p.contains("zip_eq") { "tokens_iter_zip_eq" } else { "tokens_iter_panics" };
                rep.oracle_fail(label, input_json(t), json!(p), json!(format!("{n} items, no panic")),
                    "a full traversal of Tokens::iter() (what `Debug for Tokens` does) panics");
            }
        }
        match &part {
            Ok(v) => {
                let want: Vec<(String, u32, u32)> = (0..n).map(|i| (o.kinds[i].clone(), o.starts[i], o.starts[i + 1])).collect();
                if *v != want {
                    rep.oracle_fail("tokens_iter_items", input_json(t), json!(format!("{v:?}")), json!(format!("{want:?}")),
                        "the first len() items of Tokens::iter() differ from (kind(i), range(i))");
                }
            }
            Err(p) => rep.oracle_fail("tokens_iter_take_panics", input_json(t), json!(p), json!("no panic"), "iter().take(len()) panics"),
        }
    }
}

/// the generated kind table vs the real `syntax::TokenKind` (Debug names by discriminant)
fn check_kind_table(rep: &mut Report) {
    let ans = lean::ask(&["C22 kinds".to_string()]);
    if ans[0] == "?" {
        return;
    }
    let names: Vec<&str> = ans[0].split(',').collect();
    let last = syntax::TokenKind::Error as usize;
    let mut real = vec![];
    if last < 256 && std::mem::size_of::<syntax::TokenKind>() == 1 {
        for i in 0..=last {
            // SAFETY: fieldless enum without explicit discriminants, `Error` is its last
            // variant (checked against the generated table below), so 0..=last are valid.
            let k: syntax::TokenKind = unsafe { std::mem::transmute::<u8, syntax::TokenKind>(i as u8) };
            real.push(format!("{k:?}"));
        }
    }
    rep.case(Some("kind-table".into()));
    rep.hit("kind-table");
    rep.traces_validated += 1;
    let model: Vec<String> = names.iter().map(|s| s.to_string()).collect();
    if real != model {
        rep.disagree(json!({"what": "TokenKind Debug names by discriminant"}), json!(real.join(",")), json!(model.join(",")));
    }
}

/// The documented spelling of every fixed-text token kind and one text per pattern-defined class
/// (the same table as Lean's `CapyV.C22Doc.documented` / `documented_classes`): each text, lexed
/// alone, must be exactly one token of that kind. Independent of the rule table that the model is
/// regenerated from, so a corrupted rule (seeded change C22_2: the non-breaking space rule became a
/// 77-character literal) is a failing input and not only a broken obligation.
const DOCUMENTED: &[(&str, &str)] = &[
    ("As", "as"), ("If", "if"), ("Else", "else"), ("While", "while"), ("Loop", "loop"), ("Switch", "switch"),
    ("In", "in"), ("Distinct", "distinct"), ("Mut", "mut"), ("Extern", "extern"), ("Struct", "struct"),
    ("Enum", "enum"), ("Comptime", "comptime"), ("Return", "return"), ("Break", "break"),
    ("Continue", "continue"), ("Defer", "defer"), ("Try", "try"), ("Catch", "catch"), ("Plus", "+"),
    ("Hyphen", "-"), ("Asterisk", "*"), ("Slash", "/"), ("Percent", "%"), ("Left", "<"), ("DoubleLeft", "<<"),
    ("LeftEquals", "<="), ("Right", ">"), ("DoubleRight", ">>"), ("RightEquals", ">="), ("Bang", "!"),
    ("BangEquals", "!="), ("And", "&"), ("DoubleAnd", "&&"), ("Pipe", "|"), ("DoublePipe", "||"),
    ("Equals", "="), ("DoubleEquals", "=="), ("Tilde", "~"), ("Comma", ","), ("Dot", "."), ("Ellipsis", "..."),
    ("Question", "?"), ("Arrow", "->"), ("FatArrow", "=>"), ("Caret", "^"), ("Backtick", "`"), ("LParen", "("),
    ("RParen", ")"), ("LBrack", "["), ("RBrack", "]"), ("LBrace", "{"), ("RBrace", "}"), ("Colon", ":"),
    ("Semicolon", ";"), ("Hash", "#"),
    // pattern-defined classes
    ("NonBreakingSpace", "\u{a0}"), ("Whitespace", " \t\n"), ("Ident", "x_1"), ("Int", "1_0"), ("Hex", "0xFf"),
    ("Bin", "0b10"), ("Float", "1.5"), ("Bool", "true"), ("Bool", "false"), ("Error", "@"),
];

/// the documented shape of number literals: where a literal ends (Lean: `documented_float_shape`)
const DOCUMENTED_SPLITS: &[(&str, &str)] = &[
    ("1.5e3", "Float"), ("1.5e+3", "Float"), ("1_0.2_5e1_0", "Float"), ("1.5e_", "Float,Ident"),
    ("1.5e_3", "Float,Ident"), (".1e_", "Float,Ident"), ("1.5e+_", "Float,Ident,Plus,Ident"), ("1.5e", "Float,Ident"),
    ("1.5E_x", "Float,Ident"), ("2.0e-_k", "Float,Ident,Hyphen,Ident"),
];

fn check_documented(rep: &mut Report) {
    for (text, kinds) in DOCUMENTED_SPLITS {
        rep.case(Some(format!("documented-split|{text}")));
        rep.hit("documented-number-shape");
        let got = match impl_lex(text) {
            Ok(o) => o.kinds.join(","),
            Err(p) => format!("PANIC {p}"),
        };
        if got != *kinds {
            rep.oracle_fail("documented-number-shape", input_json(text), json!(got), json!(kinds), "a number literal does not end where the documented shape of the literal ends");
        }
    }
    for (kind, text) in DOCUMENTED {
        rep.case(Some(format!("documented|{kind}")));
        rep.hit("documented-spelling");
        let got = match impl_lex(text) {
            Ok(o) => o.kinds.join(","),
            Err(p) => format!("PANIC {p}"),
        };
        if got != *kind {
            rep.oracle_fail("documented-spelling", input_json(text), json!(got), json!(kind), "the documented text of a token kind, lexed alone, is not one token of that kind");
        }
    }
}

pub fn run(tier: &str, seed: u64, widen: bool) -> Report {
    let max_len = if tier == "thorough" || widen { 4 } else { 3 };
    let mut rep = Report::new(
        "C22",
        "lexer::lex observed through Tokens::{len,kind,range} and Tokens::iter() vs Lean model CapyV.Lexer.lex; implementation output checked by the verified checker CapyV.Lexer.checkLex",
        &format!("all strings of <= {max_len} symbols over the 24-symbol alphabet {{a s e x b 0 1 _ ' \" \\ / . - + > = < ! & | SP LF é}} (exhaustive), all strings of <= 2 symbols over ASCII + 28 non-ASCII scalar values (exhaustive), seeded random Unicode strings and mutations of the .capy/.test corpus of /repo up to 64 KiB; non-trivial = the implementation produced tokens of >= 2 distinct kinds; distinct by text"),
    );
    check_kind_table(&mut rep);
    check_documented(&mut rep);
    let mut texts = vec![];
    let alpha: Vec<String> = ALPHABET.iter().map(|s| s.to_string()).collect();
    enumerate(&alpha, max_len, &mut texts);
    rep.exhaustive = true;
    for chunk in texts.chunks(40_000) {
        check_texts(chunk, &mut rep, "exhaustive24");
    }
    let mut wide = vec![];
    enumerate(&wide_alphabet(), 2, &mut wide);
    for chunk in wide.chunks(40_000) {
        check_texts(chunk, &mut rep, "exhaustive-wide2");
    }
    let mut rng = Rng::new(seed);
    let n_random = if widen { 20_000 } else if tier == "thorough" { 6000 } else { 600 };
    let mut rtexts = vec![];
    for i in 0..n_random {
        let max = if i % 100 == 0 { 65536 } else if i % 10 == 0 { 2000 } else { 48 };
        rtexts.push(random_unicode(&mut rng, max));
    }
    for chunk in rtexts.chunks(2000) {
        check_texts(chunk, &mut rep, "random-unicode");
    }
    let corpus = corpus_files();
    rep.notes.push(format!("corpus: {} files under /repo/{{examples,core,crates}} (.capy and the source part of .test)", corpus.len()));
    if !corpus.is_empty() {
        // the unmodified corpus first
        check_texts(&corpus, &mut rep, "corpus");
        let n_mut = if widen { 10_000 } else if tier == "thorough" { 3000 } else { 400 };
        let mut mtexts = vec![];
        for _ in 0..n_mut {
            mtexts.push(mutate(&mut rng, &corpus));
        }
        for chunk in mtexts.chunks(500) {
            check_texts(chunk, &mut rep, "corpus-mutation");
        }
    }
    rep
}

pub fn replay(input: &serde_json::Value) -> String {
    let hexs = input["text_hex"].as_str().unwrap_or("-");
    let bytes: Vec<u8> = if hexs == "-" { vec![] } else {
        (0..hexs.len() / 2).map(|i| u8::from_str_radix(&hexs[2 * i..2 * i + 2], 16).unwrap()).collect()
    };
    let text = String::from_utf8_lossy(&bytes).to_string();
    let o = impl_lex(&text);
    let (full, _part) = impl_iter(&text);
    let shown = match &o { Ok(o) => o.show(), Err(p) => p.clone() };
    let req = match &o {
        Ok(o) => format!("C22 both {} {}", lean::hex(text.as_bytes()), o.show()),
        Err(_) => format!("C22 both {} - 0", lean::hex(text.as_bytes())),
    };
    let ans = lean::ask(&[req]);
    let mut parts = ans[0].split(" | ");
    let model = parts.next().unwrap_or("?");
    let spec = parts.next().unwrap_or("?");
    let miter = parts.next().unwrap_or("?");
    let cover = o.as_ref().ok().map(|o| cover_oracle(&text, o));
    let ok = o.is_ok() && spec == "ok" && cover == Some(Ok(())) && matches!((&full, &o), (Ok(c), Ok(o)) if *c == o.kinds.len());
    format!(
        "implementation: {}\nimplementation iter(): {:?}\nmodel: {}\nmodel iter: {}\nspec (checkLex on the implementation's tokens): {}\nspec (cover clauses, Rust): {:?}\n{}",
        shown, full, model, miter, spec, cover, if ok { "AGREE" } else { "SPEC-MISMATCH" }
    )
}
