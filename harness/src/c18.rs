//! C18 — reflection and type values.
//!
//! (a) hook stream: `codegen::verif::type_ids` (the ids `to_type_id` hands out + the (type, id)
//!     table) on lists of types of the C17 domain vs the Lean model `CapyV.TypeId.typeIdsFrom`;
//!     oracle on the implementation's own table: ids are injective, simple ids decode (with the
//!     decoders of meta.capy re-stated here) to the size/alignment `codegen::verif::layouts`
//!     reports, compound ids index the type itself in the per-kind table order.
//! (b) end-to-end stream: programs declaring <= 30 generated types, built by the real CLI; each
//!     type is reflected through `core.meta` (size/align/stride, `get_type_info`), measured by
//!     address arithmetic on real values in the same program (wrapper struct field addresses,
//!     array element addresses, struct member addresses, tag byte position after a real store),
//!     compared pairwise as `type` values, boxed into `any`, and (a few) evaluated in `comptime`.
//!     Model: `C18 program` (ids, tables, decoders, layout model of C17). Oracle: reflected ==
//!     measured, reflected structure == declared type, `Ti == Tj` iff same type, `any` carries
//!     the type — all written from the property text.
use crate::e2e::{self, Program};
use crate::lean;
use crate::report::Report;
use crate::rng::Rng;
use crate::ty::{self, T};
use codegen::verif::{layouts, type_ids, LayoutInfo};
use hir::common::Ty;
use serde_json::json;
use std::panic::{catch_unwind, AssertUnwindSafe};

// ---------------------------------------------------------------------------------------------
// shared

/// the id-coincidence class of a pair of *different* types, if they are one of the stated ones
fn coincidence(a: &Ty, b: &Ty, pw: u32) -> Option<&'static str> {
    fn canon(t: &Ty, pw: u32) -> Option<(u8, u32, bool)> {
        // (class, width, signed) of simple types that share ids with others
        Some(match t {
            Ty::IInt(0) | Ty::UInt(0) => (0, 32, true),
            Ty::IInt(255) => (0, pw, true),
            Ty::UInt(255) => (0, pw, false),
            Ty::IInt(w) => (0, *w as u32, true),
            Ty::UInt(w) => (0, *w as u32, false),
            Ty::Float(0) => (1, 32, false),
            Ty::Float(w) => (1, *w as u32, false),
            Ty::Void | Ty::Unknown | Ty::NotYetResolved => (2, 0, false),
            Ty::File(_) => (3, 0, false),
            _ => return None,
        })
    }
    let (ca, cb) = (canon(a, pw)?, canon(b, pw)?);
    if ca != cb {
        return None;
    }
    let ptr_sized = |t: &Ty| matches!(t, Ty::IInt(255) | Ty::UInt(255));
    let weak = |t: &Ty| matches!(t, Ty::IInt(0) | Ty::UInt(0) | Ty::Float(0));
    Some(if weak(a) || weak(b) {
        "weak_default"
    } else if ptr_sized(a) || ptr_sized(b) {
        "simple_id_ptr_width"
    } else if ca.0 == 2 {
        "unknown_void"
    } else {
        "file"
    })
}

fn kind_disc(t: &Ty) -> Option<u32> {
    Some(match t {
        Ty::AnonStruct { .. } | Ty::ConcreteStruct { .. } => 16,
        Ty::Distinct { .. } => 17,
        Ty::AnonArray { .. } | Ty::ConcreteArray { .. } => 18,
        Ty::Slice { .. } => 19,
        Ty::Pointer { .. } => 20,
        Ty::ConcreteFunction { .. } | Ty::FunctionPointer { .. } => 21,
        Ty::Enum { .. } => 22,
        Ty::EnumVariant { .. } => 23,
        Ty::Optional { .. } => 24,
        Ty::ErrorUnion { .. } => 25,
        _ => return None,
    })
}

// ---------------------------------------------------------------------------------------------
// (a) hook stream

fn one_layout(t: T, pw: u32) -> Option<LayoutInfo> {
    catch_unwind(AssertUnwindSafe(|| layouts(&[t], pw).pop().unwrap())).ok()
}

fn hook_batch(tys: &[T], pw: u32, rep: &mut Report, req: &mut Vec<String>, pending: &mut Vec<(Vec<T>, String)>) {
    let sx: Vec<String> = tys.iter().map(|t| ty::sexp(t)).collect();
    let line = sx.join(" | ");
    req.push(format!("C18 ids {pw} {line}"));
    pending.push((tys.to_vec(), line));
    let _ = rep;
}

fn hook_check(tys: &[T], line: &str, model: &str, pw: u32, rep: &mut Report) {
    let input = json!({"stream": "hook", "pw": pw, "types": line});
    let compound = tys.iter().filter(|t| kind_disc(t).is_some()).count();
    rep.case(if compound > 0 { Some(format!("{pw}:{line}")) } else { None });
    let got = catch_unwind(AssertUnwindSafe(|| type_ids(tys, pw)));
    let (ids, table) = match got {
        Err(_) => {
            rep.hit("hook:panic");
            if model != "PANIC" {
                rep.disagree(input.clone(), json!("PANIC"), json!(model));
            }
            rep.oracle_fail("to_type_id_panics", input, json!("PANIC"), json!("an id for every type"), "to_type_id panicked on a front-end type");
            return;
        }
        Ok(x) => x,
    };
    let fmt = |v: &[u32]| format!("[{}]", v.iter().map(|x| x.to_string()).collect::<Vec<_>>().join(","));
    let tids: Vec<u32> = table.iter().map(|(_, id)| *id).collect();
    let rendered = format!("ids={} table={}", fmt(&ids), fmt(&tids));
    if rep.evaluations % 211 == 5 {
        rep.sample(json!({"pw": pw, "types": line, "impl": rendered}));
    }
    if rendered != model {
        rep.disagree(input.clone(), json!(rendered), json!(model));
    }
    // oracle 1: the table never lists a type twice, and ids are injective
    for (i, (ta, ia)) in table.iter().enumerate() {
        for (tb, ib) in table.iter().skip(i + 1) {
            if ta == tb {
                rep.oracle_fail("duplicate_table_entry", input.clone(), json!(ty::sexp(ta)), json!("each type once"), "type registered twice");
            } else if ia == ib {
                match coincidence(ta, tb, pw) {
                    Some("simple_id_ptr_width") => {
                        rep.hit("hook:coincidence:ptr_width");
                        rep.oracle_fail("simple_id_ptr_width", json!({"stream": "hook", "pw": pw, "types": format!("{} | {}", ty::sexp(ta), ty::sexp(tb))}),
                            json!(format!("both get id {ia}")), json!("different types, different ids"), "two different types share one type id");
                    }
                    // weak / unknown / file types never exist as `type` values of a running program
                    Some(c) => rep.hit(&format!("hook:coincidence:{c}")),
                    None => rep.oracle_fail("ids_collide", json!({"stream": "hook", "pw": pw, "types": format!("{} | {}", ty::sexp(ta), ty::sexp(tb))}),
                        json!(format!("both get id {ia}")), json!("different types, different ids"), "two different types share one type id"),
                }
            }
        }
    }
    // oracle 2: what meta.capy decodes from the id is what the layout code uses
    for (t, id) in &table {
        let disc = id >> 26;
        let Some(l) = one_layout(*t, pw) else { continue };
        if disc < 16 {
            rep.hit("hook:simple");
            let (s, a) = (id & 0b11111, (id >> 5) & 0b1111);
            if (s, a) != (l.size, l.align) {
                rep.oracle_fail("simple_layout_bits", json!({"stream": "hook", "pw": pw, "types": ty::sexp(t)}),
                    json!(format!("id {id}: size {s} align {a}")), json!(format!("size {} align {}", l.size, l.align)), "size/align bits of a simple id differ from the layout");
            }
            if kind_disc(t).is_some() {
                rep.oracle_fail("kind_discriminant", input.clone(), json!(id), json!("compound discriminant"), "compound type with a simple id");
            }
        } else {
            rep.hit(&format!("hook:compound:{disc}"));
            let idx = (id & !(0b111111u32 << 26)) as usize;
            let same_kind: Vec<&T> = table.iter().map(|(u, _)| u).filter(|u| kind_disc(u) == Some(disc)).collect();
            if kind_disc(t) != Some(disc) {
                rep.oracle_fail("kind_discriminant", input.clone(), json!(id), json!(format!("{:?}", kind_disc(t))), "discriminant bits do not name the type's kind");
            } else if same_kind.get(idx).map(|u| **u == *t) != Some(true) {
                rep.oracle_fail("table_index", json!({"stream": "hook", "pw": pw, "types": line, "type": ty::sexp(t)}),
                    json!(format!("index {idx}")), json!("position of the type among the types of its kind"), "list id does not index the type's own row");
            }
        }
    }
}

fn hook_stream(tier: &str, widen: bool, rng: &mut Rng, pw: u32, rep: &mut Report) {
    let mut d0 = ty::primitives();
    d0.extend(ty::weak_primitives());
    d0.push(Ty::Unknown.into());
    d0.push(Ty::AlwaysJumps.into());
    d0.push(Ty::File(hir::common::FileName(interner::Key::from_raw(3))).into());
    d0.push(Ty::File(hir::common::FileName(interner::Key::from_raw(4))).into());
    let small = ty::core_primitives();
    let d1 = ty::one_layer(&d0, &small, 1000, rng, true);
    let small2: Vec<T> = (0..12).map(|_| *rng.pick(&d1)).collect();
    let d2 = ty::one_layer(&d1, &small2, 2000, rng, true);
    let mut batches: Vec<Vec<T>> = vec![];
    // every primitive in one table, then the whole first layer in chunks, in order
    batches.push(d0.clone());
    for c in d1.chunks(24) {
        batches.push(c.to_vec());
    }
    let n2 = if widen { d2.len() / 24 } else if tier == "thorough" { 1500 } else { 150 };
    for _ in 0..n2 {
        batches.push((0..24).map(|_| *rng.pick(&d2)).collect());
    }
    // random depth-3 types mixed with primitives and repeats (the lookup-first step)
    let nr = if widen { 6000 } else if tier == "thorough" { 1500 } else { 200 };
    for _ in 0..nr {
        let n = 1 + rng.below(30) as usize;
        let mut b: Vec<T> = vec![];
        for _ in 0..n {
            let t = match rng.below(6) {
                0 if !b.is_empty() => *rng.pick(&b),
                1 => *rng.pick(&d0),
                2 => *rng.pick(&d1),
                _ => ty::random_ty(rng, 3, 6),
            };
            b.push(t);
        }
        batches.push(b);
    }
    let mut req = vec![];
    let mut pending = vec![];
    for b in &batches {
        hook_batch(b, pw, rep, &mut req, &mut pending);
    }
    let answers = lean::ask(&req);
    for ((tys, line), model) in pending.iter().zip(answers.iter()) {
        hook_check(tys, line, model, pw, rep);
    }
}

// ---------------------------------------------------------------------------------------------
// (b) end-to-end stream

#[derive(Clone)]
struct Ent {
    /// how the type is written where a type is expected (field type, cast target)
    tspell: String,
    /// how it is written where a `type` *value* is expected
    vspell: String,
    decl: Option<String>,
    ty: T,
    depth: u32,
    /// for enums: (variant index, discriminant) of payload-free variants
    void_variants: Vec<(usize, u64)>,
}

const PRIMS: &[(&str, fn() -> T)] = &[
    ("i8", || ty::i(8)), ("i16", || ty::i(16)), ("i32", || ty::i(32)), ("i64", || ty::i(64)), ("i128", || ty::i(128)),
    ("isize", || ty::i(255)), ("u8", || ty::u(8)), ("u16", || ty::u(16)), ("u32", || ty::u(32)), ("u64", || ty::u(64)),
    ("u128", || ty::u(128)), ("usize", || ty::u(255)), ("f32", || ty::f(32)), ("f64", || ty::f(64)),
    ("bool", || Ty::Bool.into()), ("str", || Ty::String.into()), ("char", || Ty::Char.into()),
    ("type", || Ty::Type.into()), ("any", || Ty::Any.into()), ("rawptr", || Ty::RawPtr { mutable: false }.into()),
    ("mut rawptr", || Ty::RawPtr { mutable: true }.into()), ("rawslice", || Ty::RawSlice.into()), ("void", || Ty::Void.into()),
];

/// values whose address cannot be written in the source language
fn is_meta(t: &Ty) -> bool {
    matches!(t.absolute_ty(), Ty::Type)
}

fn is_zst(t: &Ty) -> bool {
    one_layout(Intern::new(t.clone()), 64).map(|l| l.size == 0).unwrap_or(true)
}
use internment::Intern;

static ENUM_UID: std::sync::atomic::AtomicU32 = std::sync::atomic::AtomicU32::new(1_000_000);

struct Gen {
    ents: Vec<Ent>,
    uid: u32,
}

impl Gen {
    fn add(&mut self, expr: String, ty: T, depth: u32) -> usize {
        let i = self.ents.len();
        self.ents.push(Ent {
            tspell: format!("T{i}"),
            vspell: format!("T{i}"),
            decl: Some(format!("T{i} :: {expr};")),
            ty,
            depth,
            void_variants: vec![],
        });
        i
    }
    fn pick(&self, rng: &mut Rng, max_depth: u32) -> usize {
        loop {
            let i = rng.below(self.ents.len() as u64) as usize;
            if self.ents[i].depth <= max_depth {
                return i;
            }
        }
    }
    fn not_void(&self, rng: &mut Rng, max_depth: u32) -> usize {
        loop {
            let i = self.pick(rng, max_depth);
            if !matches!(self.ents[i].ty.as_ref(), Ty::Void) {
                return i;
            }
        }
    }
}

fn gen_types(rng: &mut Rng, budget: usize) -> Vec<Ent> {
    let mut g = Gen { ents: vec![], uid: 10 };
    // primitives: a few random ones; usually both members of a coincidence pair
    let mut names: Vec<usize> = vec![];
    if rng.chance(2, 3) {
        names.extend([11usize, 9]); // usize, u64
    }
    if rng.chance(1, 3) {
        names.extend([5usize, 3]); // isize, i64
    }
    let np = 3 + rng.below(5) as usize;
    while names.len() < np + 2 {
        let k = rng.below(PRIMS.len() as u64) as usize;
        if !names.contains(&k) {
            names.push(k);
        }
    }
    for k in names {
        g.add(PRIMS[k].0.to_string(), PRIMS[k].1(), 0);
    }
    let mut guard = 0;
    while g.ents.len() < budget && guard < 400 {
        guard += 1;
        g.uid += 1;
        let uid = g.uid;
        match rng.below(12) {
            0 | 1 => {
                let s = g.pick(rng, 1);
                let n = rng.below(5);
                let e = g.ents[s].clone();
                g.add(format!("[{n}]{}", e.tspell), ty::arr(n, e.ty), e.depth + 1);
            }
            2 => {
                let s = g.pick(rng, 1);
                let e = g.ents[s].clone();
                g.add(format!("[]{}", e.tspell), ty::slice(e.ty), e.depth + 1);
            }
            3 => {
                let s = g.pick(rng, 1);
                if g.ents[s].decl.is_none() {
                    continue; // `^E.V` with a payload-free variant is read as the address of the singleton value
                }
                let m = rng.chance(1, 2);
                let e = g.ents[s].clone();
                g.add(format!("^{}{}", if m { "mut " } else { "" }, e.tspell), ty::ptr(m, e.ty), e.depth + 1);
            }
            4 => {
                let s = g.not_void(rng, 1);
                let e = g.ents[s].clone();
                g.add(format!("?{}", e.tspell), ty::opt(e.ty), e.depth + 1);
            }
            5 => {
                let s = g.pick(rng, 1);
                let e = g.ents[s].clone();
                g.add(format!("distinct {}", e.tspell), ty::dist(uid, e.ty), e.depth + 1);
            }
            6 | 7 => {
                let n = 1 + rng.below(4) as usize;
                let ms: Vec<usize> = (0..n).map(|_| g.pick(rng, 1)).collect();
                let fields: Vec<String> = ms.iter().enumerate().map(|(k, &m)| format!("n{}: {}", 100 + k, g.ents[m].tspell)).collect();
                let tys: Vec<T> = ms.iter().map(|&m| g.ents[m].ty).collect();
                let d = ms.iter().map(|&m| g.ents[m].depth).max().unwrap_or(0);
                g.add(format!("struct {{ {} }}", fields.join(", ")), ty::strukt(uid, &tys), d + 1);
            }
            8 | 9 => {
                let n = 1 + rng.below(5) as usize;
                if g.ents.len() + n + 1 > budget {
                    continue;
                }
                let void_idx = match g.ents.iter().position(|e| matches!(e.ty.as_ref(), Ty::Void)) {
                    Some(v) => v,
                    None => g.add("void".into(), Ty::Void.into(), 0),
                };
                if g.ents.len() + n + 1 > budget {
                    continue;
                }
                let explicit = rng.chance(1, 2);
                let mut payload: Vec<usize> = (0..n).map(|_| if rng.chance(1, 2) { void_idx } else { g.not_void(rng, 1) }).collect();
                let force = rng.below(n as u64) as usize;
                payload[force] = void_idx;
                // distinct discriminants below 170 (the fill byte), never 0 when explicit
                let mut discs: Vec<u64> = vec![];
                for k in 0..n {
                    discs.push(if explicit { 1 + (k as u64) * 7 + rng.below(7) } else { k as u64 });
                }
                let vars: Vec<String> = (0..n)
                    .map(|k| {
                        let p = if payload[k] == void_idx { String::new() } else { format!(": {}", g.ents[payload[k]].tspell) };
                        let d = if explicit { format!(" | {}", discs[k]) } else { String::new() };
                        format!("V{k}{p}{d}")
                    })
                    .collect();
                let ptys: Vec<T> = payload.iter().map(|&m| g.ents[m].ty).collect();
                let d = payload.iter().map(|&m| g.ents[m].depth).max().unwrap_or(0);
                let ety = ty::enumm(ENUM_UID.fetch_add(1, std::sync::atomic::Ordering::Relaxed), &ptys, Some(&discs));
                let ei = g.add(format!("enum {{ {} }}", vars.join(", ")), ety, d + 1);
                g.ents[ei].void_variants = (0..n).filter(|&k| payload[k] == void_idx).map(|k| (k, discs[k])).collect();
                for (k, v) in ty::variants_of(ety).into_iter().enumerate() {
                    g.ents.push(Ent {
                        tspell: format!("T{ei}.V{k}"),
                        vspell: format!("type.(T{ei}.V{k})"),
                        decl: None,
                        ty: v,
                        depth: d + 1,
                        void_variants: vec![],
                    });
                }
            }
            10 => {
                let a = g.not_void(rng, 1);
                let b = g.pick(rng, 1);
                let (ea, eb) = (g.ents[a].clone(), g.ents[b].clone());
                if !ea.ty.can_differentiate_from(&eb.ty) {
                    continue; // rejected by the front end (ImpossibleToDifferentiateErrorUnion)
                }
                g.add(format!("{}!{}", ea.tspell, eb.tspell), ty::eu(ea.ty, eb.ty), ea.depth.max(eb.depth) + 1);
            }
            _ => {
                let np = rng.below(3) as usize;
                let ps: Vec<usize> = (0..np).map(|_| g.not_void(rng, 1)).collect();
                let r = g.pick(rng, 1);
                let params: Vec<String> = ps.iter().enumerate().map(|(k, &p)| format!("p{k}: {}", g.ents[p].tspell)).collect();
                let ptys: Vec<T> = ps.iter().map(|&p| g.ents[p].ty).collect();
                let d = ps.iter().map(|&p| g.ents[p].depth).chain([g.ents[r].depth]).max().unwrap_or(0);
                g.add(format!("({}) -> {}", params.join(", "), g.ents[r].tspell), ty::fnptr(&ptys, g.ents[r].ty), d + 1);
            }
        }
    }
    g.ents
}

const PRELUDE: &str = r##"core :: #mod("core");
meta :: core.meta;
ptr :: core.ptr;

idx_of :: (all: []type, t: type) -> i32 {
    i := 0;
    while i < all.len {
        if all[i] == t { return i32.(i); }
        i += 1;
    }
    return -1;
}
pr :: (all: []type, t: type) {
    k := idx_of(all, t);
    if k < 0 { core.print("#?"); } else { core.print("#", k); }
}
info :: (all: []type, t: type) {
    switch i in meta.get_type_info(t) {
        .Int => { core.print("Int(", i.bit_width, ",", u8.(i.signed), ")"); },
        .Float => { core.print("Float(", i.bit_width, ")"); },
        .Bool => core.print("Bool"),
        .String => core.print("String"),
        .Char => core.print("Char"),
        .Array => { core.print("Array(", i.len, ","); pr(all, i.sub_ty); core.print(")"); },
        .Slice => { core.print("Slice("); pr(all, i.sub_ty); core.print(")"); },
        .Pointer => { core.print("Pointer("); pr(all, i.sub_ty); core.print(",", u8.(i.mutable), ")"); },
        .Distinct => { core.print("Distinct("); pr(all, i.sub_ty); core.print(")"); },
        .Struct => {
            core.print("Struct(");
            k := 0;
            while k < i.members.len {
                m := i.members[k];
                if k > 0 { core.print(","); }
                core.print(m.name, "@", m.offset, ":");
                pr(all, m.ty);
                k += 1;
            }
            core.print(")");
        },
        .Enum => {
            core.print("Enum(", i.discriminant_offset, ";");
            k := 0;
            while k < i.variants.len {
                if k > 0 { core.print(","); }
                pr(all, i.variants[k]);
                k += 1;
            }
            core.print(")");
        },
        .Variant => { core.print("Variant("); pr(all, i.sub_ty); core.print(",", i.discriminant, ")"); },
        .Nil => core.print("Nil"),
        .Optional => { core.print("Optional("); pr(all, i.sub_ty); core.print(",", u8.(i.is_non_zero), ",", i.discriminant_offset, ")"); },
        .Error_Union => { core.print("Error_Union("); pr(all, i.error_ty); core.print(","); pr(all, i.payload_ty); core.print(",", i.discriminant_offset, ")"); },
        .Function => core.print("Function"),
        .File => core.print("File"),
        .Meta_Type => core.print("Meta_Type"),
        .Any => core.print("Any"),
        .Raw_Ptr => { core.print("Raw_Ptr(", u8.(i.mutable), ")"); },
        .Raw_Slice => core.print("Raw_Slice"),
        .Void => core.print("Void"),
    }
}
fill :: (p: mut rawptr, n: usize) {
    i : usize = 0;
    while i < n { ptr.write(p, 170, i); i += 1; }
}
first :: (p: rawptr, n: usize, b: u8) -> i32 {
    i : usize = 0;
    while i < n { if ptr.read(p, i) == b { return i32.(i); } i += 1; }
    return -1;
}
dist :: (a: rawptr, b: rawptr) -> usize { ptr.to_raw(a) - ptr.to_raw(b) }
"##;

struct Plan {
    ents: Vec<Ent>,
    src: String,
    /// indices of the types evaluated in `comptime`
    comptime: Vec<usize>,
    /// explicit `Ti == Tj` pairs (spelled in the source, not through the array)
    pairs: Vec<(usize, usize)>,
}

fn gen_program(rng: &mut Rng) -> Plan {
    let budget = 12 + rng.below(19) as usize; // <= 30
    let ents = gen_types(rng, budget);
    let n = ents.len();
    let mut s = String::from(PRELUDE);
    for e in &ents {
        if let Some(d) = &e.decl {
            s.push_str(d);
            s.push('\n');
        }
    }
    for (i, e) in ents.iter().enumerate() {
        s.push_str(&format!("W{i} :: struct {{ a: u8, x: {}, g: u8 }};\n", e.tspell));
    }
    s.push_str("\nmain :: () {\n    buf : [1024]u64;\n    raw := (mut rawptr).(^mut buf);\n");
    s.push_str(&format!("    all := type.[{}];\n", ents.iter().map(|e| e.vspell.clone()).collect::<Vec<_>>().join(", ")));
    // reflection rows
    s.push_str("    i := 0;\n    while i < all.len {\n        t := all[i];\n");
    s.push_str("        core.print(\"R \", i, \" disc=\", meta.meta_to_raw(t) >> 26, \" size=\", meta.size_of(t), \" align=\", meta.align_of(t), \" stride=\", meta.stride_of(t), \" info=\");\n");
    s.push_str("        info(all, t);\n        core.println();\n");
    // equality row through runtime `type` values
    s.push_str("        core.print(\"E \", i, \" \");\n        j := 0;\n        while j < all.len { core.print(u8.(all[i] == all[j])); j += 1; }\n        core.println();\n");
    s.push_str("        i += 1;\n    }\n");
    // measurements on real values
    for (i, e) in ents.iter().enumerate() {
        s.push_str(&format!("    w{i} := (^mut W{i}).(raw);\n"));
        if is_meta(e.ty.as_ref()) {
            // `^w.x` with `x : type` is read as the pointer *type* `^T`: only the next field can be measured
            s.push_str(&format!("    core.println(\"N {i} \", dist(rawptr.(^w{i}.g), rawptr.(w{i})));\n"));
        } else {
            s.push_str(&format!("    core.println(\"M {i} \", dist(rawptr.(^w{i}.x), rawptr.(w{i})), \" \", dist(rawptr.(^w{i}.g), rawptr.(w{i})));\n"));
            s.push_str(&format!("    a{i} := (^mut [2]{}).(raw);\n", e.tspell));
            s.push_str(&format!("    core.println(\"S {i} \", dist(rawptr.(^a{i}[1]), rawptr.(^a{i}[0])));\n"));
        }
        if let Ty::ConcreteStruct { members, .. } = e.ty.as_ref() {
            s.push_str(&format!("    s{i} := (^mut {}).(raw);\n", e.tspell));
            s.push_str(&format!("    core.print(\"F {i}\");\n"));
            for (k, mem) in members.iter().enumerate() {
                if is_meta(mem.ty.as_ref()) {
                    s.push_str("    core.print(\" 0\");\n");
                } else {
                    s.push_str(&format!("    core.print(\" \", dist(rawptr.(^s{i}.n{}), rawptr.(s{i})));\n", 100 + k));
                }
            }
            s.push_str("    core.println();\n");
        }
        if let Some((k, d)) = e.void_variants.first() {
            s.push_str(&format!("    fill(raw, 512);\n    e{i} := (^mut {}).(raw);\n    e{i}^ = {}.V{k};\n", e.tspell, e.tspell));
            s.push_str(&format!("    core.println(\"G {i} \", first(rawptr.(raw), 512, {d}));\n"));
        }
        if let Ty::Optional { sub_ty } = e.ty.as_ref() {
            if !sub_ty.is_pointer() {
                s.push_str(&format!("    fill(raw, 512);\n    o{i} := (^mut {}).(raw);\n    o{i}^ = nil;\n", e.tspell));
                s.push_str(&format!("    core.println(\"G {i} \", first(rawptr.(raw), 512, 0));\n"));
            }
        }
    }
    // `any` round trip on real values read back from memory
    s.push_str("    fill(raw, 1024);\n");
    for (i, e) in ents.iter().enumerate() {
        if is_zst(e.ty.as_ref()) || matches!(e.ty.absolute_ty(), Ty::Any) {
            continue; // a value that already is an `any` is not boxed again
        }
        s.push_str(&format!("    v{i} := (^mut {}).(raw);\n    y{i} : any = v{i}^;\n", e.tspell));
        s.push_str(&format!("    core.println(\"A {i} \", idx_of(all, y{i}.ty), \" \", u8.(y{i}.ty == {}));\n", e.vspell));
    }
    // explicit type comparisons (constants on both sides)
    let mut pairs = vec![];
    for _ in 0..10 {
        let a = rng.below(n as u64) as usize;
        let b = if rng.chance(1, 4) { a } else { rng.below(n as u64) as usize };
        pairs.push((a, b));
    }
    // the coincidence pairs, when present, spelled directly
    for (a, ea) in ents.iter().enumerate() {
        for (b, eb) in ents.iter().enumerate() {
            if a < b && ea.ty != eb.ty && coincidence(ea.ty.as_ref(), eb.ty.as_ref(), 64).is_some() {
                pairs.push((a, b));
            }
        }
    }
    for (a, b) in &pairs {
        s.push_str(&format!("    core.println(\"P {a} {b} \", u8.({} == {}));\n", ents[*a].vspell, ents[*b].vspell));
    }
    // compile-time reflection
    let mut comptime = vec![];
    for _ in 0..3 {
        let k = rng.below(n as u64) as usize;
        if !comptime.contains(&k) {
            comptime.push(k);
        }
    }
    for k in &comptime {
        s.push_str(&format!("    cs{k} := comptime {{ meta.size_of({}) }};\n    ca{k} := comptime {{ meta.align_of({}) }};\n", ents[*k].vspell, ents[*k].vspell));
        s.push_str(&format!("    core.println(\"C {k} \", cs{k}, \" \", ca{k});\n"));
    }
    s.push_str("}\n");
    Plan { ents, src: s, comptime, pairs }
}

/// the reflected structure the declared type must show (written from the declaration, with
/// sub-types as indices into the program's type list); layout numbers are left to the
/// measurements, so they are copied from the reflected row where the declaration has none
fn first_idx(ents: &[Ent], t: T) -> String {
    match ents.iter().position(|e| e.ty == t) {
        Some(j) => format!("#{j}"),
        None => "#?".into(),
    }
}

fn declared_info(ents: &[Ent], e: &Ent, reflected: &str) -> String {
    let r = |t: &T| first_idx(ents, *t);
    // numbers that are layout facts (checked against measurements instead)
    let nums: Vec<String> = reflected
        .split(|c: char| !c.is_ascii_digit())
        .filter(|x| !x.is_empty())
        .map(|x| x.to_string())
        .collect();
    let _ = nums;
    match e.ty.as_ref() {
        Ty::IInt(w) => format!("Int({},1)", if *w == 255 { 64 } else { *w as u32 }),
        Ty::UInt(w) => format!("Int({},0)", if *w == 255 { 64 } else { *w as u32 }),
        Ty::Float(w) => format!("Float({w})"),
        Ty::Bool => "Bool".into(),
        Ty::String => "String".into(),
        Ty::Char => "Char".into(),
        Ty::Type => "Meta_Type".into(),
        Ty::Any => "Any".into(),
        Ty::RawPtr { mutable } => format!("Raw_Ptr({})", *mutable as u8),
        Ty::RawSlice => "Raw_Slice".into(),
        Ty::Void => "Void".into(),
        Ty::ConcreteArray { size, sub_ty } => format!("Array({size},{})", r(sub_ty)),
        Ty::Slice { sub_ty } => format!("Slice({})", r(sub_ty)),
        Ty::Pointer { mutable, sub_ty } => format!("Pointer({},{})", r(sub_ty), *mutable as u8),
        Ty::Distinct { sub_ty, .. } => format!("Distinct({})", r(sub_ty)),
        Ty::ConcreteStruct { members, .. } => {
            // offsets are layout facts: taken from the reflected row, compared with addresses elsewhere
            let offs = offsets_of(reflected);
            let ms: Vec<String> = members
                .iter()
                .enumerate()
                .map(|(k, m)| format!("n{}@{}:{}", m.name.0.to_raw(), offs.get(k).cloned().unwrap_or("?".into()), r(&m.ty)))
                .collect();
            format!("Struct({})", ms.join(","))
        }
        Ty::Enum { variants, .. } => {
            let off = reflected.strip_prefix("Enum(").and_then(|x| x.split(';').next()).unwrap_or("?").to_string();
            format!("Enum({off};{})", variants.iter().map(|v| r(v)).collect::<Vec<_>>().join(","))
        }
        Ty::EnumVariant { sub_ty, discriminant, .. } => format!("Variant({},{discriminant})", r(sub_ty)),
        Ty::Optional { sub_ty } => {
            let nz = sub_ty.is_pointer();
            let off = reflected.trim_end_matches(')').rsplit(',').next().unwrap_or("?").to_string();
            format!("Optional({},{},{})", r(sub_ty), nz as u8, if nz { "0".to_string() } else { off })
        }
        Ty::ErrorUnion { error_ty, payload_ty } => {
            let off = reflected.trim_end_matches(')').rsplit(',').next().unwrap_or("?").to_string();
            format!("Error_Union({},{},{off})", r(error_ty), r(payload_ty))
        }
        Ty::FunctionPointer { .. } | Ty::ConcreteFunction { .. } => "Function".into(),
        _ => "?".into(),
    }
}

fn offsets_of(reflected: &str) -> Vec<String> {
    // "Struct(n100@0:#1,n101@8:#2)"
    reflected
        .split('@')
        .skip(1)
        .map(|x| x.split(':').next().unwrap_or("?").to_string())
        .collect()
}

fn field<'a>(row: &'a str, key: &str) -> &'a str {
    row.split(' ').find_map(|w| w.strip_prefix(key)).unwrap_or("?")
}

/// does the difference between two `#j` renderings only come from a stated coincidence?
fn only_ptr_width(ents: &[Ent], got: &str, want: &str) -> bool {
    let (g, w): (Vec<&str>, Vec<&str>) = (got.split('#').collect(), want.split('#').collect());
    if g.len() != w.len() || g[0] != w[0] {
        return false;
    }
    for (a, b) in g.iter().zip(w.iter()).skip(1) {
        let na: String = a.chars().take_while(|c| c.is_ascii_digit()).collect();
        let nb: String = b.chars().take_while(|c| c.is_ascii_digit()).collect();
        if a[na.len()..] != b[nb.len()..] {
            return false;
        }
        if na != nb {
            let (Ok(ia), Ok(ib)) = (na.parse::<usize>(), nb.parse::<usize>()) else { return false };
            if ia >= ents.len() || ib >= ents.len() {
                return false;
            }
            if coincidence(ents[ia].ty.as_ref(), ents[ib].ty.as_ref(), 64) != Some("simple_id_ptr_width") {
                return false;
            }
        }
    }
    true
}

fn check_program(plan: &Plan, out: &e2e::Outcome, model: &str, rep: &mut Report, pidx: usize) {
    let ents = &plan.ents;
    let n = ents.len();
    let tys_line = ents.iter().map(|e| ty::sexp(e.ty.as_ref())).collect::<Vec<_>>().join(" | ");
    let input = |what: &str| json!({"stream": "e2e", "program_index": pidx, "what": what, "types": tys_line, "source": plan.src});
    if !(out.built && out.run_status == Some(0)) {
        rep.case(None);
        rep.hit(if out.built { "e2e:run-failed" } else { "e2e:not-built" });
        let why: Vec<&str> = out.compile_out.lines().filter(|l| l.starts_with("error") || l.contains("panicked")).take(3).collect();
        let tail = out.stdout();
        let tail: String = tail.lines().rev().take(3).collect::<Vec<_>>().join(" / ");
        rep.oracle_fail(
            if out.built { "program_crashed" } else { "program_not_built" },
            input("whole program"),
            json!(format!("{} {} {}", out.run_summary(), why.join(" / "), tail)),
            json!("builds, runs, exits 0"),
            "a program that only declares and reflects types did not build or did not run to completion",
        );
        return;
    }
    let text = out.stdout();
    let mut rrow = vec![String::new(); n];
    let mut erow = vec![String::new(); n];
    let mut m: Vec<Option<(u64, u64)>> = vec![None; n];
    let mut nrow: Vec<Option<u64>> = vec![None; n];
    let mut srow: Vec<Option<u64>> = vec![None; n];
    let mut frow: Vec<Option<Vec<u64>>> = vec![None; n];
    let mut grow: Vec<Option<i64>> = vec![None; n];
    let mut arow: Vec<Option<(i64, u8)>> = vec![None; n];
    let mut prow: Vec<(usize, usize, u8)> = vec![];
    let mut crow: Vec<(usize, u64, u64)> = vec![];
    for l in text.lines() {
        let mut it = l.splitn(3, ' ');
        let (tag, idx, rest) = (it.next().unwrap_or(""), it.next().unwrap_or(""), it.next().unwrap_or(""));
        let Ok(i) = idx.parse::<usize>() else { continue };
        if i >= n {
            continue;
        }
        let nums: Vec<i64> = rest.split_whitespace().filter_map(|x| x.parse::<i64>().ok().or_else(|| x.parse::<u64>().ok().map(|v| v as i64))).collect();
        match tag {
            "R" => rrow[i] = rest.to_string(),
            "E" => erow[i] = rest.trim().to_string(),
            "M" if nums.len() == 2 => m[i] = Some((nums[0] as u64, nums[1] as u64)),
            "S" if nums.len() == 1 => srow[i] = Some(nums[0] as u64),
            "N" if nums.len() == 1 => nrow[i] = Some(nums[0] as u64),
            "F" => frow[i] = Some(nums.iter().map(|x| *x as u64).collect()),
            "G" if nums.len() == 1 => grow[i] = Some(nums[0]),
            "A" if nums.len() == 2 => arow[i] = Some((nums[0], nums[1] as u8)),
            "P" if nums.len() == 2 => prow.push((i, nums[0] as usize, nums[1] as u8)),
            "C" if nums.len() == 2 => crow.push((i, nums[0] as u64, nums[1] as u64)),
            _ => {}
        }
    }
    // ---- model vs implementation: the Lean model predicts the R rows and the E matrix
    let (mrows, meq): (Vec<&str>, Vec<&str>) = match model.split_once(" ## ") {
        Some((a, b)) => (a.split(" ;; ").collect(), b.split(' ').collect()),
        None => (vec![], vec![]),
    };
    if model != "?" {
        if mrows.len() != n || meq.len() != n {
            rep.disagree(input("model answer shape"), json!(format!("{n} types")), json!(model.chars().take(200).collect::<String>()));
        } else {
            for i in 0..n {
                if rrow[i] != mrows[i] {
                    rep.disagree(input(&format!("reflected row of type {i} ({})", ty::sexp(ents[i].ty.as_ref()))), json!(rrow[i]), json!(mrows[i]));
                }
                if erow[i] != meq[i] {
                    rep.disagree(input(&format!("equality row of type {i}")), json!(erow[i]), json!(meq[i]));
                }
            }
        }
    }
    // ---- oracle
    for (i, e) in ents.iter().enumerate() {
        let sx = ty::sexp(e.ty.as_ref());
        let zst = is_zst(e.ty.as_ref());
        rep.case(Some(format!("{pidx}:{i}:{sx}")));
        rep.hit(&format!("e2e:kind:{}", kind_disc(e.ty.as_ref()).map(|d| d.to_string()).unwrap_or("simple".into())));
        if rep.evaluations % 499 == 7 {
            rep.sample(json!({"type": sx, "spelled": e.decl.clone().unwrap_or(e.tspell.clone()), "reflected": rrow[i], "measured(off_x,off_g)": format!("{:?}", m[i]), "measured_stride": srow[i]}));
        }
        let row = rrow[i].as_str();
        let (rs, ra, rst) = (field(row, "size="), field(row, "align="), field(row, "stride="));
        let info = field(row, "info=");
        // (1) reflected numbers vs address arithmetic on real values
        let meta = is_meta(e.ty.as_ref());
        match m[i] {
            _ if meta => {
                // only `g` is addressable: it sits at (1 rounded up to the alignment) + size
                let (a, sz) = (ra.parse::<u64>().unwrap_or(0), rs.parse::<u64>().unwrap_or(0));
                if a == 0 || nrow[i] != Some(1u64.div_ceil(a) * a + sz) {
                    rep.oracle_fail("size_vs_address", input(&format!("type {i} = {sx}")), json!(format!("size_of = {rs}, align_of = {ra}")), json!(format!("field after it sits at {:?}", nrow[i])), "reflected size/alignment differ from the space the generated code gives the value");
                }
            }
            Some((ox, og)) => {
                if !zst {
                    // `a: u8` then `x: T`: x sits at the smallest multiple of T's alignment >= 1
                    if ra.parse::<u64>().ok() != Some(ox) {
                        rep.oracle_fail("align_vs_address", input(&format!("type {i} = {sx}")), json!(format!("align_of = {ra}")), json!(format!("field after a u8 sits at {ox}")), "reflected alignment differs from where the generated code places the value");
                    }
                    if rs.parse::<u64>().ok() != Some(og - ox) {
                        rep.oracle_fail("size_vs_address", input(&format!("type {i} = {sx}")), json!(format!("size_of = {rs}")), json!(format!("next u8 field sits {} bytes after", og - ox)), "reflected size differs from the space the generated code gives the value");
                    }
                } else if rs != "0" || ra.parse::<u64>().ok() != Some(og) {
                    // zero-sized: the next u8 field sits at the first multiple of the alignment
                    rep.oracle_fail("size_vs_address", input(&format!("type {i} = {sx} (zero-sized)")), json!(format!("size_of = {rs}, align_of = {ra}, next field at {og}")), json!("size 0 and next field at the alignment"), "zero-sized type takes space");
                }
            }
            None => rep.oracle_fail("output_missing", input(&format!("M row of type {i}")), json!(text.lines().count()), json!("a measurement row"), "program output incomplete"),
        }
        if !zst && !meta {
            if srow[i].map(|s| s.to_string()) != Some(rst.to_string()) {
                rep.oracle_fail("stride_vs_address", input(&format!("type {i} = {sx}")), json!(format!("stride_of = {rst}")), json!(format!("array elements are {:?} bytes apart", srow[i])), "reflected stride differs from the distance between array elements");
            }
        }
        if let (Ty::ConcreteStruct { members, .. }, Some(f)) = (e.ty.as_ref(), &frow[i]) {
            let offs = offsets_of(info);
            for (k, mem) in members.iter().enumerate() {
                if is_zst(mem.ty.as_ref()) || is_meta(mem.ty.as_ref()) {
                    continue; // the address of a zero-sized / `type` field cannot be taken meaningfully
                }
                if offs.get(k).and_then(|x| x.parse::<u64>().ok()) != f.get(k).copied() {
                    rep.oracle_fail("member_offset_vs_address", input(&format!("type {i} = {sx}, member {k}")), json!(format!("reflected offsets {offs:?}")), json!(format!("measured {f:?}")), "reflected member offset differs from the member's address");
                }
            }
            rep.hit("e2e:member-offsets-measured");
        }
        if let Some(g) = grow[i] {
            let refl: Option<i64> = match e.ty.as_ref() {
                Ty::Enum { .. } => info.strip_prefix("Enum(").and_then(|x| x.split(';').next()).and_then(|x| x.parse().ok()),
                _ => info.trim_end_matches(')').rsplit(',').next().and_then(|x| x.parse().ok()),
            };
            rep.hit("e2e:tag-offset-measured");
            if refl != Some(g) {
                rep.oracle_fail("tag_offset_vs_memory", input(&format!("type {i} = {sx}")), json!(format!("reflected discriminant_offset {refl:?}")), json!(format!("tag byte written at {g}")), "reflected tag offset differs from where the generated code stores the tag");
            }
        }
        // (2) reflected structure vs the declaration
        let want = declared_info(ents, e, info);
        if info != want {
            if only_ptr_width(ents, info, &want) {
                rep.oracle_fail("simple_id_ptr_width", input(&format!("get_type_info of type {i} = {sx}")), json!(info), json!(want), "a reflected sub-type compares equal to a different type (usize/u64 or isize/i64)");
            } else {
                rep.oracle_fail("info_vs_declaration", input(&format!("get_type_info of type {i} = {sx}")), json!(info), json!(want), "reflected kind / names / sub-types / length / width / signedness / mutability / discriminants differ from the declaration");
            }
        }
        // integer width must also be the width the code uses (size * 8)
        if let Ty::IInt(_) | Ty::UInt(_) | Ty::Float(_) = e.ty.as_ref() {
            if let Some((ox, og)) = m[i] {
                let bw: String = info.chars().skip_while(|c| *c != '(').skip(1).take_while(|c| c.is_ascii_digit()).collect();
                if bw.parse::<u64>().ok() != Some((og - ox) * 8) {
                    rep.oracle_fail("bit_width_vs_address", input(&format!("type {i} = {sx}")), json!(info), json!(format!("{} bytes", og - ox)), "reflected bit width differs from the value's size");
                }
            }
        }
        // (3) pairwise equality through runtime `type` values
        let er = erow[i].as_bytes();
        if er.len() != n {
            rep.oracle_fail("output_missing", input(&format!("E row of type {i}")), json!(erow[i]), json!(format!("{n} digits")), "program output incomplete");
        } else {
            for j in 0..n {
                let same = ents[i].ty == ents[j].ty;
                let got = er[j] == b'1';
                if same != got {
                    let c = coincidence(ents[i].ty.as_ref(), ents[j].ty.as_ref(), 64);
                    let label = if c == Some("simple_id_ptr_width") && got { "simple_id_ptr_width" } else { "type_eq_wrong" };
                    if i < j || label != "simple_id_ptr_width" {
                        rep.oracle_fail(label, input(&format!("all[{i}] == all[{j}]: {} vs {}", sx, ty::sexp(ents[j].ty.as_ref()))), json!(got), json!(same), "`type` values compare equal exactly when they denote the same type");
                    }
                }
            }
        }
        // (4) any round trip
        if !zst && !matches!(e.ty.absolute_ty(), Ty::Any) {
            match arow[i] {
                Some((idx, eq)) => {
                    let want = ents.iter().position(|x| x.ty == e.ty).unwrap() as i64;
                    rep.hit("e2e:any-roundtrip");
                    if eq != 1 {
                        rep.oracle_fail("any_type_lost", input(&format!("any made from a value of type {i} = {sx}")), json!(format!("ty == T is {eq}")), json!("1"), "an `any` does not carry the type of the value it was made from");
                    } else if idx != want {
                        let ok = idx >= 0 && (idx as usize) < n && coincidence(ents[idx as usize].ty.as_ref(), e.ty.as_ref(), 64) == Some("simple_id_ptr_width");
                        rep.oracle_fail(if ok { "simple_id_ptr_width" } else { "any_type_lost" }, input(&format!("any made from a value of type {i} = {sx}")), json!(format!("first equal type is #{idx}")), json!(format!("#{want}")), "the type carried by an `any` compares equal to a different type");
                    }
                }
                None => rep.oracle_fail("output_missing", input(&format!("A row of type {i}")), json!(""), json!("a row"), "program output incomplete"),
            }
        }
    }
    // (3b) explicitly spelled comparisons
    for (a, b) in &plan.pairs {
        let same = ents[*a].ty == ents[*b].ty;
        match prow.iter().find(|(x, y, _)| x == a && y == b) {
            Some((_, _, got)) => {
                rep.hit("e2e:explicit-eq");
                if (*got == 1) != same {
                    let c = coincidence(ents[*a].ty.as_ref(), ents[*b].ty.as_ref(), 64);
                    let label = if c == Some("simple_id_ptr_width") && *got == 1 { "simple_id_ptr_width" } else { "type_eq_wrong" };
                    rep.oracle_fail(label, input(&format!("{} == {}", ents[*a].vspell, ents[*b].vspell)), json!(got), json!(same as u8), "`type` values compare equal exactly when they denote the same type");
                }
            }
            None => rep.oracle_fail("output_missing", input("P row"), json!(""), json!("a row"), "program output incomplete"),
        }
    }
    // (5) compile-time reflection agrees with run-time reflection
    for k in &plan.comptime {
        match crow.iter().find(|(i, _, _)| i == k) {
            Some((_, cs, ca)) => {
                rep.hit("e2e:comptime");
                let row = rrow[*k].as_str();
                if field(row, "size=") != cs.to_string() || field(row, "align=") != ca.to_string() {
                    rep.oracle_fail("comptime_vs_runtime", input(&format!("comptime size_of/align_of of type {k}")), json!(format!("{cs} {ca}")), json!(format!("{} {}", field(row, "size="), field(row, "align="))), "reflection inside comptime differs from reflection at run time");
                }
            }
            None => rep.oracle_fail("output_missing", input("C row"), json!(""), json!("a row"), "program output incomplete"),
        }
    }
    rep.traces_validated += 1;
}

fn e2e_stream(tier: &str, widen: bool, rng: &mut Rng, rep: &mut Report) {
    if !e2e::available() {
        rep.notes.push("capy CLI binary missing: end-to-end stream skipped".into());
        return;
    }
    let n_prog = if widen { 400 } else if tier == "thorough" { 160 } else { 24 };
    let plans: Vec<Plan> = (0..n_prog).map(|_| gen_program(rng)).collect();
    let progs: Vec<Program> = plans.iter().map(|p| Program::single(&p.src)).collect();
    let outcomes = e2e::run_all(&progs, e2e::Limits::default());
    let reqs: Vec<String> = plans
        .iter()
        .map(|p| format!("C18 program 64 {}", p.ents.iter().map(|e| ty::sexp(e.ty.as_ref())).collect::<Vec<_>>().join(" | ")))
        .collect();
    let answers = lean::ask(&reqs);
    for (k, ((p, o), a)) in plans.iter().zip(outcomes.iter()).zip(answers.iter()).enumerate() {
        check_program(p, o, a, rep, k);
    }
}

pub fn run(tier: &str, seed: u64, widen: bool) -> Report {
    let mut rep = Report::new(
        "C18",
        "(a) codegen::verif::type_ids (to_type_id + its table) vs Lean CapyV.TypeId.typeIdsFrom; (b) real capy CLI + built executable: core.meta reflection, address arithmetic, type equality, any, comptime vs Lean `C18 program` (ids, tables, meta.capy decoders, C17 layout model)",
        "(a) every primitive / weak / unknown / file type in one table, the whole first constructor layer of the C17 domain in chunks of 24, seeded chunks of the second layer, seeded lists of 1-30 random depth-3 types with repeats; pointer widths 64 and 32 (child process). (b) seeded programs of 12-30 types (primitives incl. usize/u64 and isize/i64, then arrays, slices, pointers, optionals, distinct, structs of 1-4 members, enums of 1-5 variants with their variant types, error unions, function types; constructor depth <= 2, sub-types always listed), every type reflected, measured, compared with every other, boxed into any; 3 types per program also in comptime. Non-trivial: (a) lists containing a compound type, (b) every (program, type); distinct by content",
    );
    let mut rng = Rng::new(seed);
    let pw: u32 = std::env::var("CVH_C18_PW").ok().and_then(|s| s.parse().ok()).unwrap_or(64);
    hook_stream(tier, widen, &mut rng, pw, &mut rep);
    if pw == 64 {
        let mut cmd = std::process::Command::new(std::env::current_exe().unwrap());
        cmd.args(["C18", "--tier", tier, "--seed", &seed.to_string()]).env("CVH_C18_PW", "32");
        if widen {
            cmd.arg("--widen");
        }
        if lean::no_model() {
            cmd.arg("--no-model");
        }
        let out = cmd.output().expect("child run for pointer width 32");
        let text = String::from_utf8_lossy(&out.stdout);
        match text.lines().last().and_then(|l| serde_json::from_str::<serde_json::Value>(l).ok()) {
            Some(v) => rep.absorb(&v, "pw32"),
            None => rep.notes.push("pointer width 32 child run produced no report".into()),
        }
        e2e_stream(tier, widen, &mut rng, &mut rep);
    }
    rep
}

pub fn replay(input: &serde_json::Value) -> String {
    if input["stream"] == "e2e" {
        let Some(src) = input["source"].as_str() else { return "no source in replay input".into() };
        if !e2e::available() {
            return "capy CLI binary missing".into();
        }
        let o = e2e::run_one(0, &Program::single(src), &e2e::Limits::default(), false);
        let model = lean::ask(&[format!("C18 program 64 {}", input["types"].as_str().unwrap_or(""))]).pop().unwrap_or_default();
        return format!("what: {}\nimplementation ({}):\n{}\nmodel: {}\nspec: reflected == measured, `==` iff same type (see `what`) — SPEC-MISMATCH if the rows above still differ",
            input["what"], o.run_summary(), o.stdout(), model);
    }
    let pw = input["pw"].as_u64().unwrap_or(64);
    let line = input["types"].as_str().unwrap_or("");
    let model = lean::ask(&[format!("C18 ids {pw} {line}")]).pop().unwrap_or_default();
    format!("types: {line}\nmodel: {model}\n(the implementation side is rebuilt from the seed: ./check C18)")
}
