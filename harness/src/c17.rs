//! C17 — type layouts. Correspondence: `codegen::layout` (through hook `codegen::verif::layouts`)
//! vs the Lean model `CapyV.Layout`; oracle: the representation rules of the property text,
//! checked on the implementation's own numbers; thorough: struct offsets vs host gcc.
use crate::lean;
use crate::report::Report;
use crate::rng::Rng;
use crate::ty::{self, T};
use codegen::verif::{layouts, LayoutInfo};
use hir::common::Ty;
use serde_json::json;
use std::panic::{catch_unwind, AssertUnwindSafe};

fn render(l: &LayoutInfo) -> String {
    let offs = match &l.struct_offsets {
        Some(o) => format!("[{}]", o.iter().map(|x| x.to_string()).collect::<Vec<_>>().join(",")),
        None => "-".into(),
    };
    let disc = l.discriminant_offset.map(|d| d.to_string()).unwrap_or("-".into());
    format!("{} {} {} {} {}", l.size, l.align, l.stride, offs, disc)
}

fn one(t: T, pw: u32) -> Result<LayoutInfo, String> {
    catch_unwind(AssertUnwindSafe(|| layouts(&[t], pw).pop().unwrap())).map_err(|_| "PANIC".to_string())
}

/// the rules of the property, checked on the implementation's own output
fn oracle(t: T, pw: u32, l: &LayoutInfo) -> Option<(&'static str, String)> {
    let sub = |s: T| one(s, pw).ok();
    if !(l.align.is_power_of_two() && l.align <= 8) {
        return Some(("align_pow2_le8", format!("align {} is not a power of two <= 8", l.align)));
    }
    match t.as_ref() {
        Ty::AnonStruct { members } | Ty::ConcreteStruct { members, .. } => {
            let Some(offs) = &l.struct_offsets else {
                return Some(("struct_offsets", "struct without offsets".into()));
            };
            if offs.len() != members.len() {
                return Some(("struct_offsets", "offset count != member count".into()));
            }
            let mut prev_end = 0u64;
            for (m, &o) in members.iter().zip(offs.iter()) {
                let ml = sub(m.ty)?;
                if o as u64 % ml.align as u64 != 0 {
                    return Some(("struct_field_aligned", format!("offset {o} not a multiple of field align {}", ml.align)));
                }
                if (o as u64) < prev_end {
                    return Some(("struct_fields_ordered_disjoint", format!("offset {o} overlaps previous field ending at {prev_end}")));
                }
                prev_end = o as u64 + ml.size as u64;
            }
            if prev_end > l.size as u64 {
                return Some(("struct_fields_within_size", format!("last field ends at {prev_end} > size {}", l.size)));
            }
        }
        Ty::AnonArray { size, sub_ty } | Ty::ConcreteArray { size, sub_ty } => {
            let el = sub(*sub_ty)?;
            if l.size as u64 != *size * el.stride as u64 {
                return Some(("array_size", format!("size {} != len {} * element stride {}", l.size, size, el.stride)));
            }
        }
        Ty::Distinct { sub_ty, .. } | Ty::EnumVariant { sub_ty, .. } => {
            let ul = sub(*sub_ty)?;
            if (l.size, l.align) != (ul.size, ul.align) {
                return Some(("nominal_same_layout", format!("({}, {}) != underlying ({}, {})", l.size, l.align, ul.size, ul.align)));
            }
        }
        Ty::Optional { sub_ty } if sub_ty.is_pointer() => {
            if l.size != pw / 8 {
                return Some(("optional_pointer_sized", format!("optional pointer has size {}", l.size)));
            }
        }
        Ty::Optional { .. } | Ty::ErrorUnion { .. } | Ty::Enum { .. } => {
            let payloads: Vec<T> = match t.as_ref() {
                Ty::Optional { sub_ty } => vec![*sub_ty],
                Ty::ErrorUnion { error_ty, payload_ty } => vec![*error_ty, *payload_ty],
                Ty::Enum { variants, .. } => variants.clone(),
                _ => unreachable!(),
            };
            let mut maxp = 0;
            for p in payloads {
                maxp = maxp.max(sub(p)?.size);
            }
            match l.discriminant_offset {
                Some(d) if d == maxp && l.size == d + 1 => {}
                other => {
                    return Some(("tag_after_largest_payload", format!("tag offset {:?}, size {}, largest payload {}", other, l.size, maxp)));
                }
            }
        }
        _ => {}
    }
    None
}

fn nontrivial(t: &Ty) -> bool {
    matches!(
        t,
        Ty::AnonStruct { .. } | Ty::ConcreteStruct { .. } | Ty::Enum { .. } | Ty::Optional { .. }
            | Ty::ErrorUnion { .. } | Ty::AnonArray { .. } | Ty::ConcreteArray { .. } | Ty::Distinct { .. }
            | Ty::EnumVariant { .. }
    )
}

fn kind(t: &Ty) -> &'static str {
    match t {
        Ty::AnonStruct { .. } | Ty::ConcreteStruct { .. } => "struct",
        Ty::Enum { .. } => "enum",
        Ty::EnumVariant { .. } => "variant",
        Ty::Optional { sub_ty } if sub_ty.is_pointer() => "optional-pointer",
        Ty::Optional { .. } => "optional",
        Ty::ErrorUnion { .. } => "error-union",
        Ty::AnonArray { .. } | Ty::ConcreteArray { .. } => "array",
        Ty::Distinct { .. } => "distinct",
        Ty::Pointer { .. } | Ty::Slice { .. } => "pointer/slice",
        Ty::FunctionPointer { .. } | Ty::ConcreteFunction { .. } => "function",
        _ => "primitive",
    }
}

fn check_batch(tys: &[T], pw: u32, rep: &mut Report) {
    let reqs: Vec<String> = tys.iter().map(|t| format!("C17 layout {} {}", pw, ty::sexp(t))).collect();
    let answers = lean::ask(&reqs);
    for (t, model) in tys.iter().zip(answers) {
        let sx = ty::sexp(t);
        rep.case(if nontrivial(t) { Some(format!("{pw}:{sx}")) } else { None });
        rep.hit(&format!("pw{pw}:{}", kind(t)));
        match one(*t, pw) {
            Err(e) => {
                rep.disagree(json!({"pw": pw, "ty": sx}), json!(e), json!(model));
                rep.oracle_fail("layout_panics", json!({"pw": pw, "ty": sx}), json!("PANIC"), json!("a layout"), "calc_layouts panicked");
            }
            Ok(l) => {
                let got = render(&l);
                if rep.evaluations % 1777 == 3 {
                    rep.sample(json!({"pw": pw, "ty": sx, "size align stride offsets tag": got}));
                }
                if got != model {
                    rep.disagree(json!({"pw": pw, "ty": sx}), json!(got), json!(model));
                }
                if let Some((label, what)) = oracle(*t, pw, &l) {
                    rep.oracle_fail(label, json!({"pw": pw, "ty": sx}), json!(got), json!(what), "representation rule violated");
                }
            }
        }
    }
}

fn c_type(t: &Ty, pw: u32) -> Option<&'static str> {
    Some(match t {
        Ty::IInt(8) => "int8_t", Ty::IInt(16) => "int16_t", Ty::IInt(32) => "int32_t", Ty::IInt(64) => "int64_t",
        Ty::UInt(8) => "uint8_t", Ty::UInt(16) => "uint16_t", Ty::UInt(32) => "uint32_t", Ty::UInt(64) => "uint64_t",
        Ty::IInt(255) if pw == 64 => "int64_t", Ty::UInt(255) if pw == 64 => "uint64_t",
        Ty::Float(32) => "float", Ty::Float(64) => "double",
        Ty::Bool | Ty::Char => "uint8_t",
        Ty::Pointer { .. } | Ty::RawPtr { .. } | Ty::String if pw == 64 => "void*",
        _ => return None,
    })
}

/// structs of scalars against host gcc's offsetof / sizeof (stride = C sizeof)
fn gcc_compare(rng: &mut Rng, n: usize, rep: &mut Report) {
    let scalars: Vec<T> = ty::primitives().into_iter().filter(|t| c_type(t, 64).is_some()).collect();
    let mut structs = vec![];
    for k in 0..n {
        let m = 1 + rng.below(5) as usize;
        let ms: Vec<T> = (0..m).map(|_| *rng.pick(&scalars)).collect();
        structs.push((ty::strukt(90_000 + k as u32, &ms), ms));
    }
    let mut c = String::from("#include <stdio.h>\n#include <stdint.h>\n#include <stddef.h>\n");
    for (k, (_, ms)) in structs.iter().enumerate() {
        c.push_str(&format!("struct S{k} {{"));
        for (j, m) in ms.iter().enumerate() {
            c.push_str(&format!(" {} f{j};", c_type(m, 64).unwrap()));
        }
        c.push_str(" };\n");
    }
    c.push_str("int main(void){\n");
    for (k, (_, ms)) in structs.iter().enumerate() {
        c.push_str(&format!("printf(\"%zu %zu\", sizeof(struct S{k}), _Alignof(struct S{k}));"));
        for j in 0..ms.len() {
            c.push_str(&format!("printf(\" %zu\", offsetof(struct S{k}, f{j}));"));
        }
        c.push_str("printf(\"\\n\");\n");
    }
    c.push_str("return 0;}\n");
    let dir = std::env::temp_dir().join(format!("cvh_c17_{}", std::process::id()));
    let _ = std::fs::create_dir_all(&dir);
    let src = dir.join("s.c");
    let exe = dir.join("s");
    std::fs::write(&src, c).unwrap();
    let ok = std::process::Command::new("gcc").arg("-o").arg(&exe).arg(&src).status().map(|s| s.success()).unwrap_or(false);
    if !ok {
        rep.notes.push("gcc comparison skipped: gcc failed".into());
        let _ = std::fs::remove_dir_all(&dir);
        return;
    }
    let out = std::process::Command::new(&exe).output().unwrap();
    let _ = std::fs::remove_dir_all(&dir);
    let text = String::from_utf8_lossy(&out.stdout).to_string();
    for ((t, _), line) in structs.iter().zip(text.lines()) {
        let nums: Vec<u32> = line.split_whitespace().map(|x| x.parse().unwrap()).collect();
        let Ok(l) = one(*t, 64) else { continue };
        rep.case(Some(format!("gcc:{}", ty::sexp(t))));
        rep.hit("gcc:struct-of-scalars");
        let mine: Vec<u32> = [l.stride, l.align].into_iter().chain(l.struct_offsets.clone().unwrap_or_default()).collect();
        if mine != nums {
            rep.oracle_fail("gcc_offsetof", json!({"pw": 64, "ty": ty::sexp(t)}), json!(format!("{mine:?}")), json!(format!("{nums:?}")),
                "stride/align/offsets differ from host gcc sizeof/_Alignof/offsetof");
        }
    }
}

pub fn run(tier: &str, seed: u64, widen: bool) -> Report {
    let mut rep = Report::new(
        "C17",
        "codegen::layout::{calc_layouts, GetLayoutInfo} (hook codegen::verif::layouts) vs Lean model CapyV.Layout",
        "every primitive and weak primitive; one constructor layer over all of them (arrays, slices, pointers, optionals, distinct, 1-member structs, fn pointers) plus exhaustive 2-member structs / error unions over 11 core primitives and seeded 3-4-member structs and 1-6-variant enums; a second constructor layer over that (thorough: whole layer, quick: a seeded sample); seeded random depth-3 types; both pointer widths; thorough also compares structs of scalars with host gcc. Non-trivial = composite or nominal type; distinct by (pointer width, type)",
    );
    let mut rng = Rng::new(seed);
    let mut d0 = ty::primitives();
    d0.extend(ty::weak_primitives());
    d0.push(Ty::Unknown.into());
    d0.push(Ty::AlwaysJumps.into());
    let small = ty::core_primitives();
    let d1 = ty::one_layer(&d0, &small, 1000, &mut rng, true);
    let small2: Vec<T> = (0..12).map(|_| *rng.pick(&d1)).collect();
    let mut d2 = ty::one_layer(&d1, &small2, 2000, &mut rng, true);
    if tier != "thorough" && !widen {
        // quick: seeded sample of the second layer
        let mut s = vec![];
        for _ in 0..3000 {
            s.push(*rng.pick(&d2));
        }
        d2 = s;
    } else {
        rep.exhaustive = true;
    }
    let n_random = if widen { 40_000 } else if tier == "thorough" { 10_000 } else { 1500 };
    let d3: Vec<T> = (0..n_random).map(|_| ty::random_ty(&mut rng, 3, 6)).collect();
    // LAYOUTS is a process-wide table bound to one pointer width (changing the width inside
    // one process panics in `calc_layouts`: `OnceCell::set` on an initialised cell), so the
    // 32-bit pass runs in a child process of this same binary.
    let pw: u32 = std::env::var("CVH_C17_PW").ok().and_then(|s| s.parse().ok()).unwrap_or(64);
    check_batch(&d0, pw, &mut rep);
    check_batch(&d1, pw, &mut rep);
    check_batch(&d2, pw, &mut rep);
    check_batch(&d3, pw, &mut rep);
    if pw == 64 {
        let mut cmd = std::process::Command::new(std::env::current_exe().unwrap());
        cmd.args(["C17", "--tier", tier, "--seed", &seed.to_string()]).env("CVH_C17_PW", "32");
        if widen {
            cmd.arg("--widen");
        }
        if lean::no_model() {
            cmd.arg("--no-model");
        }
        let out = cmd.output().expect("child run for pointer width 32");
        let text = String::from_utf8_lossy(&out.stdout);
        match text.lines().last().and_then(|l| serde_json::from_str::<serde_json::Value>(l).ok()) {
            Some(v) => rep.absorb(&v, "pw32"),
            None => rep.notes.push("pointer width 32 child run produced no report".into()),
        }
    }
    if pw == 64 && (tier == "thorough" || widen) {
        gcc_compare(&mut rng, 400, &mut rep);
    }
    rep
}

pub fn replay(input: &serde_json::Value) -> String {
    let _ = input;
    "replay for C17 re-runs the whole stream: ./check C17 (types are rebuilt from the seed)".to_string()
}
