//! One PRNG for every random choice (xorshift64*), seeded from VERIF_SEED.
#[derive(Clone)]
pub struct Rng(pub u64);

impl Rng {
    pub fn new(seed: u64) -> Self {
        let mut r = Rng(seed ^ 0x9E37_79B9_7F4A_7C15);
        if r.0 == 0 {
            r.0 = 0x1234_5678_9ABC_DEF1;
        }
        for _ in 0..4 {
            r.next();
        }
        r
    }
    pub fn next(&mut self) -> u64 {
        let mut x = self.0;
        x ^= x >> 12;
        x ^= x << 25;
        x ^= x >> 27;
        self.0 = x;
        x.wrapping_mul(0x2545_F491_4F6C_DD1D)
    }
    /// uniform in 0..n (n > 0)
    pub fn below(&mut self, n: u64) -> u64 {
        self.next() % n
    }
    pub fn range(&mut self, lo: i64, hi: i64) -> i64 {
        lo + (self.below((hi - lo + 1) as u64) as i64)
    }
    pub fn chance(&mut self, num: u64, den: u64) -> bool {
        self.below(den) < num
    }
    pub fn pick<'a, T>(&mut self, xs: &'a [T]) -> &'a T {
        &xs[self.below(xs.len() as u64) as usize]
    }
    pub fn fork(&mut self) -> Rng {
        Rng::new(self.next())
    }
}
