//! C10 — out-of-range indexing and wrong `#unwrap` abort before touching memory.
//! End-to-end: template programs index arrays / struct-embedded arrays / slices / pointers to
//! arrays / nested arrays with run-time indices in [0, len + 4] (reads and writes, guards next
//! to the array) and unwrap enums / optionals / nullable pointers / error unions with matching
//! and non-matching variants. Observation per program: printed lines, exit status, abort
//! message. Compared with the Lean plan model `CapyV.Checks` and with the property.
//! In-process: literal indices (`IndexOutOfBounds`).
use crate::e2e::{self, Program};
use crate::frontend;
use crate::lean;
use crate::report::Report;
use crate::rng::Rng;
use serde_json::json;

struct Case {
    what: String,
    src: String,
    /// model request
    req: String,
    /// property: must the program abort (status 1, message) before printing `AFTER`?
    expect_abort: bool,
    /// lines expected on stdout before the abort / in total (when not aborting)
    expect_lines: Vec<String>,
    abort_word: &'static str,
}

const HDR: &str = "core :: #mod(\"core\");\n\n";

fn elem_val(i: u64) -> u64 {
    10 + i * 3
}

fn index_cases(rng: &mut Rng, thorough: bool) -> Vec<Case> {
    let mut out = vec![];
    let tys: &[(&str, u32, u32)] = &[("u8", 1, 1), ("i32", 4, 4), ("u64", 8, 8), ("u16", 2, 2)];
    let idx_tys: &[(&str, u32)] = &[("usize", 64), ("u8", 8), ("u32", 32)];
    for &(t, size, stride) in tys {
        for n in [1u64, 3, 5] {
            if !thorough && n == 5 && t != "i32" {
                continue;
            }
            let (it, ib) = *rng.pick(idx_tys);
            let lit: Vec<String> = (0..n).map(|i| elem_val(i).to_string()).collect();
            for k in 0..=(n + 4) {
                for (shape, write) in [("local", false), ("local", true), ("field", false), ("field", true), ("slice", false), ("ptr", false), ("ptrmut", true)] {
                    if !thorough && (k > n + 1 && k != n + 4) {
                        continue;
                    }
                    let decl = match shape {
                        "local" => format!("    g1 : {t} = 7;\n    a : [{n}]{t} = {t}.[{}];\n    g2 : {t} = 9;\n", lit.join(", ")),
                        "field" => format!("    s := S.{{ g1 = 7, a = {t}.[{}], g2 = 9 }};\n", lit.join(", ")),
                        "slice" => format!("    arr : [{n}]{t} = {t}.[{}];\n    a : []{t} = arr;\n", lit.join(", ")),
                        "ptr" => format!("    arr : [{n}]{t} = {t}.[{}];\n    a : ^[{n}]{t} = ^arr;\n", lit.join(", ")),
                        _ => format!("    arr : [{n}]{t} = {t}.[{}];\n    a : ^mut [{n}]{t} = ^mut arr;\n", lit.join(", ")),
                    };
                    let place = if shape == "field" { "s.a[i]" } else { "a[i]" };
                    let access = if write {
                        format!("    {place} = 99;\n    core.println(\"AFTER\");\n")
                    } else {
                        format!("    x := {place};\n    core.println(\"AFTER\");\n    core.println(x);\n")
                    };
                    let guards = if shape == "field" { "    core.println(s.g1);\n    core.println(s.g2);\n" } else if shape == "local" { "    core.println(g1);\n    core.println(g2);\n" } else { "" };
                    let sdef = if shape == "field" { format!("S :: struct {{ g1: {t}, a: [{n}]{t}, g2: {t} }};\n\n") } else { String::new() };
                    // the index is computed at run time (through a function) so no compile-time rule applies
                    let src = format!(
                        "{HDR}{sdef}idx :: (k: {it}) -> {it} {{ k }}\n\nmain :: () {{\n{decl}    i : {it} = idx({k});\n    core.println(\"BEFORE\");\n{access}{guards}}}\n"
                    );
                    let oob = k >= n;
                    let mut lines = vec!["BEFORE".to_string()];
                    if !oob {
                        lines.push("AFTER".into());
                        if !write {
                            lines.push(elem_val(k).to_string());
                        }
                        if shape == "field" || shape == "local" {
                            lines.push("7".into());
                            lines.push("9".into());
                        }
                    }
                    let req = if shape == "slice" {
                        format!("C10 slice {ib} 5000 8 {n} 1000 {stride} {size} {} {k}", write as u8)
                    } else {
                        format!("C10 index {ib} 1000 {n} {stride} {size} {} {k}", write as u8)
                    };
                    out.push(Case {
                        what: format!("{shape}{} [{n}]{t} index {k} : {it}", if write { "-write" } else { "-read" }),
                        src,
                        req,
                        expect_abort: oob,
                        expect_lines: lines,
                        abort_word: "out of bounds",
                    });
                }
            }
        }
    }
    // NARROW index types on arrays whose BYTE size exceeds what the index type can hold while their
    // LENGTH does not ([64]i32 is 256 bytes, a u8 reaches 255): the check compares with the length
    // (seeded change C10_2 compared with the byte size and dropped the check)
    for &(t, size, n, it, ib, imax) in &[
        ("i32", 4u32, 64u64, "u8", 8u32, 255u64),
        ("u64", 8, 40, "u8", 8, 255),
        ("u16", 2, 200, "u8", 8, 255),
        ("i32", 4, 20000, "u16", 16, 65535),
        ("u8", 1, 300, "u16", 16, 65535),
    ] {
        for k in [n - 1, n, n + 1, (n + imax) / 2, imax] {
            for (shape, write) in [("local", false), ("local", true), ("ptrmut", true), ("field", false)] {
                if !thorough && shape == "field" {
                    continue;
                }
                let decl = match shape {
                    "local" => format!("    g1 : {t} = 7;\n    a : [{n}]{t};\n    g2 : {t} = 9;\n    a[{}] = 5;\n", n - 1),
                    "field" => format!("    s : S;\n    s.g1 = 7;\n    s.g2 = 9;\n    s.a[{}] = 5;\n", n - 1),
                    _ => format!("    arr : [{n}]{t};\n    arr[{}] = 5;\n    a : ^mut [{n}]{t} = ^mut arr;\n", n - 1),
                };
                let place = if shape == "field" { "s.a[i]" } else { "a[i]" };
                let access = if write {
                    format!("    {place} = 99;\n    core.println(\"AFTER\");\n")
                } else {
                    format!("    x := {place};\n    core.println(\"AFTER\");\n    core.println(x);\n")
                };
                let guards = if shape == "field" { "    core.println(s.g1);\n    core.println(s.g2);\n" } else if shape == "local" { "    core.println(g1);\n    core.println(g2);\n" } else { "" };
                let sdef = if shape == "field" { format!("S :: struct {{ g1: {t}, a: [{n}]{t}, g2: {t} }};\n\n") } else { String::new() };
                let src = format!(
                    "{HDR}{sdef}idx :: (k: {it}) -> {it} {{ k }}\n\nmain :: () {{\n{decl}    i : {it} = idx({k});\n    core.println(\"BEFORE\");\n{access}{guards}}}\n"
                );
                let oob = k >= n;
                let mut lines = vec!["BEFORE".to_string()];
                if !oob {
                    lines.push("AFTER".into());
                    if !write {
                        lines.push("5".into());
                    }
                    if shape == "field" || shape == "local" {
                        lines.push("7".into());
                        lines.push("9".into());
                    }
                }
                out.push(Case {
                    what: format!("narrow-index:{shape}{} [{n}]{t} index {k} : {it}", if write { "-write" } else { "-read" }),
                    src,
                    req: format!("C10 index {ib} 1000 {n} {size} {size} {} {k}", write as u8),
                    expect_abort: oob,
                    expect_lines: lines,
                    abort_word: "out of bounds",
                });
            }
        }
    }
    // COMPOUND assignment: `a[i] op= b[k]` compiles the destination twice and the value once; every one of
    // the index expressions keeps its own check (seeded change C10_3 dropped the checks of the right-hand
    // side while the destination's "already checked" flag was set)
    for (dst_oob, src_oob) in [(false, false), (false, true), (true, false)] {
        for form in ["a[i] += b[k];", "a[i] += a[k];", "a[i] -= b[k] + b[k];", "s.a[i] += b[k];", "a[i] += pb^[k];"] {
            let (i, k) = (if dst_oob { 4 } else { 1 }, if src_oob { 5 } else { 2 });
            let src = format!(
                "{HDR}S :: struct {{ g1: i32, a: [3]i32, g2: i32 }};\nidx :: (k: usize) -> usize {{ k }}\n\nmain :: () {{\n    g1 : i32 = 7;\n    a : [3]i32 = i32.[10, 20, 30];\n    g2 : i32 = 9;\n    b : [4]i32 = i32.[1, 2, 3, 4];\n    g3 : i32 = 11;\n    pb := ^b;\n    s := S.{{ g1 = 7, a = i32.[10, 20, 30], g2 = 9 }};\n    i := idx({i});\n    k := idx({k});\n    core.println(\"BEFORE\");\n    {form}\n    core.println(\"AFTER\");\n    core.println(g1);\n    core.println(g2);\n    core.println(g3);\n}}\n"
            );
            let oob = dst_oob || src_oob;
            let mut lines = vec!["BEFORE".to_string()];
            if !oob {
                lines.extend(["AFTER".to_string(), "7".into(), "9".into(), "11".into()]);
            }
            out.push(Case {
                what: format!("compound-assign:{form}:dst-{}:src-{}", if dst_oob { "oob" } else { "ok" }, if src_oob { "oob" } else { "ok" }),
                src,
                // the model op is asked about the index that is out of range (or the source index when none is)
                req: if dst_oob { "C10 index 64 1000 3 4 4 1 4".to_string() } else { format!("C10 index 64 1000 4 4 4 0 {k}") },
                expect_abort: oob,
                expect_lines: lines,
                abort_word: "out of bounds",
            });
        }
    }
    // LITERAL indices on slices: there is no compile-time length, so the run-time check is the only
    // one (a literal index at or past the length must abort exactly like a computed one)
    for n in [1u64, 3] {
        let lit: Vec<String> = (0..n).map(|i| elem_val(i).to_string()).collect();
        for k in [0, n - 1, n, n + 1, n + 4] {
            for write in [false, true] {
                let access = if write {
                    format!("    a[{k}] = 99;\n    core.println(\"AFTER\");\n")
                } else {
                    format!("    x := a[{k}];\n    core.println(\"AFTER\");\n    core.println(x);\n")
                };
                let src = format!(
                    "{HDR}main :: () {{\n    arr : [{n}]i32 = i32.[{}];\n    a : []i32 = arr;\n    core.println(\"BEFORE\");\n{access}}}\n",
                    lit.join(", ")
                );
                let oob = k >= n;
                let mut lines = vec!["BEFORE".to_string()];
                if !oob {
                    lines.push("AFTER".into());
                    if !write {
                        lines.push(elem_val(k).to_string());
                    }
                }
                out.push(Case {
                    what: format!("slice-literal{} []i32 len {n} index literal {k}", if write { "-write" } else { "-read" }),
                    src,
                    req: format!("C10 slice 64 5000 8 {n} 1000 4 4 {} {k}", write as u8),
                    expect_abort: oob,
                    expect_lines: lines,
                    abort_word: "out of bounds",
                });
            }
        }
    }
    // nested arrays: m[i][j]
    for (i, j) in [(0u64, 0u64), (1, 2), (2, 0), (0, 3), (1, 7), (6, 1)] {
        let src = format!(
            "{HDR}idx :: (k: usize) -> usize {{ k }}\n\nmain :: () {{\n    m : [2][3]i32 = .[i32.[1, 2, 3], i32.[4, 5, 6]];\n    i := idx({i});\n    j := idx({j});\n    core.println(\"BEFORE\");\n    x := m[i][j];\n    core.println(\"AFTER\");\n    core.println(x);\n}}\n"
        );
        let oob = i >= 2 || j >= 3;
        let mut lines = vec!["BEFORE".to_string()];
        if !oob {
            lines.push("AFTER".into());
            lines.push((i * 3 + j + 1).to_string());
        }
        // the model is asked about the access that decides: outer first
        let req = if i >= 2 { format!("C10 index 64 1000 2 12 12 1 {i}") } else { format!("C10 index 64 1000 3 4 4 0 {j}") };
        out.push(Case { what: format!("nested [2][3]i32 at [{i}][{j}]"), src, req, expect_abort: oob, expect_lines: lines, abort_word: "out of bounds" });
    }
    out
}

fn unwrap_cases() -> Vec<Case> {
    let mut out = vec![];
    // enum with payloads: value variant v, requested r
    let variants = [("A", "i32", "i32.(41)", "41"), ("B", "u8", "u8.(7)", "7"), ("C", "", "", "")];
    for (vi, v) in variants.iter().enumerate() {
        for (ri, r) in variants.iter().enumerate() {
            if r.1.is_empty() {
                continue; // requesting the payload-less variant prints nothing useful
            }
            let mk = if v.1.is_empty() { format!("E.{}", v.0) } else { format!("E.{}.({})", v.0, v.2) };
            let src = format!(
                "{HDR}E :: enum {{ A: i32, B: u8, C }};\n\nmk :: () -> E {{ {mk} }}\n\nmain :: () {{\n    e : E = mk();\n    core.println(\"BEFORE\");\n    x := #unwrap(e, E.{});\n    core.println(\"AFTER\");\n    core.println(x);\n}}\n",
                r.0
            );
            let ok = vi == ri;
            let mut lines = vec!["BEFORE".to_string()];
            if ok {
                lines.push("AFTER".into());
                lines.push(v.3.to_string());
            }
            out.push(Case {
                what: format!("enum value {} unwrap as {}", v.0, r.0),
                src,
                req: format!("C10 unwrap tagged 4 {ri} 2000 {vi}"),
                expect_abort: !ok,
                expect_lines: lines,
                abort_word: "unwrap",
            });
        }
    }
    // optional ?i32
    for (has, val) in [(true, "i32.(5)"), (false, "nil")] {
        for want_payload in [true, false] {
            let req_ty = if want_payload { "i32" } else { "nil" };
            let src = format!(
                "{HDR}mk :: () -> ?i32 {{ {val} }}\n\nmain :: () {{\n    o : ?i32 = mk();\n    core.println(\"BEFORE\");\n    x := #unwrap(o, {req_ty});\n    core.println(\"AFTER\");\n{}}}\n",
                if want_payload { "    core.println(x);\n" } else { "" }
            );
            let ok = has == want_payload;
            let mut lines = vec!["BEFORE".to_string()];
            if ok {
                lines.push("AFTER".into());
                if want_payload {
                    lines.push("5".into());
                }
            }
            out.push(Case {
                what: format!("optional {} unwrap as {req_ty}", if has { "some" } else { "nil" }),
                src,
                req: format!("C10 unwrap tagged 4 {} 2000 {}", want_payload as u8, has as u8),
                expect_abort: !ok,
                expect_lines: lines,
                abort_word: "unwrap",
            });
        }
    }
    // nullable pointer ?^i32
    for has in [true, false] {
        let src = format!(
            "{HDR}main :: () {{\n    v : i32 = 77;\n    p : ?^i32 = {};\n    core.println(\"BEFORE\");\n    q := #unwrap(p, ^i32);\n    core.println(\"AFTER\");\n    core.println(q^);\n}}\n",
            if has { "^v" } else { "nil" }
        );
        let mut lines = vec!["BEFORE".to_string()];
        if has {
            lines.push("AFTER".into());
            lines.push("77".into());
        }
        out.push(Case {
            what: format!("nullable pointer {} unwrap as ^i32", if has { "non-null" } else { "nil" }),
            src,
            req: format!("C10 unwrap nullsome 0 0 {} 0", if has { 4096 } else { 0 }),
            expect_abort: !has,
            expect_lines: lines,
            abort_word: "unwrap",
        });
    }
    // error union str!i32 — error type u8 to keep printing simple
    for (is_ok, val) in [(true, "i32.(12)"), (false, "true")] {
        for want_ok in [true, false] {
            let req_ty = if want_ok { "i32" } else { "bool" };
            let src = format!(
                "{HDR}mk :: () -> bool!i32 {{ {val} }}\n\nmain :: () {{\n    r := mk();\n    core.println(\"BEFORE\");\n    x := #unwrap(r, {req_ty});\n    core.println(\"AFTER\");\n    core.println(x);\n}}\n"
            );
            let ok = is_ok == want_ok;
            let mut lines = vec!["BEFORE".to_string()];
            if ok {
                lines.push("AFTER".into());
                lines.push(if is_ok { "12".into() } else { "true".into() });
            }
            out.push(Case {
                what: format!("error union {} unwrap as {req_ty}", if is_ok { "ok" } else { "err" }),
                src,
                req: format!("C10 unwrap tagged 4 {} 2000 {}", want_ok as u8, is_ok as u8),
                expect_abort: !ok,
                expect_lines: lines,
                abort_word: "unwrap",
            });
        }
    }
    out
}

pub fn run(tier: &str, seed: u64, widen: bool) -> Report {
    let mut rep = Report::new(
        "C10",
        "real capy CLI + executable (lines printed before/after the access, exit status, abort message) vs the Lean plan model CapyV.Checks; literal indices through in-process hir_ty",
        "template programs: arrays of u8/i32/u64/u16 with 1/3/5 elements as locals (with guard locals), as struct fields between guard fields, as slices, behind ^ and ^mut pointers, read and written at every run-time index 0..len+4 (index types usize/u8/u32); large arrays ([64]i32, [40]u64, [200]u16, [20000]i32, [300]u8) indexed by u8 / u16 at len-1, len, len+1, midway and the index type's maximum; nested [2][3] arrays; #unwrap of every (current, requested) variant pair of an enum, an optional, a nullable pointer and an error union; literal indices 0..len+2 checked at compile time. Non-trivial = out-of-range / mismatching case; distinct by program text",
    );
    if !e2e::available() {
        rep.notes.push("capy CLI binary missing".into());
        return rep;
    }
    let mut rng = Rng::new(seed);
    let thorough = tier == "thorough" || widen;
    let mut cases = index_cases(&mut rng, thorough);
    cases.extend(unwrap_cases());
    let progs: Vec<Program> = cases.iter().map(|c| Program::single(&c.src)).collect();
    let outs = e2e::run_all(&progs, e2e::Limits::default());
    let answers = lean::ask(&cases.iter().map(|c| c.req.clone()).collect::<Vec<_>>());
    for ((c, o), model) in cases.iter().zip(outs.iter()).zip(answers.iter()) {
        rep.case(if c.expect_abort { Some(c.src.clone()) } else { None });
        rep.hit(&format!("{}:{}", c.what.split(' ').next().unwrap_or(""), if c.expect_abort { "must-abort" } else { "must-pass" }));
        let input = json!({"what": c.what, "source": c.src});
        if !o.built {
            rep.oracle_fail("template-program-not-built", input, json!(o.compile_out.lines().filter(|l| l.starts_with("error")).take(2).collect::<Vec<_>>()), json!("accepted"), "an accepted-by-design program was rejected");
            continue;
        }
        let text = o.stdout();
        let lines: Vec<String> = text.lines().map(|l| l.trim().to_string()).filter(|l| !l.is_empty()).collect();
        let aborted = o.run_status == Some(1) && lines.iter().any(|l| l.contains(c.abort_word));
        let printed: Vec<String> = lines.iter().take_while(|l| !l.contains("unreachable")).cloned().collect();
        let observed = format!("{} status={:?} signal={:?} lines={:?}", if aborted { "abort" } else { "ok" }, o.run_status, o.run_signal, printed);
        if rep.evaluations % 41 == 1 {
            rep.sample(json!({"what": c.what, "observed": observed}));
        }
        // model: `abort ...` or `ok ...`
        if model != "?" && model.starts_with("abort") != aborted {
            rep.disagree(input.clone(), json!(observed), json!(model));
        }
        rep.traces_validated += 1;
        if c.expect_abort {
            if !aborted {
                rep.oracle_fail("no-abort-on-bad-access", input, json!(observed), json!("message + exit status 1"), "an out-of-range index / wrong #unwrap did not abort");
            } else if printed != c.expect_lines {
                rep.oracle_fail("effects-after-bad-access", input, json!(observed), json!(c.expect_lines), "something ran after the faulting access");
            }
        } else if aborted || o.run_status != Some(0) || printed != c.expect_lines {
            rep.oracle_fail("in-range-access-wrong", input, json!(observed), json!(c.expect_lines), "an in-range access / matching #unwrap misbehaved (wrong element, clobbered guard, spurious abort)");
        }
    }
    // literal indices: compile-time rule
    for n in [1u64, 3] {
        for k in 0..=(n + 2) {
            for paren in [false, true] {
                let idx = if paren { format!("({k})") } else { k.to_string() };
                let src = format!("main :: () {{\n    a : [{n}]i32 = i32.[{}];\n    x := a[{idx}];\n}}\n", (0..n).map(|i| i.to_string()).collect::<Vec<_>>().join(", "));
                let r = frontend::with_analysis(vec![("main.capy".into(), src.clone())], None, false, |a| a.kinds());
                let kinds = r.unwrap_or_else(|e| vec![format!("PANIC:{e}")]);
                let rejected = kinds.iter().any(|k| k.contains("IndexOutOfBounds"));
                let m = lean::ask(&[format!("C10 literal {} {k} {n}", (!paren) as u8)]);
                rep.case(if k >= n { Some(src.clone()) } else { None });
                rep.hit(if paren { "literal-paren" } else { "literal-bare" });
                if m[0] != "?" && (m[0] == "rejected") != rejected {
                    rep.disagree(json!({"source": src}), json!(kinds), json!(m[0]));
                }
                // the property: a literal index out of range is rejected at compile time
                if !paren && (k >= n) != rejected {
                    rep.oracle_fail("literal-index-rule", json!({"source": src}), json!(kinds), json!(if k >= n { "IndexOutOfBounds" } else { "accepted" }), "literal index acceptance differs from `index < length`");
                }
                if paren && k < n && rejected {
                    rep.oracle_fail("literal-index-rule", json!({"source": src}), json!(kinds), json!("accepted"), "an in-range literal index was rejected");
                }
            }
        }
    }
    rep
}

pub fn replay(input: &serde_json::Value) -> String {
    let src = input["source"].as_str().unwrap_or("");
    let o = e2e::run_all(&[Program::single(src)], e2e::Limits::default());
    format!("implementation: built={} status={:?} signal={:?}\n{}", o[0].built, o[0].run_status, o[0].run_signal, o[0].stdout())
}
