//! C05 — names resolve to the innermost visible binding; scopes end where they end.
//! Correspondence: the real `hir::lower` (lexer → parser → `hir::index` → `hir::lower`,
//! in-process, one thread per file, panics caught) on generated programs over the identifier
//! pool {a, b, c, i32, nil}; for every identifier USE what it resolved to (the binder at which
//! source offset / parameter index / global / builtin / undefined) is compared with the Lean
//! model `CapyV.Scope.resolve` and with the Lean spec `CapyV.Scope.spec`; the oracle is an
//! independent environment-passing resolver written here from the property text.
use crate::lean;
use crate::report::Report;
use crate::rng::Rng;
use hir::{Expr as H, LambdaBody, LoweringDiagnosticKind, Stmt};
use la_arena::Idx;
use serde_json::json;
use std::collections::{BTreeMap, HashMap};
use std::path::Path;

pub const POOL: [&str; 5] = ["a", "b", "c", "i32", "nil"];
const PRIM: u8 = 3;
const NIL: u8 = 4;

// ---------------------------------------------------------------- ScopeLang (generator side)

#[derive(Clone, Debug)]
pub enum E {
    Lit,
    Use(u8),
    /// children are lowered left to right in the same context
    Seq(SeqForm, Vec<E>),
    Block(Vec<S>, Box<E>),
    Switch(Option<u8>, Box<E>, Vec<Arm>),
    /// params, return type (`Lit` = none), body (`None` = function type without body)
    Lambda(Vec<Par>, Box<E>, Option<(Vec<S>, Box<E>)>),
    Comptime(Box<E>),
}

#[derive(Clone, Copy, Debug, PartialEq)]
pub enum SeqForm {
    /// `(e0 + e1 + …)`
    Binary,
    /// `e0(e1, …)`
    Call,
    /// `if e0 B1 [else B2]` — children 1.. are blocks
    If,
    /// `while e0 B1`
    While,
    /// `(e0)`
    Paren,
}

#[derive(Clone, Debug)]
pub enum S {
    /// `x := val` / `x :: val` / `x : ty = val` / `x : ty : val`
    Def { x: u8, mutable: bool, ty: E, val: E },
    /// `e;`
    Expr(E),
    /// `e0 = e1;`
    Assign(E, E),
    /// `defer e;`
    Defer(E),
}

#[derive(Clone, Debug)]
pub struct Arm {
    /// `Use(x)` = the type/variant `x`; `Lit` = `.b` shorthand or (if `default`) `_`
    pub variant: E,
    pub default: bool,
    pub body: E,
}

#[derive(Clone, Debug)]
pub struct Par {
    pub x: u8,
    pub ct: bool,
    pub ty: E,
}

#[derive(Clone, Debug)]
pub struct G {
    pub name: u8,
    pub ty: E,
    pub val: E,
}

/// what a use resolved to, in the wire format shared with the Lean driver
/// `L<tag>` local, `S<tag>` switch argument, `P<tag>.<idx>` param, `C<tag>.<idx>.<cidx>` comptime
/// param, `I<tag>.<idx>.<cidx>` inline (header) param, `N<x>` InlineParamNotComptime, `G<x>` global,
/// `T<x>` primitive type, `nil`, `U<x>` undefined
type Res = String;

// ---------------------------------------------------------------- rendering to Capy + sexp

#[derive(Default)]
struct Rend {
    src: String,
    /// (offset, name) of every identifier use in source order
    uses: Vec<(usize, u8)>,
    binders: usize,
}

#[derive(Clone, Copy, PartialEq)]
enum Pos {
    /// anywhere an expression may stand on its own
    Free,
    /// operand / callee / condition: compound things get parentheses
    Tight,
    /// a type position (parameter type, return type, annotation)
    Ty,
}

impl Rend {
    fn expr(&mut self, e: &E, pos: Pos) -> String {
        match e {
            E::Lit => {
                self.src.push('1');
                "l".into()
            }
            E::Use(x) => {
                self.uses.push((self.src.len(), *x));
                self.src.push_str(POOL[*x as usize]);
                format!("(u {x})")
            }
            E::Seq(form, es) => {
                let wrap = pos != Pos::Free && *form != SeqForm::Paren && *form != SeqForm::Binary;
                if wrap {
                    self.src.push('(');
                }
                let mut sx = vec![];
                match form {
                    SeqForm::Binary => {
                        self.src.push('(');
                        for (i, c) in es.iter().enumerate() {
                            if i > 0 {
                                self.src.push_str(" + ");
                            }
                            sx.push(self.expr(c, Pos::Tight));
                        }
                        self.src.push(')');
                    }
                    SeqForm::Paren => {
                        self.src.push('(');
                        sx.push(self.expr(&es[0], Pos::Free));
                        self.src.push(')');
                    }
                    SeqForm::Call => {
                        sx.push(self.expr(&es[0], Pos::Tight));
                        self.src.push('(');
                        for (i, c) in es[1..].iter().enumerate() {
                            if i > 0 {
                                self.src.push_str(", ");
                            }
                            sx.push(self.expr(c, Pos::Free));
                        }
                        self.src.push(')');
                    }
                    SeqForm::If => {
                        self.src.push_str("if ");
                        sx.push(self.expr(&es[0], Pos::Tight));
                        self.src.push(' ');
                        sx.push(self.expr(&es[1], Pos::Free));
                        if es.len() > 2 {
                            self.src.push_str(" else ");
                            sx.push(self.expr(&es[2], Pos::Free));
                        }
                    }
                    SeqForm::While => {
                        self.src.push_str("while ");
                        sx.push(self.expr(&es[0], Pos::Tight));
                        self.src.push(' ');
                        sx.push(self.expr(&es[1], Pos::Free));
                    }
                }
                if wrap {
                    self.src.push(')');
                }
                format!("(q {})", sx.join(" "))
            }
            E::Block(ss, tail) => {
                let wrap = pos != Pos::Free;
                if wrap {
                    self.src.push('(');
                }
                let s = self.block(ss, tail);
                if wrap {
                    self.src.push(')');
                }
                format!("(b {s})")
            }
            E::Switch(arg, scrut, arms) => {
                let wrap = pos != Pos::Free;
                if wrap {
                    self.src.push('(');
                }
                self.src.push_str("switch ");
                if let Some(a) = arg {
                    self.src.push_str(POOL[*a as usize]);
                    self.src.push_str(" in ");
                }
                let sc = self.expr(scrut, Pos::Tight);
                self.src.push_str(" { ");
                let mut sx = vec![];
                for arm in arms {
                    let tag = self.src.len();
                    self.binders += arg.is_some() as usize;
                    let v = match (&arm.variant, arm.default) {
                        (_, true) => {
                            self.src.push('_');
                            "l".to_string()
                        }
                        (E::Use(_), _) => self.expr(&arm.variant, Pos::Ty),
                        _ => {
                            self.src.push_str(".b");
                            "l".to_string()
                        }
                    };
                    self.src.push_str(" => ");
                    let b = self.expr(&arm.body, Pos::Free);
                    self.src.push_str(", ");
                    sx.push(format!("(a {tag} {v} {b})"));
                }
                self.src.push('}');
                if wrap {
                    self.src.push(')');
                }
                let a = arg.map(|a| a.to_string()).unwrap_or("-".into());
                format!("(s {a} {sc} {})", sx.join(" "))
            }
            E::Lambda(ps, ret, body) => {
                let wrap = pos != Pos::Free;
                if wrap {
                    self.src.push('(');
                }
                self.src.push('(');
                let mut sx = vec![];
                for (i, p) in ps.iter().enumerate() {
                    if i > 0 {
                        self.src.push_str(", ");
                    }
                    let tag = self.src.len();
                    self.binders += 1;
                    if p.ct {
                        self.src.push_str("comptime ");
                    }
                    self.src.push_str(POOL[p.x as usize]);
                    self.src.push_str(": ");
                    let t = self.expr(&p.ty, Pos::Ty);
                    sx.push(format!("(p {} {tag} {} {t})", p.x, p.ct as u8));
                }
                self.src.push(')');
                let r = if matches!(**ret, E::Lit) {
                    "l".to_string()
                } else {
                    self.src.push_str(" -> ");
                    self.expr(ret, Pos::Ty)
                };
                let b = match body {
                    Some((ss, tail)) => {
                        self.src.push(' ');
                        self.block(ss, tail)
                    }
                    None => "() l".to_string(),
                };
                if wrap {
                    self.src.push(')');
                }
                format!("(f ({}) {r} {b})", sx.join(" "))
            }
            E::Comptime(e) => {
                let wrap = pos != Pos::Free;
                if wrap {
                    self.src.push('(');
                }
                self.src.push_str("comptime ");
                let s = self.expr(e, Pos::Free);
                if wrap {
                    self.src.push(')');
                }
                format!("(c {s})")
            }
        }
    }

    /// `{ stmts tail }` → sexp `(stmts…) tail`
    fn block(&mut self, ss: &[S], tail: &E) -> String {
        self.src.push_str("{ ");
        let mut sx = vec![];
        for s in ss {
            match s {
                S::Def { x, mutable, ty, val } => {
                    let tag = self.src.len();
                    self.binders += 1;
                    self.src.push_str(POOL[*x as usize]);
                    self.src.push_str(" :");
                    let t = if matches!(ty, E::Lit) {
                        "l".to_string()
                    } else {
                        self.src.push(' ');
                        let t = self.expr(ty, Pos::Ty);
                        self.src.push(' ');
                        t
                    };
                    self.src.push_str(if *mutable { "= " } else { ": " });
                    let v = self.expr(val, Pos::Free);
                    sx.push(format!("(d {x} {tag} {t} {v})"));
                }
                S::Expr(e) => {
                    let v = self.expr(e, Pos::Free);
                    sx.push(format!("(e {v})"));
                }
                S::Assign(d, v) => {
                    let d = self.expr(d, Pos::Tight);
                    self.src.push_str(" = ");
                    let v = self.expr(v, Pos::Free);
                    sx.push(format!("(e (q {d} {v}))"));
                }
                S::Defer(e) => {
                    self.src.push_str("defer ");
                    let v = self.expr(e, Pos::Free);
                    sx.push(format!("(e {v})"));
                }
            }
            self.src.push_str("; ");
        }
        let t = if matches!(tail, E::Lit) {
            "l".to_string()
        } else {
            self.expr(tail, Pos::Free)
        };
        self.src.push_str(" }");
        format!("({}) {t}", sx.join(" "))
    }

    fn file(&mut self, gs: &[G]) -> String {
        let mut sx = vec![];
        for g in gs {
            self.src.push_str(POOL[g.name as usize]);
            self.src.push_str(" :");
            let t = if matches!(g.ty, E::Lit) {
                "l".to_string()
            } else {
                self.src.push(' ');
                let t = self.expr(&g.ty, Pos::Ty);
                self.src.push(' ');
                t
            };
            self.src.push_str(": ");
            let v = self.expr(&g.val, Pos::Free);
            self.src.push_str(";\n");
            sx.push(format!("(g {} {t} {v})", g.name));
        }
        format!("({})", sx.join(" "))
    }
}

pub struct Rendered {
    pub src: String,
    pub sexp: String,
    pub uses: Vec<(usize, u8)>,
    pub globals: Vec<u8>,
    pub binders: usize,
}

pub fn render(gs: &[G]) -> Rendered {
    let mut r = Rend::default();
    let sexp = r.file(gs);
    Rendered { src: r.src, sexp, uses: r.uses, globals: gs.iter().map(|g| g.name).collect(), binders: r.binders }
}

// ---------------------------------------------------------------- the oracle (property text)

/// environment: visible bindings, innermost first
type Env = Vec<(u8, Res)>;

struct Oracle<'a> {
    globals: &'a [u8],
    out: Vec<Res>,
}

impl<'a> Oracle<'a> {
    fn lookup(&self, env: &Env, x: u8) -> Res {
        if let Some((_, r)) = env.iter().rev().find(|(n, _)| *n == x) {
            return r.clone();
        }
        if self.globals.contains(&x) {
            format!("G{x}")
        } else if x == PRIM {
            format!("T{x}")
        } else if x == NIL {
            "nil".into()
        } else {
            format!("U{x}")
        }
    }
}

/// The oracle works on the tagged tree (binder tags = source offsets) parsed back from the
/// S-expression that is sent to the Lean driver, so both see the same input.
#[derive(Clone, Debug)]
enum TE {
    Lit,
    Use(u8),
    Seq(Vec<TE>),
    Block(Vec<TS>, Box<TE>),
    Switch(Option<u8>, Box<TE>, Vec<(usize, TE, TE)>),
    Lambda(Vec<(u8, usize, bool, TE)>, Box<TE>, Vec<TS>, Box<TE>),
    Comptime(Box<TE>),
}
#[derive(Clone, Debug)]
enum TS {
    Def(u8, usize, TE, TE),
    Expr(TE),
}

fn parse_tagged(sx: &Sx) -> TE {
    match sx {
        Sx::Atom(_) => TE::Lit,
        Sx::List(items) => {
            let head = items[0].atom();
            match head {
                "u" => TE::Use(items[1].atom().parse().unwrap()),
                "q" => TE::Seq(items[1..].iter().map(parse_tagged).collect()),
                "b" => TE::Block(parse_stmts(&items[1]), Box::new(parse_tagged(&items[2]))),
                "s" => {
                    let arg = items[1].atom().parse::<u8>().ok();
                    let arms = items[3..]
                        .iter()
                        .map(|a| {
                            let a = a.list();
                            (a[1].atom().parse().unwrap(), parse_tagged(&a[2]), parse_tagged(&a[3]))
                        })
                        .collect();
                    TE::Switch(arg, Box::new(parse_tagged(&items[2])), arms)
                }
                "f" => {
                    let ps = items[1]
                        .list()
                        .iter()
                        .map(|p| {
                            let p = p.list();
                            (p[1].atom().parse().unwrap(), p[2].atom().parse().unwrap(), p[3].atom() == "1", parse_tagged(&p[4]))
                        })
                        .collect();
                    TE::Lambda(ps, Box::new(parse_tagged(&items[2])), parse_stmts(&items[3]), Box::new(parse_tagged(&items[4])))
                }
                "c" => TE::Comptime(Box::new(parse_tagged(&items[1]))),
                other => panic!("bad sexp head {other}"),
            }
        }
    }
}

fn parse_stmts(sx: &Sx) -> Vec<TS> {
    sx.list()
        .iter()
        .map(|s| {
            let s = s.list();
            match s[0].atom() {
                "d" => TS::Def(s[1].atom().parse().unwrap(), s[2].atom().parse().unwrap(), parse_tagged(&s[3]), parse_tagged(&s[4])),
                _ => TS::Expr(parse_tagged(&s[1])),
            }
        })
        .collect()
}

#[derive(Debug)]
enum Sx {
    Atom(String),
    List(Vec<Sx>),
}
impl Sx {
    fn atom(&self) -> &str {
        match self {
            Sx::Atom(s) => s,
            _ => "",
        }
    }
    fn list(&self) -> &[Sx] {
        match self {
            Sx::List(v) => v,
            _ => &[],
        }
    }
}
fn parse_sx(s: &str) -> Sx {
    fn go(toks: &[String], i: &mut usize) -> Sx {
        if toks[*i] == "(" {
            *i += 1;
            let mut v = vec![];
            while toks[*i] != ")" {
                v.push(go(toks, i));
            }
            *i += 1;
            Sx::List(v)
        } else {
            *i += 1;
            Sx::Atom(toks[*i - 1].clone())
        }
    }
    let mut toks = vec![];
    let mut cur = String::new();
    for ch in s.chars() {
        if ch == '(' || ch == ')' || ch == ' ' {
            if !cur.is_empty() {
                toks.push(std::mem::take(&mut cur));
            }
            if ch != ' ' {
                toks.push(ch.to_string());
            }
        } else {
            cur.push(ch);
        }
    }
    if !cur.is_empty() {
        toks.push(cur);
    }
    let mut i = 0;
    go(&toks, &mut i)
}

impl<'a> Oracle<'a> {
    fn expr(&mut self, e: &TE, env: &Env) {
        match e {
            TE::Lit => {}
            TE::Use(x) => {
                let r = self.lookup(env, *x);
                self.out.push(r);
            }
            TE::Seq(es) => {
                for c in es {
                    self.expr(c, env);
                }
            }
            TE::Block(ss, tail) => self.block(ss, tail, env.clone()),
            TE::Switch(arg, scrut, arms) => {
                self.expr(scrut, env);
                for (tag, variant, body) in arms {
                    self.expr(variant, env);
                    let mut inner = env.clone();
                    if let Some(a) = arg {
                        inner.push((*a, format!("S{tag}")));
                    }
                    self.expr(body, &inner);
                }
            }
            TE::Lambda(ps, ret, ss, tail) => {
                // header: earlier parameters, then the surroundings; body: the parameters only
                let mut header = env.clone();
                let mut body: Env = vec![];
                let mut cidx = 0;
                for (idx, (x, tag, ct, ty)) in ps.iter().enumerate() {
                    self.expr(ty, &header);
                    if *ct {
                        header.push((*x, format!("I{tag}.{idx}.{cidx}")));
                        body.push((*x, format!("C{tag}.{idx}.{cidx}")));
                        cidx += 1;
                    } else {
                        header.push((*x, format!("N{x}")));
                        body.push((*x, format!("P{tag}.{idx}")));
                    }
                }
                self.expr(ret, &header);
                self.block(ss, tail, body);
            }
            TE::Comptime(e) => {
                // compile-time evaluation: only header parameters of the surroundings remain visible
                let inner: Env = env.iter().filter(|(_, r)| r.starts_with('I') || r.starts_with('N')).cloned().collect();
                self.expr(e, &inner);
            }
        }
    }
    fn block(&mut self, ss: &[TS], tail: &TE, mut env: Env) {
        for s in ss {
            match s {
                TS::Def(x, tag, ty, val) => {
                    self.expr(ty, &env);
                    self.expr(val, &env);
                    env.push((*x, format!("L{tag}")));
                }
                TS::Expr(e) => self.expr(e, &env),
            }
        }
        self.expr(tail, &env);
    }
}

fn oracle(sexp: &str, globals: &[u8]) -> Vec<Res> {
    let sx = parse_sx(sexp);
    let mut o = Oracle { globals, out: vec![] };
    for g in sx.list() {
        let g = g.list();
        o.expr(&parse_tagged(&g[2]), &vec![]);
        o.expr(&parse_tagged(&g[3]), &vec![]);
    }
    o.out
}

// ---------------------------------------------------------------- the implementation

pub enum Impl {
    Ok { res: Vec<Res>, syntax_errors: usize },
    Panic(String),
}

struct Walk<'a> {
    b: &'a hir::Bodies,
    src: &'a str,
    arm_of: HashMap<Idx<hir::SwitchArg>, usize>,
    found: BTreeMap<usize, Res>,
    collect_arms: bool,
    seen: std::collections::HashSet<Idx<H>>,
}

fn pool_id(text: &str) -> String {
    POOL.iter().position(|p| *p == text).map(|i| i.to_string()).unwrap_or_else(|| format!("?{text}"))
}

impl<'a> Walk<'a> {
    fn ident_at(&self, off: usize) -> String {
        let rest = &self.src[off..];
        let end = rest.find(|c: char| !(c.is_ascii_alphanumeric() || c == '_')).unwrap_or(rest.len());
        pool_id(&rest[..end])
    }
    fn opt(&mut self, e: Option<Idx<H>>) {
        if let Some(e) = e {
            self.expr(e);
        }
    }
    fn expr(&mut self, id: Idx<H>) {
        if !self.seen.insert(id) {
            return;
        }
        let b = self.b;
        let at: usize = match &b[id] {
            H::Missing => 0,
            _ => u32::from(b.range_for_expr(id).start()) as usize,
        };
        let put = |w: &mut Self, r: Res| {
            if !w.collect_arms {
                w.found.insert(at, r);
            }
        };
        match &b[id] {
            H::Missing | H::IntLiteral(_) | H::FloatLiteral(_) | H::BoolLiteral(_) | H::StringLiteral(_)
            | H::CharLiteral(_) | H::Import(_) => {}
            H::Local(d) => {
                let tag: usize = u32::from(b[*d].range.start()) as usize;
                put(self, format!("L{tag}"));
            }
            H::SwitchArgument(sa) => {
                let r = match self.arm_of.get(sa) {
                    Some(t) => format!("S{t}"),
                    None => "S?".to_string(),
                };
                put(self, r);
            }
            H::Param { idx, range } => put(self, format!("P{}.{idx}", u32::from(range.start()))),
            H::ComptimeParam { real_idx, comptime_idx, range } => {
                put(self, format!("C{}.{real_idx}.{comptime_idx}", u32::from(range.start())))
            }
            H::InlineParam { real_idx, comptime_idx, range } => {
                put(self, format!("I{}.{real_idx}.{comptime_idx}", u32::from(range.start())))
            }
            H::LocalGlobal(_) => {
                let x = self.ident_at(at);
                put(self, format!("G{x}"));
            }
            H::PrimitiveTy(_) => {
                let x = self.ident_at(at);
                put(self, format!("T{x}"));
            }
            H::Nil => put(self, "nil".to_string()),
            H::Cast { ty, expr } => {
                self.opt(*expr);
                self.expr(*ty);
            }
            H::Ref { expr, .. } => self.expr(*expr),
            H::Deref { pointer } => self.expr(*pointer),
            H::Binary { lhs, rhs, .. } => {
                self.expr(*lhs);
                self.expr(*rhs);
            }
            H::Unary { expr, .. } => self.expr(*expr),
            H::ArrayDecl { size, ty } => {
                self.opt(*size);
                self.expr(*ty);
            }
            H::ArrayLiteral { ty, items } => {
                self.opt(*ty);
                for i in items {
                    self.expr(*i);
                }
            }
            H::Index { source, index } => {
                self.expr(*source);
                self.expr(*index);
            }
            H::Paren(e) => self.opt(*e),
            H::Block { stmts, tail_expr } => {
                for s in stmts {
                    match &b[*s] {
                        Stmt::Expr(e) => self.expr(*e),
                        Stmt::LocalDef(d) => {
                            let d = &b[*d];
                            self.opt(d.ty);
                            self.opt(d.value);
                        }
                        Stmt::Assign(a) => {
                            let a = &b[*a];
                            self.expr(a.dest);
                            self.expr(a.value);
                        }
                        Stmt::Break { value, .. } => self.opt(*value),
                        Stmt::Continue { .. } => {}
                        Stmt::Defer { expr, .. } => self.expr(*expr),
                    }
                }
                self.opt(*tail_expr);
            }
            H::If { condition, body, else_branch } => {
                self.expr(*condition);
                self.expr(*body);
                self.opt(*else_branch);
            }
            H::While { condition, body } => {
                self.opt(*condition);
                self.expr(*body);
            }
            H::Switch { scrutinee, arms, default, .. } => {
                self.expr(*scrutinee);
                for arm in arms.iter().chain(default.iter()) {
                    if let Some(sa) = arm.switch_arg {
                        self.arm_of.insert(sa, u32::from(arm.variant_range.start()) as usize);
                    }
                    if let Some(hir::ArmVariant::FullyQualified(t)) = arm.variant {
                        self.expr(t);
                    }
                    self.expr(arm.body);
                }
            }
            H::Member { previous, .. } => self.expr(*previous),
            H::Call { callee, args } => {
                self.expr(*callee);
                for a in args {
                    self.expr(*a);
                }
            }
            H::Lambda(l) => {
                let l = &b[*l];
                for p in &l.params {
                    self.expr(p.ty);
                }
                self.opt(l.return_ty);
                if let LambdaBody::Block(e) = l.body {
                    self.expr(e);
                }
            }
            H::Comptime(c) => self.expr(b[*c].body),
            H::Distinct { ty, .. } => self.expr(*ty),
            H::StructDecl { members, .. } => {
                for m in members {
                    self.expr(m.ty);
                }
            }
            H::StructLiteral { ty, members } => {
                self.opt(*ty);
                for m in members {
                    self.expr(m.value);
                }
            }
            H::EnumDecl { variants, .. } => {
                for v in variants {
                    self.opt(v.ty);
                    self.opt(v.discriminant);
                }
            }
            H::OptionalDecl { ty } => self.expr(*ty),
            H::ErrorUnionDecl { error_ty, payload_ty } => {
                self.expr(*error_ty);
                self.expr(*payload_ty);
            }
            H::Propagate { expr, .. } => self.expr(*expr),
            H::Directive { args, .. } => {
                for a in args {
                    self.expr(*a);
                }
            }
        }
    }
}

/// lexer → parser → hir::index → hir::lower on one in-memory file (own thread: `hir` keeps
/// thread-local tables; panics are outcomes)
pub fn implementation(src: &str, uses: &[(usize, u8)], global_names: &[u8]) -> Impl {
    let src_owned = src.to_string();
    let uses = uses.to_vec();
    let global_names = global_names.to_vec();
    let handle = std::thread::Builder::new()
        .stack_size(64 * 1024 * 1024)
        .spawn(move || {
            std::panic::catch_unwind(std::panic::AssertUnwindSafe(|| lower_and_extract(&src_owned, &uses, &global_names)))
        })
        .expect("spawn");
    match handle.join() {
        Ok(Ok(r)) => r,
        Ok(Err(p)) | Err(p) => Impl::Panic(crate::frontend::panic_message(p)),
    }
}

fn lower_and_extract(src: &str, uses: &[(usize, u8)], global_names: &[u8]) -> Impl {
    let mut interner = interner::Interner::default();
    let mut uid_gen = uid_gen::UIDGenerator::default();
    let tokens = lexer::lex(src);
    let parse = parser::parse_source_file(&tokens, src);
    let syntax_errors = parse.errors().len();
    if syntax_errors > 0 {
        // outside the domain (parser error recovery): do not lower
        if std::env::var("CVH_C05_SRC").is_ok() {
            for e in parse.errors() {
                eprintln!("{e:?}");
            }
        }
        return Impl::Ok { res: vec![], syntax_errors };
    }
    let tree = parse.into_syntax_tree();
    let root = <ast::Root as ast::AstNode>::cast(tree.root(), &tree).unwrap();
    let (index, _d) = hir::index(root, &tree, &mut interner);
    let (bodies, diags) =
        hir::lower(root, &tree, Path::new("main.capy"), &index, &mut uid_gen, &mut interner, Path::new(""), true);
    let mut w = Walk { b: &bodies, src, arm_of: HashMap::new(), found: BTreeMap::new(), collect_arms: true, seen: Default::default() };
    let mut roots = vec![];
    for g in global_names {
        let name = hir::common::Name(interner.intern(POOL[*g as usize]));
        if let Some(t) = bodies.global_ty(name) {
            roots.push(t);
        }
        if let Some(e) = bodies.try_global_body(name) {
            roots.push(e);
        }
    }
    // pass 1: which source arm each SwitchArg belongs to; pass 2: the uses
    for r in &roots {
        w.expr(*r);
    }
    w.collect_arms = false;
    w.seen.clear();
    for r in &roots {
        w.expr(*r);
    }
    for d in &diags {
        let at = u32::from(d.range.start()) as usize;
        match &d.kind {
            LoweringDiagnosticKind::UndefinedRef { name } => {
                w.found.insert(at, format!("U{}", pool_id(interner.lookup(*name))));
            }
            LoweringDiagnosticKind::InlineParamNotComptime { name } => {
                w.found.insert(at, format!("N{}", pool_id(interner.lookup(*name))));
            }
            _ => {}
        }
    }
    let res = uses.iter().map(|(off, _)| w.found.get(off).cloned().unwrap_or_else(|| "?".to_string())).collect();
    Impl::Ok { res, syntax_errors }
}

// ---------------------------------------------------------------- generator

pub struct Gen<'a> {
    pub rng: &'a mut Rng,
    /// allow constructs inside lambda headers that the guard of `resolve_eq_spec_partial` excludes
    pub exotic_headers: bool,
    pub budget: i32,
}

impl<'a> Gen<'a> {
    fn name(&mut self) -> u8 {
        // a, b, c three times as likely as i32 / nil
        *self.rng.pick(&[0u8, 0, 0, 1, 1, 1, 2, 2, 2, 3, 4])
    }
    fn binder_name(&mut self) -> u8 {
        *self.rng.pick(&[0u8, 0, 0, 0, 1, 1, 1, 1, 2, 2, 2, 3, 4])
    }
    fn leaf(&mut self) -> E {
        if self.rng.chance(1, 6) {
            E::Lit
        } else {
            E::Use(self.name())
        }
    }
    /// `header`: inside a lambda header after at least one parameter
    pub fn expr(&mut self, depth: u32, header: bool) -> E {
        self.budget -= 1;
        if depth == 0 || self.budget <= 0 {
            return self.leaf();
        }
        let simple_only = header && !self.exotic_headers;
        match self.rng.below(16) {
            0..=4 => self.leaf(),
            5 => {
                let n = 2 + self.rng.below(2) as usize;
                E::Seq(SeqForm::Binary, (0..n).map(|_| self.expr(depth - 1, header)).collect())
            }
            6 => {
                let n = 1 + self.rng.below(3) as usize;
                E::Seq(SeqForm::Call, (0..n).map(|_| self.expr(depth - 1, header)).collect())
            }
            7 => {
                if simple_only {
                    return E::Seq(SeqForm::Paren, vec![self.expr(depth - 1, header)]);
                }
                let mut es = vec![self.expr(depth - 1, header), self.block(depth - 1, header)];
                if self.rng.chance(1, 2) {
                    es.push(self.block(depth - 1, header));
                }
                E::Seq(SeqForm::If, es)
            }
            8 => {
                if simple_only {
                    return self.leaf();
                }
                E::Seq(SeqForm::While, vec![self.expr(depth - 1, header), self.block(depth - 1, header)])
            }
            9 | 10 => {
                if simple_only {
                    return self.leaf();
                }
                self.block(depth - 1, header)
            }
            11 | 12 => {
                let arg = if simple_only || self.rng.chance(1, 5) { None } else { Some(self.binder_name()) };
                let scrut = self.expr(depth - 1, header);
                let n = 1 + self.rng.below(3) as usize;
                let arms = (0..n)
                    .map(|i| {
                        let default = i == n - 1 && self.rng.chance(1, 3);
                        let variant = if default || self.rng.chance(1, 4) { E::Lit } else { E::Use(self.name()) };
                        let body = if self.rng.chance(2, 3) && !simple_only { self.block(depth - 1, header) } else { self.expr(depth - 1, header) };
                        Arm { variant, default, body }
                    })
                    .collect();
                E::Switch(arg, Box::new(scrut), arms)
            }
            13 | 14 => {
                if simple_only {
                    return self.leaf();
                }
                self.lambda(depth - 1, header)
            }
            _ => E::Comptime(Box::new(if self.rng.chance(2, 3) && !simple_only { self.block(depth - 1, header) } else { self.expr(depth - 1, header) })),
        }
    }
    pub fn lambda(&mut self, depth: u32, _header: bool) -> E {
        let n = self.rng.below(4) as usize;
        let mut ps = vec![];
        for i in 0..n {
            let ty = if self.rng.chance(3, 4) { self.leaf() } else { self.expr(depth.min(2), i > 0) };
            ps.push(Par { x: self.binder_name(), ct: self.rng.chance(2, 5), ty });
        }
        let ret = if self.rng.chance(1, 2) {
            E::Lit
        } else if self.rng.chance(3, 4) {
            self.leaf()
        } else {
            self.expr(depth.min(2), n > 0)
        };
        let body = if self.rng.chance(1, 8) {
            None
        } else {
            match self.block(depth, false) {
                E::Block(ss, t) => Some((ss, t)),
                _ => unreachable!(),
            }
        };
        // a lambda type without a return type does not parse as a lambda
        let ret = if body.is_none() && matches!(ret, E::Lit) { E::Use(PRIM) } else { ret };
        E::Lambda(ps, Box::new(ret), body)
    }
    pub fn block(&mut self, depth: u32, header: bool) -> E {
        let n = self.rng.below(4) as usize;
        let mut ss = vec![];
        for _ in 0..n {
            let s = match self.rng.below(10) {
                0..=4 => {
                    let ty = if self.rng.chance(1, 3) { self.expr(depth.min(1), header) } else { E::Lit };
                    S::Def { x: self.binder_name(), mutable: self.rng.chance(1, 2), ty, val: self.expr(depth, header) }
                }
                5..=7 => S::Expr(self.expr(depth, header)),
                8 => S::Assign(self.leaf(), self.expr(depth, header)),
                _ => S::Defer(self.expr(depth, header)),
            };
            ss.push(s);
        }
        let tail = if self.rng.chance(1, 2) { E::Lit } else { self.expr(depth, header) };
        E::Block(ss, Box::new(tail))
    }
    pub fn file(&mut self, depth: u32) -> Vec<G> {
        // distinct global names: a non-empty subset of the pool in random order
        let mut names: Vec<u8> = vec![0, 1, 2, 3, 4];
        for i in (1..names.len()).rev() {
            let j = self.rng.below(i as u64 + 1) as usize;
            names.swap(i, j);
        }
        let n = 1 + self.rng.below(3) as usize;
        names.truncate(n);
        names
            .into_iter()
            .map(|name| {
                let ty = if self.rng.chance(1, 4) { self.leaf() } else { E::Lit };
                let val = if self.rng.chance(2, 3) { self.lambda(depth, false) } else { self.expr(depth, false) };
                G { name, ty, val }
            })
            .collect()
    }
}

// ---------------------------------------------------------------- hand-written programs

/// the probe of DESIGN.md §6 #2 and its relatives
fn fixed_programs() -> Vec<(&'static str, Vec<G>)> {
    let u = |x: u8| E::Use(x);
    let blk = |ss: Vec<S>, t: E| E::Block(ss, Box::new(t));
    let def = |x: u8, val: E| S::Def { x, mutable: true, ty: E::Lit, val };
    let arm = |v: E, body: E| Arm { variant: v, default: false, body };
    let lam = |ps: Vec<Par>, ss: Vec<S>, t: E| E::Lambda(ps, Box::new(E::Lit), Some((ss, Box::new(t))));
    vec![
        // a :: () { b := 1; c := 1; switch b in c { i32 => { b; }, nil => {}, }; b }
        ("switch_arg_after_switch", vec![G { name: 0, ty: E::Lit, val: lam(vec![], vec![
            def(1, E::Lit), def(2, E::Lit),
            S::Expr(E::Switch(Some(1), Box::new(u(2)), vec![arm(u(3), blk(vec![S::Expr(u(1))], E::Lit)), arm(u(4), blk(vec![], E::Lit))])),
        ], u(1)) }]),
        // the argument of one arm in the variant of the next
        ("switch_arg_in_next_variant", vec![G { name: 0, ty: E::Lit, val: lam(vec![Par { x: 1, ct: false, ty: u(3) }], vec![
            S::Expr(E::Switch(Some(1), Box::new(u(1)), vec![arm(u(1), u(1)), arm(u(1), u(1))])),
        ], u(1)) }]),
        // a switch argument of one global seen from the next global
        ("switch_arg_across_globals", vec![
            G { name: 0, ty: E::Lit, val: E::Switch(Some(2), Box::new(u(1)), vec![arm(u(3), u(2))]) },
            G { name: 1, ty: E::Lit, val: u(2) },
        ]),
        // comptime switch with an argument: insert into the empty scope stack
        ("comptime_switch_arg", vec![G { name: 0, ty: E::Lit, val: lam(vec![], vec![
            S::Expr(E::Comptime(Box::new(E::Switch(Some(1), Box::new(u(2)), vec![arm(u(3), u(1))])))),
        ], E::Lit) }]),
        // lambda bodies do not capture; locals declared later are not visible earlier
        ("no_capture_no_forward", vec![G { name: 0, ty: E::Lit, val: lam(vec![Par { x: 1, ct: false, ty: u(3) }], vec![
            S::Expr(u(2)), def(2, u(2)),
            def(0, lam(vec![Par { x: 0, ct: true, ty: u(2) }, Par { x: 2, ct: false, ty: u(0) }], vec![S::Expr(u(1))], u(2))),
            S::Expr(blk(vec![def(1, u(1))], u(1))),
        ], u(1)) }]),
        // nested lambda type after a named parameter (assert in lower_lambda)
        ("lambda_in_header_after_param", vec![G { name: 0, ty: E::Lit, val: E::Lambda(
            vec![Par { x: 1, ct: false, ty: u(3) }, Par { x: 2, ct: false, ty: E::Lambda(vec![Par { x: 0, ct: false, ty: u(3) }], Box::new(u(3)), None) }],
            Box::new(E::Lit), Some((vec![], Box::new(u(2))))) }]),
        // a block local inside a header that has the name of an earlier parameter
        ("header_block_local", vec![G { name: 0, ty: E::Lit, val: E::Lambda(
            vec![Par { x: 1, ct: true, ty: u(3) }, Par { x: 2, ct: false, ty: blk(vec![S::Def { x: 1, mutable: false, ty: E::Lit, val: u(3) }], u(1)) }],
            Box::new(E::Lit), Some((vec![], Box::new(u(1))))) }]),
    ]
}

// ---------------------------------------------------------------- the guard of the partial theorem

/// mirrors `CapyV.Scope.okExpr`: inside a lambda header after the first parameter there is no
/// lambda, no local definition and no switch argument
fn ok_expr(h: bool, e: &E) -> bool {
    match e {
        E::Lit | E::Use(_) => true,
        E::Seq(_, es) => es.iter().all(|c| ok_expr(h, c)),
        E::Block(ss, t) => ok_stmts(h, ss) && ok_expr(h, t),
        E::Switch(arg, sc, arms) => (!h || arg.is_none()) && ok_expr(h, sc) && arms.iter().all(|a| ok_expr(h, &a.variant) && ok_expr(h, &a.body)),
        E::Lambda(ps, ret, body) => {
            !h && ps.iter().enumerate().all(|(i, p)| ok_expr(i > 0, &p.ty))
                && ok_expr(!ps.is_empty(), ret)
                && body.as_ref().map_or(true, |(ss, t)| ok_stmts(false, ss) && ok_expr(false, t))
        }
        E::Comptime(e) => ok_expr(h, e),
    }
}
fn ok_stmts(h: bool, ss: &[S]) -> bool {
    ss.iter().all(|s| match s {
        S::Def { ty, val, .. } => !h && ok_expr(h, ty) && ok_expr(h, val),
        S::Expr(e) | S::Defer(e) => ok_expr(h, e),
        S::Assign(d, v) => ok_expr(h, d) && ok_expr(h, v),
    })
}
fn ok_file(gs: &[G]) -> bool {
    gs.iter().all(|g| ok_expr(false, &g.ty) && ok_expr(false, &g.val))
}

// ---------------------------------------------------------------- checking

fn parse_answer(ans: &str) -> (String, String, String, String) {
    // "spec=<..> model=<..|PANIC> old=<..|PANIC> ok=<0|1>"
    let mut spec = String::new();
    let mut model = String::new();
    let mut old = String::new();
    let mut ok = String::new();
    for part in ans.split(' ') {
        if let Some(v) = part.strip_prefix("spec=") {
            spec = v.to_string();
        } else if let Some(v) = part.strip_prefix("model=") {
            model = v.to_string();
        } else if let Some(v) = part.strip_prefix("old=") {
            old = v.to_string();
        } else if let Some(v) = part.strip_prefix("ok=") {
            ok = v.to_string();
        }
    }
    (spec, model, old, ok)
}

fn join(v: &[Res]) -> String {
    if v.is_empty() {
        "-".into()
    } else {
        v.join(",")
    }
}

fn kind_of(r: &str) -> &'static str {
    match r.chars().next() {
        Some('L') => "local",
        Some('S') => "switch-arg",
        Some('P') => "param",
        Some('C') => "comptime-param",
        Some('I') => "inline-param",
        Some('N') => "inline-not-comptime",
        Some('G') => "global",
        Some('T') => "primitive",
        Some('n') => "nil",
        Some('U') => "undefined",
        _ => "unknown",
    }
}

/// which finding a difference between implementation and oracle at use `i` belongs to
fn classify(imp: &[Res], want: &[Res], i: usize) -> &'static str {
    let (g, w) = (imp[i].as_str(), want[i].as_str());
    if g.starts_with('S') && !w.starts_with('S') {
        "switch_arg_visible_outside_its_arm"
    } else if g.starts_with('S') && w.starts_with('S') {
        "switch_arg_of_other_arm"
    } else if (g.starts_with('I') || g.starts_with('N')) && (w.starts_with('L') || w.starts_with('S')) {
        "header_param_shadows_inner_local"
    } else {
        "resolution_differs"
    }
}

pub struct Case {
    pub label: String,
    pub gs: Vec<G>,
}

fn check_cases(cases: &[Case], rep: &mut Report) {
    let rendered: Vec<Rendered> = cases.iter().map(|c| render(&c.gs)).collect();
    let reqs: Vec<String> = rendered
        .iter()
        .map(|r| {
            let gl = if r.globals.is_empty() { "-".to_string() } else { r.globals.iter().map(|g| g.to_string()).collect::<Vec<_>>().join(",") };
            format!("C05 resolve {gl} {}", r.sexp)
        })
        .collect();
    let answers = lean::ask(&reqs);
    for ((case, r), ans) in cases.iter().zip(rendered.iter()).zip(answers) {
        let input = json!({"source": r.src, "sexp": r.sexp, "case": case.label});
        let want = oracle(&r.sexp, &r.globals);
        let guard = ok_file(&case.gs);
        let nontrivial = r.binders >= 2 && r.uses.len() >= 2;
        rep.case(if nontrivial { Some(r.sexp.clone()) } else { None });
        if !guard {
            rep.hit("outside-guard(exotic header)");
        }
        let (spec, model, _old, ok) = if ans == "?" { ("?".into(), "?".into(), "?".into(), "?".into()) } else { parse_answer(&ans) };
        if ans != "?" && ok != (guard as u8).to_string() {
            rep.disagree(json!({"input": input, "what": "guard okGlobals: Lean != Rust copy"}), json!(guard), json!(ok));
        }
        if ans != "?" && guard && spec != model {
            // inside the guard the theorem says model = spec: a difference means the driver is stale
            rep.disagree(json!({"input": input, "what": "Lean model != Lean spec inside the guard (contradicts resolve_eq_spec_partial)"}), json!(model), json!(spec));
        }
        if ans != "?" && spec != join(&want) {
            // Lean spec vs Rust oracle: two statements of the same property must agree
            rep.disagree(json!({"input": input, "what": "Lean spec != Rust oracle"}), json!(join(&want)), json!(spec));
        }
        match implementation(&r.src, &r.uses, &r.globals) {
            Impl::Panic(msg) => {
                rep.hit("impl:panic");
                if model != "PANIC" {
                    rep.disagree(input.clone(), json!(format!("PANIC: {msg}")), json!(model));
                }
                let label = if msg.contains("inline_header_params") {
                    "lambda_in_header_panics"
                } else if msg.contains("None") {
                    "insert_into_empty_scope_stack_panics"
                } else {
                    "lowering_panics"
                };
                rep.oracle_fail(label, input, json!(format!("PANIC: {msg}")), json!(join(&want)), "hir::lower panicked instead of resolving the names");
            }
            Impl::Ok { res, syntax_errors } => {
                if syntax_errors > 0 {
                    rep.hit("generator:syntax-error");
                    rep.notes.push(format!("generated program does not parse ({syntax_errors} errors): {}", r.src));
                    continue;
                }
                rep.traces_validated += 1;
                for x in &res {
                    rep.hit(&format!("impl:{}", kind_of(x)));
                }
                if rep.evaluations % 97 == 5 {
                    rep.sample(json!({"source": r.src, "resolved": join(&res)}));
                }
                let got = join(&res);
                if got != model {
                    rep.disagree(input.clone(), json!(got), json!(model));
                }
                if res != want {
                    let i = (0..res.len().min(want.len())).find(|&i| res[i] != want[i]).unwrap_or(0);
                    let label = if res.len() != want.len() { "use_count_differs" } else { classify(&res, &want, i) };
                    let what = if res.len() == want.len() {
                        format!("use #{i} (`{}` at offset {}) resolved to {} but the innermost visible binding is {}",
                            POOL[r.uses[i].1 as usize], r.uses[i].0, res[i], want[i])
                    } else {
                        "different number of uses".to_string()
                    };
                    rep.oracle_fail(label, input, json!(got), json!(join(&want)), &what);
                }
            }
        }
    }
}

/// every program with one global lambda whose body is a straight-line list of ≤ `n` items drawn
/// from a small alphabet of statements over the names {a, b} — exhaustive
fn exhaustive_small(n: usize) -> Vec<Case> {
    let u = |x: u8| E::Use(x);
    let blk = |ss: Vec<S>, t: E| E::Block(ss, Box::new(t));
    let def = |x: u8, val: E| S::Def { x, mutable: true, ty: E::Lit, val };
    let arm = |v: E, body: E| Arm { variant: v, default: false, body };
    let mut alphabet: Vec<S> = vec![];
    for x in 0..2u8 {
        alphabet.push(S::Expr(u(x)));
        alphabet.push(def(x, u(x)));
        alphabet.push(S::Expr(blk(vec![def(x, u(1 - x))], u(x))));
        alphabet.push(S::Expr(E::Switch(Some(x), Box::new(u(1 - x)), vec![arm(u(x), u(x)), arm(E::Lit, blk(vec![def(1 - x, u(x))], u(1 - x)))])));
        alphabet.push(S::Expr(E::Lambda(vec![Par { x, ct: x == 0, ty: u(1 - x) }], Box::new(u(x)), Some((vec![S::Expr(u(1 - x))], Box::new(u(x)))))));
        alphabet.push(S::Expr(E::Comptime(Box::new(blk(vec![S::Expr(u(x))], u(1 - x))))));
    }
    let mut out = vec![];
    let k = alphabet.len();
    let mut total = 1usize;
    for len in 0..=n {
        for code in 0..total {
            let mut c = code;
            let mut ss = vec![];
            for _ in 0..len {
                ss.push(alphabet[c % k].clone());
                c /= k;
            }
            for with_param in [false, true] {
                let ps = if with_param { vec![Par { x: 0, ct: false, ty: u(3) }] } else { vec![] };
                out.push(Case {
                    label: format!("exhaustive:{len}:{code}:{with_param}"),
                    gs: vec![G { name: 1, ty: E::Lit, val: E::Lambda(ps, Box::new(E::Lit), Some((ss.clone(), Box::new(u(0))))) }],
                });
            }
        }
        total *= k;
    }
    out
}

pub fn run(tier: &str, seed: u64, widen: bool) -> Report {
    let mut rep = Report::new(
        "C05",
        "hir::lower (in-process: lexer → parser → hir::index → hir::lower) vs Lean model CapyV.Scope.resolve, Lean spec CapyV.Scope.spec and an independent environment-passing oracle",
        "hand-written probes (switch argument after the switch / in the next arm's variant / across globals, comptime switch, no capture, header cases); exhaustively every lambda body of ≤ 2 (thorough: 3) statements from a 12-statement alphabet over {a, b} with and without a parameter; seeded random files of 1–3 globals over the pool {a, b, c, i32, nil} with nested blocks, locals, switches with and without argument, lambdas with (comptime) parameters and header references, comptime blocks (depth ≤ 4), 1 in 8 of them with constructs inside lambda headers that the guard of the partial theorem excludes. For every identifier use the resolution (binder identified by source offset, parameter index, global, builtin, undefined) is compared. Non-trivial = at least 2 binders and 2 uses; distinct by program",
    );
    if let Ok(path) = std::env::var("CVH_C05_SRC") {
        // debugging aid: resolve the identifiers of a hand-written file
        let src = std::fs::read_to_string(path).expect("CVH_C05_SRC");
        let uses = scan_uses(&src);
        let globals: Vec<u8> = (0..5).collect();
        match implementation(&src, &uses, &globals) {
            Impl::Panic(m) => eprintln!("PANIC: {m}"),
            Impl::Ok { res, syntax_errors } => {
                eprintln!("syntax errors: {syntax_errors}");
                for ((off, x), r) in uses.iter().zip(res) {
                    eprintln!("{off:4} {:4} {r}", POOL[*x as usize]);
                }
            }
        }
        std::process::exit(0);
    }
    let mut rng = Rng::new(seed);
    let mut cases: Vec<Case> = fixed_programs().into_iter().map(|(l, gs)| Case { label: format!("probe:{l}"), gs }).collect();
    let thorough = tier == "thorough" || widen;
    cases.extend(exhaustive_small(if thorough { 3 } else { 2 }));
    rep.exhaustive = true;
    let n = if widen { 60_000 } else if thorough { 20_000 } else { 2500 };
    for k in 0..n {
        let exotic = k % 8 == 7;
        let mut g = Gen { rng: &mut rng, exotic_headers: exotic, budget: 60 };
        let depth = 2 + (k % 3) as u32;
        let gs = g.file(depth);
        cases.push(Case { label: format!("random:{k}{}", if exotic { ":exotic" } else { "" }), gs });
    }
    for chunk in cases.chunks(2000) {
        check_cases(chunk, &mut rep);
    }
    rep
}

pub fn replay(input: &serde_json::Value) -> String {
    let src = input["source"].as_str().unwrap_or("").to_string();
    let sexp = input["sexp"].as_str().unwrap_or("").to_string();
    // recover use offsets and globals from the sexp + source: re-scan identifiers of the pool
    let sx = parse_sx(&sexp);
    let globals: Vec<u8> = sx.list().iter().map(|g| g.list()[1].atom().parse().unwrap()).collect();
    let want = oracle(&sexp, &globals);
    // uses: identifiers of the source that are not binders/keywords; re-derive by matching the
    // oracle's count against the implementation's found map is not possible here, so replay
    // reports the implementation's full use map instead
    let uses = scan_uses(&src);
    let gl = if globals.is_empty() { "-".to_string() } else { globals.iter().map(|g| g.to_string()).collect::<Vec<_>>().join(",") };
    let ans = lean::ask(&[format!("C05 resolve {gl} {sexp}")]).pop().unwrap();
    let (spec, model, old, _ok) = parse_answer(&ans);
    let imp = match implementation(&src, &uses, &globals) {
        Impl::Panic(m) => format!("PANIC: {m}"),
        Impl::Ok { res, .. } => join(&res.into_iter().filter(|r| r != "?").collect::<Vec<_>>()),
    };
    let verdict = if imp == join(&want) { "agrees with the oracle" } else { "SPEC-MISMATCH" };
    format!("source:\n{src}\nimplementation: {imp}\noracle:         {}\nlean spec:      {spec}\nlean model:     {model}\nlean old model: {old}\n{verdict}", join(&want))
}

/// offsets of all pool identifiers in the source (binders included; the implementation map has
/// entries only at uses, the others come back as `?` and are dropped by `replay`)
fn scan_uses(src: &str) -> Vec<(usize, u8)> {
    let b = src.as_bytes();
    let mut out = vec![];
    let mut i = 0;
    while i < b.len() {
        if b[i].is_ascii_alphabetic() || b[i] == b'_' {
            let s = i;
            while i < b.len() && (b[i].is_ascii_alphanumeric() || b[i] == b'_') {
                i += 1;
            }
            if let Some(p) = POOL.iter().position(|p| *p == &src[s..i]) {
                out.push((s, p as u8));
            }
        } else {
            i += 1;
        }
    }
    out
}
