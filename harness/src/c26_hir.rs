//! C26 support: record the exact `TopoSort` operation sequence that
//! `hir_ty::InferenceCtx::finish` issues on real Capy programs (hook H3, see HOOK.patch).
//!
//! Programs are small generated Capy sources; each one is run through
//! lex -> parse -> hir::index -> hir::lower -> InferenceCtx::new(..).finish(..) in-process
//! (the way `crates/hir_ty/src/tests.rs::check_impl` does) with `topo::verif` logging on.
//! A panic anywhere in the pipeline is an outcome (`panicked = true`), the ops logged up
//! to the panic are kept.
//!
//! Each program runs in a forked child with a wall-clock budget (see `isolate`), because this
//! pinned hir_ty does not terminate on some small cyclic programs (`a :: a; d :: a;`); such a
//! run ends as `timed_out = true` with the op prefix logged before the hang.
//!
//! Compiles with and without `cfg(topo_h3)` (set by build.rs iff the `topo` checkout has
//! the hook).  Without the hook `collect` returns an empty Vec and `run_program` returns
//! traces with empty `ops`.
//!
//! A program is one String.  Multi-file programs use the `test-utils` convention:
//! a line `#- name.capy` starts a new module, `main.capy` is the main module; a program
//! without any `#- ` line is a single `main.capy`.
#![allow(dead_code)]

use std::panic::AssertUnwindSafe;
use std::path::Path;

use ast::AstNode;
use hir::common::{ComptimeResultMap, FileName, Fqn, Name};
use interner::Interner;
use la_arena::Arena;
use uid_gen::UIDGenerator;

use crate::rng::Rng;

#[derive(Debug, Clone)]
pub struct HirTrace {
    pub program: String,
    /// "valid" | "functions" | "cyclic" | "types" | "generic" | "lambda" | "annotated" |
    /// "erroneous" | "locals" | "mixed" | "two_file"
    pub kind: &'static str,
    /// (op, args as per-TopoSort first-appearance ids, `top.len()` before the op)
    pub ops: Vec<(String, Vec<usize>, usize)>,
    /// the pipeline panicked (caught), or did not finish at all (`timed_out` / `died`)
    pub panicked: bool,
    /// the program exceeded the wall-clock budget (`timeout_ms`): hir_ty did not terminate.
    /// `ops` is then the prefix logged before the budget expired (the non-termination seen so
    /// far is inside one `infer` call, i.e. no further op would ever follow), or empty if
    /// even the prefix could not be recovered.  Implies `panicked`.
    pub timed_out: bool,
    /// the isolated child died without reporting (stack overflow, abort, signal).  Implies
    /// `panicked`; `ops` is empty.
    pub died: bool,
    /// message of the caught panic (None for `timed_out` / `died` / no panic)
    pub panic_msg: Option<String>,
    /// parse + index + lowering + type diagnostics (0 if panicked before they were counted)
    pub diagnostics: usize,
}

/// Watchdog: the topo operation that would log entry number `OP_LIMIT + 1` panics instead
/// (see `topo::verif::start_with_limit`), so a program on which `finish` never empties its
/// `TopoSort` ends as `panicked = true` with exactly `OP_LIMIT` ops instead of hanging.
pub const OP_LIMIT: usize = 4000;

impl HirTrace {
    /// true iff the run was cut short by the op-limit watchdog (a livelock in `finish`)
    pub fn hit_op_limit(&self) -> bool {
        self.panicked && self.ops.len() >= OP_LIMIT
    }
}

pub fn hook_present() -> bool {
    cfg!(topo_h3)
}

/// The fixed corpus, then `n` generated programs; one `HirTrace` per program.
/// Without the hook returns an empty Vec (and does not touch `rng`).
pub fn collect(rng: &mut Rng, n: usize) -> Vec<HirTrace> {
    if !hook_present() {
        return Vec::new();
    }
    let mut out = Vec::new();
    for (kind, src) in corpus_programs() {
        out.push(run_program(kind, &src));
    }
    for _ in 0..n {
        let (kind, src) = generate(rng);
        out.push(run_program(kind, &src));
    }
    out
}

/// The fixed corpus, always run first.
pub fn corpus_programs() -> Vec<(&'static str, String)> {
    let c: Vec<(&'static str, &str)> = vec![
        ("cyclic", "a :: b; b :: a;"),
        ("cyclic", "a :: a;"),
        ("cyclic", "a :: b; b :: c; c :: a; d :: a;"),
        // cycle that itself depends on a non-cyclic leaf, plus two hangers
        ("cyclic", "a :: b + e; b :: a; e :: 5; d :: a + 1; f :: d;"),
        ("cyclic", "foo :: comptime bar; bar :: comptime foo;"),
        (
            "generic",
            "id :: (comptime T: type, x: T) -> T { x }\n\
             main :: () { id(i32, 1); id(bool, true); }",
        ),
        (
            "generic",
            "add :: (comptime T: type, left: T, right: T) -> T { left + right }\n\
             Small :: u8;\n\
             main :: () { add(i64, 1, 2); add(Small, 3, 4); add(i64, 5, 6); }",
        ),
        (
            "generic",
            "Vec :: (comptime T: type, comptime len: usize) -> type { struct { arr: [len] T } }\n\
             main :: () { a : comptime Vec(i32, 5); b : comptime Vec(bool, 2); c : Vec(u8, 1); }",
        ),
        (
            "functions",
            "even :: (n: i32) -> bool { if n == 0 { true } else { odd(n - 1) } }\n\
             odd :: (n: i32) -> bool { if n == 0 { false } else { even(n - 1) } }\n\
             main :: () { even(10); }",
        ),
        ("functions", "f :: () -> i32 { g() }\ng :: () -> i32 { f() }"),
        ("functions", "f :: () -> i32 { f() }"),
        ("types", "P :: struct { x: T, y: U };\nT :: i32;\nU :: T;\nmk :: () -> P { P.{ x = 1, y = 2 } }"),
        ("types", "Foo :: struct { bar: Foo };"),
        ("valid", "a :: comptime b + 1; b :: c; c :: 5;"),
        ("valid", "c :: 5; b :: c; a :: comptime { b + 1 };"),
        ("erroneous", "a :: b + 1; b :: c; c :: 5;"),
        ("annotated", "x : T : 5; T :: U; U :: i32;"),
        ("lambda", "f :: () -> i32 { inner :: () -> i32 { k }; inner() }\nk :: 7;"),
        ("locals", "f :: () { v := later + 1; w : T = 2; }\nlater :: 41;\nT :: i16;"),
        ("erroneous", "a : a : 5;"),
        ("erroneous", "a :: nope + 1; b : bool : a; c :: b();"),
        ("erroneous", "f :: () -> i32 { \"hello\" }\ng :: () -> bool { f() }\nx : Missing : 5;"),
        ("erroneous", "a :: ; b :: (( ; c :: a"),
        ("valid", ""),
        (
            "two_file",
            "#- main.capy\nother :: #import(\"other.capy\");\nx :: other.y + 1;\nf :: () -> other.T { other.g() }\n\
             #- other.capy\ny :: 5;\nT :: i32;\ng :: () -> T { y }\n",
        ),
    ];
    c.into_iter().map(|(k, s)| (k, s.to_string())).collect()
}

// ---------------------------------------------------------------------------------------
// running one program
// ---------------------------------------------------------------------------------------

/// Splits a program into (module name, text); non-main modules first (in order of
/// appearance), `main.capy` last.  Same format as `test_utils::split_multi_module_test_data`.
pub fn split_modules(src: &str) -> Vec<(String, String)> {
    const MARK: &str = "#- ";
    if !src.contains(MARK) {
        return vec![("main.capy".to_string(), src.to_string())];
    }
    let mut mods: Vec<(String, String)> = Vec::new();
    for line in src.split_inclusive('\n') {
        if let Some(idx) = line.find(MARK) {
            let name = line[idx + MARK.len()..].trim().to_string();
            mods.push((name, String::new()));
        } else if let Some(last) = mods.last_mut() {
            last.1.push_str(line);
        }
    }
    // main last, like check_impl
    let mut out: Vec<(String, String)> = mods.iter().filter(|(n, _)| n != "main.capy").cloned().collect();
    match mods.iter().find(|(n, _)| n == "main.capy") {
        Some(m) => out.push(m.clone()),
        None => out.push(("main.capy".to_string(), String::new())),
    }
    out
}

/// lex -> parse -> index -> lower -> infer.  Returns the number of diagnostics and their
/// Debug renderings (type diagnostics only, the others are just counted).
fn pipeline(src: &str) -> (usize, Vec<String>) {
    let modules = split_modules(src);
    let mut interner = Interner::default();
    let mut world_index = hir::WorldIndex::default();
    let mut uid_gen = UIDGenerator::default();
    let mut world_bodies = hir::WorldBodies::default();
    let mut ndiag = 0usize;
    let mut main_file = None;

    for (name, text) in &modules {
        let is_main = name == "main.capy";
        let tokens = lexer::lex(text);
        let parse = parser::parse_source_file(&tokens, text);
        ndiag += parse.errors().len();
        let tree = parse.into_syntax_tree();
        let root = ast::Root::cast(tree.root(), &tree).expect("root");
        let (index, d) = hir::index(root, &tree, &mut interner);
        ndiag += d.len();
        let module = FileName(interner.intern(name));
        // check_impl lowers main as "main" and the others under their file name
        let lower_name = if is_main { "main" } else { name.as_str() };
        let (bodies, d) = hir::lower(
            root,
            &tree,
            Path::new(lower_name),
            &index,
            &mut uid_gen,
            &mut interner,
            Path::new(""),
            true,
        );
        ndiag += d.len();
        world_index.add_file(module, index);
        world_bodies.add_file(module, bodies);
        if is_main {
            main_file = Some(module);
        }
    }

    // entry point = main.capy::main when it is a plain (non generic) global
    let main_name = Name(interner.intern("main"));
    let entry = main_file.map(|file| Fqn { file, name: main_name }).filter(|fqn| {
        world_index.ranges().any(|(f, _)| f == *fqn) && !world_bodies.has_polymorphic_body((*fqn).into())
    });

    let mut comptime_results = ComptimeResultMap::default();
    let mut generic_values = Arena::new();
    let ptr_bits = target_lexicon::Triple::host().pointer_width().map(|w| w.bits()).unwrap_or(64);

    let result = hir_ty::InferenceCtx::new(
        &world_index,
        &world_bodies,
        &interner,
        &mut generic_values,
        |comptime, tys| {
            if let Some(result) = comptime_results.get(comptime) {
                return result.clone();
            }
            codegen::eval_comptime_blocks(
                codegen::Verbosity::None,
                &mut std::iter::once(comptime),
                &mut comptime_results,
                Path::new(""),
                &interner,
                &world_bodies,
                tys,
                ptr_bits,
            );
            comptime_results[comptime].clone()
        },
    )
    .finish(entry, false);

    let dbg: Vec<String> = result.diagnostics.iter().map(|d| format!("{:?}", d.kind)).collect();
    (ndiag + result.diagnostics.len(), dbg)
}

/// What the worker (thread or forked child) reports back.
struct RawOutcome {
    /// `Some((diagnostic count, type diagnostics Debug))`, `None` if the pipeline panicked
    res: Option<(usize, Vec<String>)>,
    ops: Vec<(String, Vec<usize>, usize)>,
    /// only a prefix of the ops: the program was interrupted by the wall-clock budget
    interrupted: bool,
    /// message of the caught panic, if any
    panic_msg: Option<String>,
}

impl RawOutcome {
    fn nothing() -> Self {
        RawOutcome { res: None, ops: Vec::new(), interrupted: false, panic_msg: None }
    }
}

/// Starts the pipeline on a fresh thread with the topo log on.  Fresh thread per program:
/// hir keeps thread-local enum/type-name tables keyed by per-program uids (upstream runs one
/// program per thread/process), the topo log is thread-local too, and a roomy stack is cheap.
fn spawn_worker(src: &str) -> (std::thread::JoinHandle<()>, std::sync::mpsc::Receiver<RawOutcome>) {
    let src_owned = src.to_string();
    let (tx, rx) = std::sync::mpsc::channel();
    let worker = move || {
        #[cfg(topo_h3)]
        topo::verif::start_with_limit(OP_LIMIT);
        let res = std::panic::catch_unwind(AssertUnwindSafe(|| pipeline(&src_owned)));
        #[cfg(topo_h3)]
        let ops: Vec<(String, Vec<usize>, usize)> =
            topo::verif::take().into_iter().map(|o| (o.op.to_string(), o.args, o.len_before)).collect();
        #[cfg(not(topo_h3))]
        let ops: Vec<(String, Vec<usize>, usize)> = Vec::new();
        let panic_msg = res.as_ref().err().map(|e| {
            if let Some(s) = e.downcast_ref::<String>() {
                s.clone()
            } else if let Some(s) = e.downcast_ref::<&str>() {
                s.to_string()
            } else {
                "<non-string panic payload>".to_string()
            }
        });
        let _ = tx.send(RawOutcome { res: res.ok(), ops, interrupted: false, panic_msg });
    };
    let handle = std::thread::Builder::new().name("c26_hir".into()).stack_size(256 << 20).spawn(worker).expect("spawn");
    (handle, rx)
}

/// No isolation: blocks until the program is done (forever if hir_ty does not terminate).
fn run_in_thread(src: &str) -> RawOutcome {
    let (handle, rx) = spawn_worker(src);
    let out = rx.recv().unwrap_or(RawOutcome::nothing());
    let _ = handle.join();
    out
}

/// Wall-clock budget for one program (ms); override with `VERIF_C26_HIR_TIMEOUT_MS`.
/// Ordinary programs take milliseconds.  The budget exists because this pinned hir_ty does
/// not terminate on some inputs *outside* of any topo operation (e.g. `a :: a; d :: a;` or
/// `a :: b; b :: a; d :: a;`: `GlobalInferenceCtx::get_const` follows the finished cyclic
/// globals forever, pushing to a Vec), which neither `catch_unwind` nor the op-limit
/// watchdog can interrupt.
pub fn timeout_ms() -> u64 {
    std::env::var("VERIF_C26_HIR_TIMEOUT_MS").ok().and_then(|s| s.parse().ok()).unwrap_or(5000)
}

#[cfg(unix)]
mod isolate {
    //! fork()-based isolation.  The child runs the program on a worker thread and writes the
    //! outcome to a pipe.  When the budget expires the child interrupts its worker with
    //! SIGUSR1; the handler (running on the worker thread, so it sees the thread-local topo
    //! log) dumps the ops logged so far and `_exit`s.  The parent SIGKILLs the child as a
    //! backstop a little later.  Plain libc symbols (std links libc anyway): no extra crate.
    use super::RawOutcome;
    use std::io::{Read, Write};
    use std::os::unix::io::FromRawFd;
    use std::os::unix::thread::JoinHandleExt;
    use std::sync::atomic::{AtomicI32, Ordering};

    const SIGUSR1: i32 = 10; // Linux (x86_64, aarch64, riscv)
    const SIGKILL: i32 = 9;
    const O_WRONLY: i32 = 1;

    extern "C" {
        fn fork() -> i32;
        fn pipe(fds: *mut i32) -> i32;
        fn waitpid(pid: i32, status: *mut i32, options: i32) -> i32;
        fn kill(pid: i32, sig: i32) -> i32;
        fn close(fd: i32) -> i32;
        fn _exit(code: i32) -> !;
        fn write(fd: i32, buf: *const u8, n: usize) -> isize;
        fn open(path: *const u8, flags: i32, ...) -> i32;
        fn dup2(old: i32, new: i32) -> i32;
        fn signal(sig: i32, handler: usize) -> usize;
        fn pthread_kill(thread: usize, sig: i32) -> i32;
    }

    static DUMP_FD: AtomicI32 = AtomicI32::new(-1);

    /// Fixed-size, allocation-free line writer for the signal handler.
    struct Out {
        fd: i32,
        buf: [u8; 512],
        n: usize,
    }
    impl Out {
        fn flush(&mut self) {
            let mut off = 0;
            while off < self.n {
                let w = unsafe { write(self.fd, self.buf.as_ptr().add(off), self.n - off) };
                if w <= 0 {
                    break;
                }
                off += w as usize;
            }
            self.n = 0;
        }
        fn bytes(&mut self, b: &[u8]) {
            for &c in b {
                if self.n == self.buf.len() {
                    self.flush();
                }
                self.buf[self.n] = c;
                self.n += 1;
            }
        }
        fn num(&mut self, mut v: usize) {
            let mut tmp = [0u8; 20];
            let mut i = tmp.len();
            loop {
                i -= 1;
                tmp[i] = b'0' + (v % 10) as u8;
                v /= 10;
                if v == 0 {
                    break;
                }
            }
            let (_, digits) = tmp.split_at(i);
            let mut copy = [0u8; 20];
            copy[..digits.len()].copy_from_slice(digits);
            let len = digits.len();
            self.bytes(&copy[..len]);
        }
    }

    /// SIGUSR1 handler, delivered to the worker thread via pthread_kill: dump the topo ops
    /// logged so far (no allocation, no locks), mark the report as interrupted, exit.
    extern "C" fn on_budget_expired(_sig: i32) {
        let fd = DUMP_FD.load(Ordering::SeqCst);
        let mut out = Out { fd, buf: [0u8; 512], n: 0 };
        #[cfg(topo_h3)]
        {
            // moves the Vec out of the thread-local; if the worker was interrupted in the
            // middle of `verif::log` the RefCell is borrowed and this aborts the child:
            // the parent then reports `died` with no ops.
            let ops = topo::verif::take();
            for o in &ops {
                out.bytes(b"O ");
                out.bytes(o.op.as_bytes());
                out.bytes(b" ");
                out.num(o.len_before);
                for &a in &o.args {
                    out.bytes(b" ");
                    out.num(a);
                }
                out.bytes(b"\n");
            }
            std::mem::forget(ops); // free() is not async-signal-safe
        }
        out.bytes(b"T\nE\n");
        out.flush();
        unsafe { _exit(0) }
    }

    fn esc(s: &str) -> String {
        s.replace('\\', "\\\\").replace('\n', "\\n")
    }
    fn unesc(s: &str) -> String {
        let mut out = String::new();
        let mut it = s.chars();
        while let Some(c) = it.next() {
            if c == '\\' {
                match it.next() {
                    Some('n') => out.push('\n'),
                    Some(o) => out.push(o),
                    None => {}
                }
            } else {
                out.push(c);
            }
        }
        out
    }

    fn encode(o: &RawOutcome) -> String {
        let mut s = String::new();
        for (op, args, len) in &o.ops {
            s.push_str(&format!("O {} {}", op, len));
            for a in args {
                s.push_str(&format!(" {}", a));
            }
            s.push('\n');
        }
        match &o.res {
            Some((n, dbg)) => {
                s.push_str(&format!("D {}\n", n));
                for d in dbg {
                    s.push_str(&format!("G {}\n", esc(d)));
                }
            }
            None => s.push_str("P\n"),
        }
        if let Some(m) = &o.panic_msg {
            s.push_str(&format!("M {}\n", esc(m)));
        }
        s.push_str("E\n");
        s
    }

    /// `None` if the end marker is missing (child died before finishing its report).
    fn decode(text: &str) -> Option<RawOutcome> {
        let mut ops = Vec::new();
        let mut res: Option<(usize, Vec<String>)> = None;
        let mut complete = false;
        let mut interrupted = false;
        let mut panic_msg = None;
        for line in text.lines() {
            let (tag, rest) = line.split_at(1.min(line.len()));
            let rest = rest.strip_prefix(' ').unwrap_or(rest);
            match tag {
                "O" => {
                    let mut it = rest.split(' ');
                    let op = it.next()?.to_string();
                    let len: usize = it.next()?.parse().ok()?;
                    let args: Vec<usize> = it.filter_map(|a| a.parse().ok()).collect();
                    ops.push((op, args, len));
                }
                "D" => res = Some((rest.parse().ok()?, Vec::new())),
                "G" => {
                    if let Some((_, dbg)) = res.as_mut() {
                        dbg.push(unesc(rest));
                    }
                }
                "P" => res = None,
                "M" => panic_msg = Some(unesc(rest)),
                "T" => {
                    res = None;
                    interrupted = true;
                }
                "E" => complete = true,
                _ => {}
            }
        }
        if complete { Some(RawOutcome { res, ops, interrupted, panic_msg }) } else { None }
    }

    fn child(src: &str, fd: i32, timeout_ms: u64) -> ! {
        // the compiler crates print to stdout now and then; keep the harness' stdout clean
        unsafe {
            let null = open(b"/dev/null\0".as_ptr(), O_WRONLY);
            if null >= 0 {
                dup2(null, 1);
            }
        }
        DUMP_FD.store(fd, Ordering::SeqCst);
        unsafe { signal(SIGUSR1, on_budget_expired as usize) };
        let (handle, rx) = super::spawn_worker(src);
        match rx.recv_timeout(std::time::Duration::from_millis(timeout_ms)) {
            Ok(outcome) => {
                let text = encode(&outcome);
                let mut out = Out { fd, buf: [0u8; 512], n: 0 };
                out.bytes(text.as_bytes());
                out.flush();
                unsafe { _exit(0) }
            }
            Err(std::sync::mpsc::RecvTimeoutError::Timeout) => {
                // the handler exits the process; if it cannot, the parent kills us
                unsafe { pthread_kill(handle.as_pthread_t() as usize, SIGUSR1) };
                loop {
                    std::thread::sleep(std::time::Duration::from_secs(1));
                }
            }
            Err(std::sync::mpsc::RecvTimeoutError::Disconnected) => {
                // worker died without sending (cannot normally happen: panics are caught)
                unsafe { _exit(3) }
            }
        }
    }

    /// (outcome, timed_out).  `outcome == None`: the child was killed or died (stack
    /// overflow, abort, ...) before it could report anything.
    pub fn run(src: &str, timeout_ms: u64) -> (Option<RawOutcome>, bool) {
        let mut fds = [0i32; 2];
        if unsafe { pipe(fds.as_mut_ptr()) } != 0 {
            return (Some(super::run_in_thread(src)), false);
        }
        let _ = std::io::stdout().flush();
        let pid = unsafe { fork() };
        if pid < 0 {
            unsafe {
                close(fds[0]);
                close(fds[1]);
            }
            return (Some(super::run_in_thread(src)), false);
        }
        if pid == 0 {
            // child: only this thread exists here.  Never return into the caller.
            unsafe { close(fds[0]) };
            child(src, fds[1], timeout_ms)
        }
        // parent
        unsafe { close(fds[1]) };
        let mut r = unsafe { std::fs::File::from_raw_fd(fds[0]) };
        let (tx, rx) = std::sync::mpsc::channel();
        let reader = std::thread::spawn(move || {
            let mut buf = Vec::new();
            let _ = r.read_to_end(&mut buf);
            let _ = tx.send(buf);
        });
        // backstop: the child normally reports (or dumps a prefix) by itself within the budget
        let got = rx.recv_timeout(std::time::Duration::from_millis(timeout_ms + 2000));
        let killed = got.is_err();
        if killed {
            unsafe { kill(pid, SIGKILL) };
        }
        let mut status = 0i32;
        unsafe { waitpid(pid, &mut status, 0) };
        let _ = reader.join(); // the write end is closed now, so the reader has finished
        let outcome = match got {
            Ok(buf) => decode(&String::from_utf8_lossy(&buf)),
            Err(_) => None,
        };
        let timed_out = killed || outcome.as_ref().map(|o| o.interrupted).unwrap_or(false);
        (outcome, timed_out)
    }
}

/// Runs one program with the topo log on, isolated in a forked child with a wall-clock
/// budget (`timeout_ms`); set `VERIF_C26_HIR_NOFORK=1` to run on a thread of this process
/// instead (then a non-terminating program hangs the harness).
pub fn run_program(kind: &'static str, src: &str) -> HirTrace {
    run_program_verbose(kind, src).0
}

/// Like `run_program`, additionally returns the Debug rendering of the type diagnostics.
pub fn run_program_verbose(kind: &'static str, src: &str) -> (HirTrace, Vec<String>) {
    let nofork = std::env::var("VERIF_C26_HIR_NOFORK").map(|v| v == "1").unwrap_or(false);
    #[cfg(unix)]
    let (outcome, timed_out) = if nofork { (Some(run_in_thread(src)), false) } else { isolate::run(src, timeout_ms()) };
    #[cfg(not(unix))]
    let (outcome, timed_out) = {
        let _ = nofork;
        (Some(run_in_thread(src)), false)
    };
    let died = outcome.is_none();
    let RawOutcome { res, ops, panic_msg, .. } = outcome.unwrap_or(RawOutcome::nothing());
    let (panicked, diagnostics, dbg) = match res {
        Some((n, dbg)) => (false, n, dbg),
        None => (true, 0, Vec::new()),
    };
    let trace =
        HirTrace { program: src.to_string(), kind, ops, panicked, timed_out, died: died && !timed_out, panic_msg, diagnostics };
    (trace, dbg)
}

// ---------------------------------------------------------------------------------------
// program generator (every random choice comes from the passed Rng)
// ---------------------------------------------------------------------------------------

const SYLL: &[&str] = &[
    "foo", "bar", "baz", "qux", "zed", "lim", "nox", "pip", "rho", "tau", "kip", "wug", "alp", "bet", "gam", "del",
    "eps", "zet", "eta", "iot", "kap", "lam", "mu", "nu", "xi", "omi", "sig", "ups", "phi", "chi", "psi", "ome",
];

/// `n` distinct identifiers, lower case (values/functions).
fn names(rng: &mut Rng, n: usize) -> Vec<String> {
    let mut out: Vec<String> = Vec::new();
    while out.len() < n {
        let mut s = rng.pick(SYLL).to_string();
        if rng.chance(1, 2) {
            s.push('_');
            s.push_str(*rng.pick(SYLL));
        }
        if rng.chance(1, 3) {
            s.push_str(&rng.below(10).to_string());
        }
        // "main" is reserved for the entry point, never produced here (no syllable "main")
        if !out.contains(&s) {
            out.push(s);
        }
    }
    out
}

/// `n` distinct capitalised identifiers (types), disjoint from `names` output by case.
fn ty_names(rng: &mut Rng, n: usize) -> Vec<String> {
    names(rng, n)
        .into_iter()
        .map(|s| {
            let mut c = s.chars();
            let f = c.next().unwrap().to_ascii_uppercase();
            format!("{f}{}", c.as_str())
        })
        .collect()
}

fn shuffle<T>(rng: &mut Rng, xs: &mut [T]) {
    for i in (1..xs.len()).rev() {
        let j = rng.below(i as u64 + 1) as usize;
        xs.swap(i, j);
    }
}

/// Joins top-level definitions in a random order (often the reverse of dependency order
/// matters more than pretty printing), separated by newline or space.
fn assemble(rng: &mut Rng, mut defs: Vec<String>) -> String {
    match rng.below(4) {
        0 => {}               // as generated (dependents first)
        1 => defs.reverse(),  // dependencies first
        _ => shuffle(rng, &mut defs),
    }
    let sep = if rng.chance(1, 4) { " " } else { "\n" };
    defs.join(sep)
}

const PRIMS: &[&str] = &["i32", "i64", "u8", "i16", "u64", "bool", "usize"];
const INT_PRIMS: &[&str] = &["i32", "i64", "u8", "i16", "u64", "usize"];

/// Random subset (possibly empty, at most `max`) of `lo..hi`.
fn subset(rng: &mut Rng, lo: usize, hi: usize, max: usize) -> Vec<usize> {
    let mut out = Vec::new();
    if hi <= lo {
        return out;
    }
    let k = rng.below(max as u64 + 1) as usize;
    for _ in 0..k {
        let j = lo + rng.below((hi - lo) as u64) as usize;
        if !out.contains(&j) {
            out.push(j);
        }
    }
    out
}

/// integer expression over the given global names
fn int_expr(rng: &mut Rng, refs: &[String]) -> String {
    if refs.is_empty() {
        return rng.below(100).to_string();
    }
    let mut s = String::new();
    for (i, r) in refs.iter().enumerate() {
        if i > 0 {
            s.push_str(*rng.pick(&[" + ", " - ", " * "]));
        }
        s.push_str(r);
    }
    if rng.chance(1, 2) {
        s.push_str(" + ");
        s.push_str(&rng.below(10).to_string());
    }
    s
}

/// constants forming a random DAG: global i only references globals with larger index
fn gen_valid(rng: &mut Rng, defs: &mut Vec<String>) -> Vec<String> {
    let n = rng.range(2, 8) as usize;
    let ns = names(rng, n);
    for i in 0..n {
        let refs: Vec<String> = subset(rng, i + 1, n, 3).into_iter().map(|j| ns[j].clone()).collect();
        // a global's value must be const: a literal, a plain reference to another const
        // global, or a `comptime` expression (arithmetic on globals is not const by itself)
        if refs.len() == 1 && rng.chance(2, 3) {
            defs.push(format!("{} :: {};", ns[i], refs[0]));
            continue;
        }
        let e = int_expr(rng, &refs);
        if refs.is_empty() && !e.contains(' ') {
            defs.push(format!("{} :: {};", ns[i], e));
        } else if rng.chance(1, 2) {
            defs.push(format!("{} :: comptime {{ {} }};", ns[i], e));
        } else {
            defs.push(format!("{} :: comptime {};", ns[i], e));
        }
    }
    ns
}

/// functions with annotated signatures calling each other in any direction (cycles allowed)
fn gen_functions(rng: &mut Rng, defs: &mut Vec<String>) -> Vec<String> {
    let n = rng.range(2, 6) as usize;
    let ns = names(rng, n);
    let with_param: Vec<bool> = (0..n).map(|_| rng.chance(1, 2)).collect();
    for i in 0..n {
        let callees = subset(rng, 0, n, 3);
        let mut body = String::new();
        for (k, &j) in callees.iter().enumerate() {
            if k > 0 {
                body.push_str(" + ");
            }
            let arg = if with_param[j] {
                if with_param[i] && rng.chance(1, 2) { "x - 1".to_string() } else { rng.below(10).to_string() }
            } else {
                String::new()
            };
            body.push_str(&format!("{}({})", ns[j], arg));
        }
        if callees.is_empty() {
            body = if with_param[i] { "x".to_string() } else { rng.below(50).to_string() };
        }
        let params = if with_param[i] { "x: i32" } else { "" };
        let semi = if rng.chance(1, 3) { ";" } else { "" };
        defs.push(format!("{} :: ({}) -> i32 {{ {} }}{}", ns[i], params, body, semi));
    }
    if rng.chance(1, 2) {
        let j = rng.below(n as u64) as usize;
        let arg = if with_param[j] { "3" } else { "" };
        defs.push(format!("main :: () {{ {}({}); }}", ns[j], arg));
    }
    ns
}

/// a k-cycle of un-annotated globals, optionally depending on leaves, plus hangers
fn gen_cyclic(rng: &mut Rng, defs: &mut Vec<String>) -> Vec<String> {
    let k = rng.range(1, 4) as usize;
    let hang = rng.range(0, 3) as usize;
    let leaves = rng.range(0, 2) as usize;
    let ns = names(rng, k + hang + leaves);
    let (cyc, rest) = ns.split_at(k);
    let (hangers, leafs) = rest.split_at(hang);
    let comptime = rng.chance(1, 5);
    for i in 0..k {
        let mut refs = vec![cyc[(i + 1) % k].clone()];
        // chord inside the cycle
        if k > 2 && rng.chance(1, 3) {
            refs.push(cyc[rng.below(k as u64) as usize].clone());
        }
        if !leafs.is_empty() && rng.chance(1, 2) {
            refs.push(rng.pick(leafs).clone());
        }
        let e = refs.join(" + ");
        if comptime {
            defs.push(format!("{} :: comptime {};", cyc[i], e));
        } else if rng.chance(1, 5) {
            // annotated member: signature known, body still cyclic
            defs.push(format!("{} : i32 : {};", cyc[i], e));
        } else {
            defs.push(format!("{} :: {};", cyc[i], e));
        }
    }
    for (i, h) in hangers.iter().enumerate() {
        // hang off the cycle or off an earlier hanger
        let target = if i > 0 && rng.chance(1, 3) { hangers[i - 1].clone() } else { rng.pick(cyc).clone() };
        match rng.below(3) {
            0 => defs.push(format!("{} :: {};", h, target)),
            1 => defs.push(format!("{} :: {} + 1;", h, target)),
            _ => defs.push(format!("{} :: () -> i32 {{ {} }}", h, target)),
        }
    }
    for l in leafs {
        defs.push(format!("{} :: {};", l, rng.below(100)));
    }
    ns
}

/// type aliases and structs referring to later globals; returns (type names, value names)
fn gen_types(rng: &mut Rng, defs: &mut Vec<String>) -> Vec<String> {
    let n = rng.range(2, 6) as usize;
    let ts = ty_names(rng, n);
    let fields = ["x", "y", "z", "w"];
    // type i only refers to types with larger index (mostly), last is a primitive alias
    let mut is_struct = vec![false; n];
    for i in 0..n {
        let later: Vec<usize> = (i + 1..n).collect();
        if later.is_empty() || rng.chance(1, 5) {
            match rng.below(4) {
                0 => defs.push(format!("{} :: distinct {};", ts[i], rng.pick(PRIMS))),
                _ => defs.push(format!("{} :: {};", ts[i], rng.pick(INT_PRIMS))),
            }
        } else if rng.chance(1, 2) {
            is_struct[i] = true;
            let nf = rng.range(1, 3) as usize;
            let mut fs = Vec::new();
            for f in 0..nf {
                let t = if rng.chance(3, 4) {
                    let j = *rng.pick(&later);
                    match rng.below(4) {
                        0 => format!("^{}", ts[j]),
                        1 => format!("[{}] {}", rng.range(1, 4), ts[j]),
                        _ => ts[j].clone(),
                    }
                } else {
                    rng.pick(PRIMS).to_string()
                };
                fs.push(format!("{}: {}", fields[f], t));
            }
            // occasionally a recursive struct (through a pointer: fine; direct: error)
            if rng.chance(1, 8) {
                let direct = rng.chance(1, 2);
                fs.push(format!("{}: {}{}", fields[3], if direct { "" } else { "^" }, ts[i]));
            }
            defs.push(format!("{} :: struct {{ {} }};", ts[i], fs.join(", ")));
        } else {
            let j = *rng.pick(&later);
            match rng.below(4) {
                0 => defs.push(format!("{} :: distinct {};", ts[i], ts[j])),
                1 => defs.push(format!("{} :: ^{};", ts[i], ts[j])),
                _ => defs.push(format!("{} :: {};", ts[i], ts[j])),
            }
        }
    }
    // users
    let users = rng.range(0, 2) as usize;
    let vs = names(rng, users);
    for v in &vs {
        let t = rng.pick(&ts).clone();
        match rng.below(3) {
            0 => defs.push(format!("{} :: (p: {}) {{ }}", v, t)),
            1 => defs.push(format!("{} :: () {{ l : {}; }}", v, t)),
            _ => defs.push(format!("{} :: (p: ^{}) -> ^{} {{ p }}", v, t, t)),
        }
    }
    let mut all = ts;
    all.extend(vs);
    all
}

/// generic functions (comptime T: type) instantiated with several types
fn gen_generic(rng: &mut Rng, defs: &mut Vec<String>) -> Vec<String> {
    let ngen = rng.range(1, 2) as usize;
    let ncallers = rng.range(1, 3) as usize;
    let nalias = rng.range(0, 2) as usize;
    let gs = names(rng, ngen + ncallers);
    let (gens, callers) = gs.split_at(ngen);
    let aliases = ty_names(rng, nalias);
    for a in &aliases {
        defs.push(format!("{} :: {};", a, rng.pick(INT_PRIMS)));
    }
    // 0: identity(T, x)  1: add(T, l, r)  2: type generator (T, len) -> type  3: only (T)
    // (the type generator is kept rarer: comptime evaluation of it panics inside codegen
    // "these shouldn't get to codegen" on a good part of the programs, which cuts the trace)
    let shapes: Vec<u64> = gens.iter().map(|_| *rng.pick(&[0u64, 0, 1, 1, 3, 3, 2])).collect();
    for (g, &shape) in gens.iter().zip(&shapes) {
        match shape {
            0 => defs.push(format!("{} :: (comptime T: type, x: T) -> T {{ x }}", g)),
            1 => defs.push(format!("{} :: (comptime T: type, l: T, r: T) -> T {{ l + r }}", g)),
            2 => defs.push(format!(
                "{} :: (comptime T: type, comptime len: usize) -> type {{ struct {{ arr: [len] T }} }}",
                g
            )),
            _ => defs.push(format!("{} :: (comptime T: type) {{ v : T = 1; v + v; }}", g)),
        }
    }
    // a generic calling another generic
    if ngen == 2 && shapes[0] == 0 && rng.chance(1, 2) {
        let wrap = format!("{}_w", gens[0]);
        defs.push(format!("{} :: (comptime U: type, y: U) -> U {{ {}(U, y) }}", wrap, gens[0]));
        defs.push(format!("{}_use :: () {{ {}(i32, 4); {}(u8, 5); }}", wrap, wrap, wrap));
    }
    let mut pool: Vec<String> = INT_PRIMS.iter().map(|s| s.to_string()).collect();
    pool.extend(aliases.iter().cloned());
    for (ci, c) in callers.iter().enumerate() {
        let ncalls = rng.range(1, 4) as usize;
        let mut body = String::new();
        for k in 0..ncalls {
            let gi = rng.below(ngen as u64) as usize;
            let t = rng.pick(&pool).clone();
            match shapes[gi] {
                0 => body.push_str(&format!("{}({}, {}); ", gens[gi], t, rng.below(9))),
                1 => body.push_str(&format!("{}({}, {}, {}); ", gens[gi], t, rng.below(9), rng.below(9))),
                2 => {
                    // `v : comptime Gen(T, n);` is the accepted form, without `comptime` it is
                    // a CantUseAsTy error (still instantiates the generic)
                    let ct = if rng.chance(4, 5) { "comptime " } else { "" };
                    body.push_str(&format!("v{} : {}{}({}, {}); ", k, ct, gens[gi], t, rng.range(1, 5)))
                }
                _ => body.push_str(&format!("{}({}); ", gens[gi], t)),
            }
        }
        let name = if ci == 0 && rng.chance(1, 2) { "main".to_string() } else { c.clone() };
        defs.push(format!("{} :: () {{ {}}}", name, body));
    }
    let mut all = gs;
    all.extend(aliases);
    all
}

/// lambdas nested in globals, referring to (later) globals
fn gen_lambda(rng: &mut Rng, defs: &mut Vec<String>) -> Vec<String> {
    let n = rng.range(1, 3) as usize;
    let nk = rng.range(1, 2) as usize;
    let ns = names(rng, n + nk);
    let (fs, ks) = ns.split_at(n);
    for (i, f) in fs.iter().enumerate() {
        let k = rng.pick(ks).clone();
        let other = rng.pick(fs).clone();
        match rng.below(5) {
            0 => defs.push(format!("{} :: () -> i32 {{ inner :: () -> i32 {{ {} }}; inner() }}", f, k)),
            1 => defs.push(format!("{} :: () {{ l := (x: i32) -> i32 {{ x + {} }}; l(1); }}", f, k)),
            2 => defs.push(format!(
                "{} :: () -> i32 {{ a := () -> i32 {{ b := () -> i32 {{ {} }}; b() }}; a() }}",
                f, k
            )),
            3 if other != *f || i == 0 => {
                defs.push(format!("{} :: () -> i32 {{ l := () -> i32 {{ {}() }}; l() }}", f, other))
            }
            _ => defs.push(format!("{} :: () {{ (a: i32, b: bool) {{ {}; }}; }}", f, k)),
        }
    }
    for k in ks {
        if rng.chance(1, 4) {
            defs.push(format!("{} :: comptime {{ {}() + 1 }};", k, rng.pick(fs)));
        } else {
            defs.push(format!("{} :: {};", k, rng.below(100)));
        }
    }
    ns
}

/// `x : T : 5;` with T a chain of aliases
fn gen_annotated(rng: &mut Rng, defs: &mut Vec<String>) -> Vec<String> {
    let nt = rng.range(1, 3) as usize;
    let nv = rng.range(1, 3) as usize;
    let ts = ty_names(rng, nt);
    let vs = names(rng, nv);
    for i in 0..nt {
        if i + 1 < nt {
            defs.push(format!("{} :: {};", ts[i], ts[i + 1]));
        } else {
            defs.push(format!("{} :: {};", ts[i], rng.pick(INT_PRIMS)));
        }
    }
    for (i, v) in vs.iter().enumerate() {
        let t = rng.pick(&ts).clone();
        if i > 0 && rng.chance(1, 2) {
            defs.push(format!("{} : {} : {};", v, t, vs[i - 1]));
        } else {
            defs.push(format!("{} : {} : {};", v, t, rng.below(100)));
        }
    }
    let mut all = ts;
    all.extend(vs);
    all
}

/// functions whose locals use later globals / global types
fn gen_locals(rng: &mut Rng, defs: &mut Vec<String>) -> Vec<String> {
    let nf = rng.range(1, 2) as usize;
    let ng = rng.range(1, 3) as usize;
    let fs = names(rng, nf + ng);
    let ts = ty_names(rng, 1);
    let (funs, globs) = fs.split_at(nf);
    // globals either carry the alias type as annotation (`g : T : 5;`) or are plain
    let annotated = rng.chance(1, 2);
    for f in funs {
        let mut body = String::new();
        let nl = rng.range(1, 3);
        for l in 0..nl {
            match rng.below(3) {
                0 => body.push_str(&format!("v{} := {} + 1; ", l, rng.pick(globs))),
                1 => body.push_str(&format!("v{} : {} = {}; ", l, ts[0], rng.below(9))),
                _ if annotated => body.push_str(&format!("v{} : {} = {}; ", l, ts[0], rng.pick(globs))),
                _ => body.push_str(&format!("v{} := {}; ", l, rng.pick(globs))),
            }
        }
        defs.push(format!("{} :: () {{ {}}}", f, body));
    }
    for (i, g) in globs.iter().enumerate() {
        let ann = if annotated { format!(" {} ", ts[0]) } else { String::new() };
        if i + 1 < globs.len() && rng.chance(1, 2) {
            defs.push(format!("{} :{}: {};", g, ann, globs[i + 1]));
        } else {
            defs.push(format!("{} :{}: {};", g, ann, rng.below(100)));
        }
    }
    defs.push(format!("{} :: {};", ts[0], rng.pick(INT_PRIMS)));
    let mut all = fs;
    all.extend(ts);
    all
}

/// adds broken definitions that mention the given existing names
fn gen_errors(rng: &mut Rng, defs: &mut Vec<String>, existing: &[String]) {
    let n = rng.range(1, 3) as usize;
    let ns = names(rng, n);
    for v in &ns {
        let v = format!("{}_e", v);
        let ex = if existing.is_empty() { "nothing_here".to_string() } else { rng.pick(existing).clone() };
        match rng.below(10) {
            0 => defs.push(format!("{} :: undefined_{} + 1;", v, rng.below(100))),
            1 => defs.push(format!("{} : {} : 5;", v, v)),
            2 => defs.push(format!("{} : bool : {};", v, ex)),
            3 => defs.push(format!("{} :: {}();", v, ex)),
            4 => defs.push(format!("{} : {} : 5;", v, ex)),
            5 => defs.push(format!("{} :: () -> i32 {{ \"str\" }}", v)),
            6 => defs.push(format!("{} :: () -> Missing{} {{ {} }}", v, rng.below(9), ex)),
            7 => defs.push(format!("{} :: {} + true;", v, ex)),
            8 => defs.push(format!("{} :: {}.field;", v, ex)),
            // syntax error
            _ => defs.push(format!("{} :: (( {} ;", v, ex)),
        }
    }
}

fn gen_two_file(rng: &mut Rng) -> String {
    let mut other = Vec::new();
    let k = rng.below(3);
    let exported = match k {
        0 => gen_valid(rng, &mut other),
        1 => gen_functions(rng, &mut other),
        _ => gen_cyclic(rng, &mut other),
    };
    other.retain(|d| !d.starts_with("main ::"));
    let other_src = assemble(rng, other);
    let imp = names(rng, 1).remove(0);
    let mut defs = vec![format!("{}_m :: #import(\"other.capy\");", imp)];
    let nusers = rng.range(1, 3) as usize;
    let users = names(rng, nusers);
    for u in &users {
        let e = rng.pick(&exported).clone();
        if k == 1 {
            // might be a 0- or 1-ary function: calling with no args is an outcome either way
            defs.push(format!("{}_u :: () -> i32 {{ {}_m.{}() }}", u, imp, e));
        } else if rng.chance(1, 2) {
            defs.push(format!("{}_u :: {}_m.{} + 1;", u, imp, e));
        } else {
            defs.push(format!("{}_u :: () -> i32 {{ {}_m.{} }}", u, imp, e));
        }
    }
    let main_src = assemble(rng, defs);
    format!("#- main.capy\n{}\n#- other.capy\n{}\n", main_src, other_src)
}

/// One generated program: (kind, source).
pub fn generate(rng: &mut Rng) -> (&'static str, String) {
    let mut defs: Vec<String> = Vec::new();
    let kind: &'static str = match rng.below(22) {
        0..=2 => {
            gen_valid(rng, &mut defs);
            "valid"
        }
        3..=4 => {
            gen_functions(rng, &mut defs);
            "functions"
        }
        5..=8 => {
            gen_cyclic(rng, &mut defs);
            "cyclic"
        }
        9..=10 => {
            gen_types(rng, &mut defs);
            "types"
        }
        11..=13 => {
            gen_generic(rng, &mut defs);
            "generic"
        }
        14..=15 => {
            gen_lambda(rng, &mut defs);
            "lambda"
        }
        16 => {
            gen_annotated(rng, &mut defs);
            "annotated"
        }
        17 => {
            gen_locals(rng, &mut defs);
            "locals"
        }
        18..=19 => {
            let existing = match rng.below(4) {
                0 => gen_valid(rng, &mut defs),
                1 => gen_functions(rng, &mut defs),
                2 => gen_types(rng, &mut defs),
                _ => Vec::new(),
            };
            gen_errors(rng, &mut defs, &existing);
            "erroneous"
        }
        20 => return ("two_file", gen_two_file(rng)),
        _ => {
            // mixed: two or three families in one file (names may collide across families:
            // a duplicate definition is then simply one more erroneous outcome)
            let parts = rng.range(2, 3);
            let mut existing = Vec::new();
            for _ in 0..parts {
                let ns = match rng.below(8) {
                    0 => gen_valid(rng, &mut defs),
                    1 => gen_functions(rng, &mut defs),
                    2 => gen_cyclic(rng, &mut defs),
                    3 => gen_types(rng, &mut defs),
                    4 => gen_generic(rng, &mut defs),
                    5 => gen_lambda(rng, &mut defs),
                    6 => gen_annotated(rng, &mut defs),
                    _ => gen_locals(rng, &mut defs),
                };
                existing.extend(ns);
            }
            // cross links between the families
            let links = rng.range(0, 2);
            for l in 0..links {
                let a = rng.pick(&existing).clone();
                let b = rng.pick(&existing).clone();
                defs.push(format!("link{} :: {} + {};", l, a, b));
            }
            if rng.chance(1, 4) {
                gen_errors(rng, &mut defs, &existing);
            }
            // at most one `main`
            let mut seen_main = false;
            defs.retain(|d| {
                if d.starts_with("main ::") {
                    if seen_main {
                        return false;
                    }
                    seen_main = true;
                }
                true
            });
            "mixed"
        }
    };
    (kind, assemble(rng, defs))
}
