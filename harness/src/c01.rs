//! C01 — well-typed programs are accepted and run exactly as the semantics prescribe.
//! Translation validation per program: generated CapyCore programs (type-directed, mostly
//! valid by construction) are printed as Capy source, built by the real CLI and run; stdout
//! and exit status are compared with the Lean reference interpreter `CapyV.Core.run`.
use crate::core::{self, GenCfg};
use crate::e2e::{self, Program as E2eProgram};
use crate::lean;
use crate::report::Report;
use crate::rng::Rng;
use serde_json::json;

pub const FUEL: u32 = 20000;

/// canonical observation of a real run, in the interpreter's format
pub fn observe(o: &e2e::Outcome) -> String {
    if !o.built && o.compile_timeout {
        return "compile-timeout|".into();
    }
    if !o.built {
        let why = o
            .compile_out
            .lines()
            .filter(|l| l.starts_with("error") || l.contains("panicked") || l.contains("Error"))
            .take(2)
            .collect::<Vec<_>>()
            .join(" / ");
        return format!("not-built({})|{}", o.compile_status.map(|s| s.to_string()).unwrap_or("signal".into()), why);
    }
    if o.run_timeout {
        return "timeout|".into();
    }
    if let Some(s) = o.run_signal {
        return format!("signal={s}|");
    }
    let text = o.stdout();
    let mut lines: Vec<&str> = text.lines().collect();
    let status = o.run_status.unwrap_or(-1);
    let mut st = format!("exit={status}");
    if status == 1 {
        // the defined runtime faults print a message and exit with status 1
        if let Some(pos) = lines.iter().position(|l| l.contains("out of bounds")) {
            st = "fault=index".into();
            lines.truncate(pos);
        } else if let Some(pos) = lines.iter().position(|l| l.contains("unwrap") || l.contains("variant")) {
            st = "fault=unwrap".into();
            lines.truncate(pos);
        }
    }
    // a fault message may follow a blank separator line
    while lines.last().map(|l| l.trim().is_empty()).unwrap_or(false) && st.starts_with("fault") {
        lines.pop();
    }
    format!("{st}|{}", lines.join(";"))
}

pub fn run(tier: &str, seed: u64, widen: bool) -> Report {
    let mut rep = Report::new(
        "C01",
        "real capy CLI + built executable (stdout, exit status) vs the Lean reference interpreter CapyV.Core.run on generated well-typed programs",
        "seeded type-directed generator of CapyCore programs: 0-3 helper functions + main, 0-2 structs, 0-2 enums, integers of every width 8-64 and both signednesses, bool, arrays (nested), optionals, structs (nested), enums with payloads, error unions, switch, .try, let/assign/compound assign through field and index paths, if/else, bounded while loops, labelled blocks, break/continue/return, defers, casts, calls with aggregate arguments and results, #unwrap/#is_variant; pointers (^T/^mut T of locals, fields, elements; reads and writes through them; pointer parameters whose callee reads/writes the caller's cell; pointers in structs and optionals; two names for one cell used alternately), slices ([]T of array places, .len, indexing, writes through, slice parameters, [N]T.(slice)), function values in locals, bounded self-recursion (also passing a pointer to the activation's own local down), char; occasional runtime faults (array/slice index out of range, wrong unwrap) in main; non-trivial = program has >= 12 lines; distinct by source text; `feature:*` histogram entries count programs using a construct (static), `observed:slice-index-out-of-bounds` counts runs aborted by the slice bounds check",
    );
    if !e2e::available() {
        rep.notes.push("capy CLI binary missing".into());
        return rep;
    }
    let mut rng = Rng::new(seed);
    let n = if widen { 3000 } else if tier == "thorough" { 1500 } else { 192 };
    let cfg = GenCfg::default();
    let progs: Vec<core::Program> = (0..n).map(|_| core::gen_program(&mut rng, &cfg)).collect();
    let sources: Vec<String> = progs.iter().map(|p| p.capy()).collect();
    let e2e_progs: Vec<E2eProgram> = sources.iter().map(|s| E2eProgram::single(s)).collect();
    let outcomes = e2e::run_all(&e2e_progs, e2e::Limits::default());
    let reqs: Vec<String> = progs.iter().map(|p| format!("CORE run {FUEL} {}", p.sexp())).collect();
    let answers = lean::ask(&reqs);
    // the value-only interpreter `CapyV.Core` (object of C16's substitution lemma) on the programs
    // of its fragment: `agree` / `differ:<its answer>` / `n/a`
    let xreqs: Vec<String> = progs.iter().map(|p| format!("CORE xcheck {FUEL} {}", p.sexp())).collect();
    let xanswers = lean::ask(&xreqs);
    for (p, x) in progs.iter().zip(xanswers.iter()) {
        let kind = x.split(':').next().unwrap_or("?");
        rep.hit(&format!("v1-interpreter:{kind}"));
        if kind == "differ" && rep.notes.len() < 8 {
            rep.notes.push(format!("CapyV.Core (value-only interpreter) answers {} where CapyV.CoreMem answers otherwise: {}", &x[7.min(x.len())..], p.capy().replace('\n', " ")));
        }
        for l in p.features().labels() {
            rep.hit(&format!("feature:{l}"));
        }
    }
    for (((p, src), out), model) in progs.iter().zip(sources.iter()).zip(outcomes.iter()).zip(answers.iter()) {
        let nstmts = src.lines().count();
        rep.case(if nstmts >= 12 { Some(src.clone()) } else { None });
        let got = observe(out);
        let _ = p;
        if out.built && out.stdout().contains("slice index out of bounds") {
            rep.hit("observed:slice-index-out-of-bounds");
        }
        let status_kind = model.split('|').next().unwrap_or("").split('=').next().unwrap_or("").to_string();
        rep.hit(&format!("expected:{}", status_kind));
        if model == "?" {
            continue;
        }
        if model.starts_with("out-of-fuel") || model.starts_with("stuck") {
            // the generator left the fragment (or the run is too long): not compared
            rep.hit("not-compared");
            if rep.notes.len() < 5 {
                rep.notes.push(format!("interpreter gave {} for a generated program", model.split('|').next().unwrap_or("")));
            }
            continue;
        }
        rep.traces_validated += 1;
        if rep.evaluations % 23 == 1 {
            rep.sample(json!({"source": src, "observed": got}));
        }
        if &got != model {
            let label = if got.starts_with("not-built") {
                if out.compiler_panicked() { "compiler-crashed-on-well-typed-program" } else { "well-typed-program-rejected" }
            } else if got.starts_with("compile-timeout") {
                "compile-timeout"
            } else if got.starts_with("signal") || got.starts_with("timeout") {
                "executable-crashed-or-hung"
            } else if got.split('|').next() != model.split('|').next() {
                "wrong-exit-status-or-fault"
            } else {
                "wrong-output"
            };
            rep.oracle_fail(label, json!({"source": src}), json!(got), json!(model), "built executable disagrees with the reference semantics");
        }
    }
    // aggregate comparison (`==` / `!=` on arrays, slices, structs, sum types)
    crate::c01_eq::run(&mut rep, &mut rng, tier, widen);
    // evaluation order of struct-literal members, array items, arguments, operands
    crate::c01_order::run(&mut rep, &mut rng, tier, widen);
    // value semantics of aggregate copies (the CopyLang programs of C02 are well-typed programs too)
    crate::c02_copy::run(&mut rep, &mut rng, tier, widen);
    rep
}

pub fn replay(input: &serde_json::Value) -> String {
    let src = input["source"].as_str().unwrap_or("");
    let o = e2e::run_all(&[E2eProgram::single(src)], e2e::Limits::default());
    format!("implementation: {}\n(the expected outcome is in the replay file's `spec` field)", observe(&o[0]))
}
