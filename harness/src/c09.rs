//! C09 — literals denote exactly their written values or are rejected.
//!
//! Streams (all inputs derive from the seeded `Rng`; the boundary sets are exhaustive):
//!  A  in-process `hir::lower` on every spelling (dec with `_`/`e`, hex, bin) of every boundary
//!     value: `Expr::IntLiteral(n)` / `OutOfRangeIntLiteral` vs Lean `lowerInt` vs the oracle
//!     (an independent big-number reading of the spelling);
//!  F  in-process `hir::lower` on string and char literals built from every escape (valid or
//!     not) and ordinary characters vs Lean `lowerString`/`lowerChar` vs the oracle table;
//!  B  in-process `hir_ty` (frontend::with_analysis): every boundary value annotated at every
//!     integer type in 15 syntactic contexts: diagnostic kinds vs Lean `acceptsAt` vs `fits`;
//!  C  the same without annotation (local, global, arithmetic, negated): model only (the
//!     property allows a rejection) — what is accepted goes to D;
//!  D  end-to-end (real CLI, built executable): every literal the front end accepted is printed
//!     at run time (`core.println`; 128-bit as two halves) vs the written value vs Lean
//!     `finalValue`; string/char literals printed as bytes;
//!  E  end-to-end float literals: bit pattern of the runtime value vs Rust's own
//!     `str::parse::<f32|f64>` (trusted; floats are not modelled in Lean).
use crate::e2e::{self, Program};
use crate::frontend;
use crate::lean;
use crate::report::Report;
use crate::rng::Rng;
use serde_json::{json, Value};
use std::collections::BTreeMap;
use std::path::Path;

const U64_LIMIT: u128 = 1u128 << 64;

// ---------------------------------------------------------------------------------------
// oracle side (written from the property text, not from the Rust)
// ---------------------------------------------------------------------------------------

/// value of a spelling; `None` = astronomically large (certainly ≥ 2^64)
fn spelled_value(kind: &str, text: &str) -> Option<u128> {
    fn digits(s: &str, radix: u128) -> Option<u128> {
        let mut v: u128 = 0;
        for c in s.chars() {
            if c == '_' {
                continue;
            }
            let d = c.to_digit(radix as u32).expect("generator emits digits only") as u128;
            v = v.checked_mul(radix)?.checked_add(d)?;
            if v > (1u128 << 100) {
                return None;
            }
        }
        Some(v)
    }
    match kind {
        "hex" => digits(&text[2..], 16),
        "bin" => digits(&text[2..], 2),
        _ => {
            let (m, e) = match text.find(|c| c == 'e' || c == 'E') {
                Some(p) => (&text[..p], Some(&text[p + 1..])),
                None => (text, None),
            };
            let m = digits(m, 10);
            match e {
                None => m,
                Some(e) => {
                    let e = digits(e, 10);
                    match (m, e) {
                        (Some(0), _) => Some(0),
                        (Some(m), Some(e)) if e <= 30 => m.checked_mul(10u128.checked_pow(e as u32)?),
                        _ => None,
                    }
                }
            }
        }
    }
}

/// mantissa 0 with an exponent ≥ 20 (`0e20`): the one family the lowering refuses although it
/// spells a value that fits (finding `zero-mantissa-huge-exponent`, reported by stream A only)
#[allow(dead_code)]
fn is_zero_times_huge_power(text: &str) -> bool {
    if text.starts_with("0x") || text.starts_with("0b") {
        return false;
    }
    match text.find(|c| c == 'e' || c == 'E') {
        None => false,
        Some(p) => {
            let m: String = text[..p].chars().filter(|c| *c != '_').collect();
            let e: String = text[p + 1..].chars().filter(|c| *c != '_').collect();
            m.chars().all(|c| c == '0') && e.trim_start_matches('0').len() >= 2 && e.trim_start_matches('0').parse::<u128>().map(|x| x >= 20).unwrap_or(true)
        }
    }
}

const INT_TYS: [(bool, u32); 12] = [
    (true, 8), (true, 16), (true, 32), (true, 64), (true, 128), (true, 255),
    (false, 8), (false, 16), (false, 32), (false, 64), (false, 128), (false, 255),
];

fn ty_name(t: (bool, u32)) -> String {
    match t {
        (true, 255) => "isize".into(),
        (false, 255) => "usize".into(),
        (s, w) => format!("{}{}", if s { "i" } else { "u" }, w),
    }
}

/// two's complement range of the type (isize/usize: 64 bit, the host pointer width)
fn fits(t: (bool, u32), v: u128) -> bool {
    let bits = if t.1 == 255 { 64 } else { t.1 };
    let lim_bits = if t.0 { bits - 1 } else { bits };
    if lim_bits >= 128 {
        true
    } else {
        v < (1u128 << lim_bits)
    }
}

fn oracle_escape(c: char) -> Option<char> {
    Some(match c {
        '0' => '\0',
        'a' => '\u{7}',
        'b' => '\u{8}',
        'n' => '\n',
        'f' => '\u{c}',
        'r' => '\r',
        't' => '\t',
        'v' => '\u{b}',
        'e' => '\u{1b}',
        '"' => '"',
        '\'' => '\'',
        '\\' => '\\',
        _ => return None,
    })
}

#[derive(Clone, Debug)]
enum Comp {
    Esc(char),
    Text(String),
}

fn comps_src(comps: &[Comp]) -> String {
    let mut s = String::new();
    for c in comps {
        match c {
            Comp::Esc(c) => {
                s.push('\\');
                s.push(*c);
            }
            Comp::Text(t) => s.push_str(t),
        }
    }
    s
}

fn comps_wire(comps: &[Comp]) -> String {
    comps
        .iter()
        .map(|c| match c {
            Comp::Esc(c) => format!("e{}", *c as u32),
            Comp::Text(t) => format!("c{}", t.chars().map(|c| (c as u32).to_string()).collect::<Vec<_>>().join(",")),
        })
        .collect::<Vec<_>>()
        .join(" ")
}

/// what the components spell, `None` if some escape is not an escape
fn comps_spelled(comps: &[Comp]) -> Option<String> {
    let mut s = String::new();
    for c in comps {
        match c {
            Comp::Esc(c) => s.push(oracle_escape(*c)?),
            Comp::Text(t) => s.push_str(t),
        }
    }
    Some(s)
}

// ---------------------------------------------------------------------------------------
// generators
// ---------------------------------------------------------------------------------------

fn boundary_values() -> Vec<u128> {
    let mut v: Vec<u128> = vec![0, 1, 9, 10, 100, 255, 256, 1000];
    for w in [7u32, 8, 15, 16, 31, 32, 63, 64] {
        let p = 1u128 << w;
        for d in [-2i128, -1, 0, 1] {
            v.push((p as i128 + d) as u128);
        }
    }
    v.extend([
        3_000_000_000,
        10_000_000_000_000_000_000,
        18_000_000_000_000_000_000,
        18_446_744_073_709_551_610,
        18_446_744_073_709_551_620,
        20_000_000_000_000_000_000,
        100_000_000_000_000_000_000,
        1u128 << 65,
        (1u128 << 64) * 10,
    ]);
    v.sort();
    v.dedup();
    v
}

fn with_separators(rng: &mut Rng, s: &str) -> String {
    let mut out = String::new();
    for (i, c) in s.chars().enumerate() {
        if i > 0 && rng.chance(1, 3) {
            out.push('_');
            if rng.chance(1, 6) {
                out.push('_');
            }
        }
        out.push(c);
    }
    if rng.chance(1, 4) {
        out.push('_');
    }
    out
}

/// all systematic spellings of `v` plus `extra` random variations: (kind, text)
fn spellings(rng: &mut Rng, v: u128, extra: usize) -> Vec<(&'static str, String)> {
    let dec = v.to_string();
    let mut out: Vec<(&'static str, String)> = vec![("dec", dec.clone())];
    // thousands separators
    let mut th = String::new();
    for (i, c) in dec.chars().enumerate() {
        if i > 0 && (dec.len() - i) % 3 == 0 {
            th.push('_');
        }
        th.push(c);
    }
    out.push(("dec", th));
    out.push(("dec", format!("00{dec}")));
    out.push(("dec", format!("{dec}e0")));
    out.push(("dec", format!("{dec}E0_0")));
    // exponent forms: every way of moving trailing zeros into the exponent
    let mut m = v;
    let mut k = 0;
    while m != 0 && m % 10 == 0 {
        m /= 10;
        k += 1;
        out.push(("dec", format!("{m}e{k}")));
        if k % 2 == 1 {
            out.push(("dec", format!("{}E0{k}", with_separators(rng, &m.to_string()))));
        }
    }
    if v == 0 {
        for e in ["0e1", "0e19", "0e20", "0E21", "0_0e4294967295", "0e4294967296", "0e99999999999999999999999"] {
            out.push(("dec", e.to_string()));
        }
    }
    // hex / bin
    out.push(("hex", format!("0x{v:x}")));
    out.push(("hex", format!("0x{v:X}")));
    out.push(("hex", format!("0x000{v:x}")));
    out.push(("bin", format!("0b{v:b}")));
    out.push(("bin", format!("0b0{v:b}")));
    for _ in 0..extra {
        match rng.below(4) {
            0 | 1 => out.push(("dec", with_separators(rng, &dec))),
            2 => {
                // mixed-case hex
                let h: String = format!("{v:x}")
                    .chars()
                    .map(|c| if rng.chance(1, 2) { c.to_ascii_uppercase() } else { c })
                    .collect();
                out.push(("hex", format!("0x{h}")));
            }
            _ => {
                let z = "0".repeat(rng.below(70) as usize);
                out.push(("bin", format!("0b{z}{v:b}")));
            }
        }
    }
    out
}

/// spellings that do not correspond to a listed boundary value: huge exponents, long mantissas
fn odd_spellings(rng: &mut Rng, n: usize) -> Vec<(&'static str, String)> {
    let mut out: Vec<(&'static str, String)> = vec![];
    for s in [
        "1e19", "1e20", "2e19", "18e18", "19e18", "1844674407370955161e1", "1844674407370955162e1",
        "1e4294967295", "1e4294967296", "1e99999999999999999999", "9e18446744073709551616",
        "184467440737095516_15", "1_8_4_4_6_7_4_4_0_7_3_7_0_9_5_5_1_6_1_6", "00000000000000000000000000000000000001",
        "340282366920938463463374607431768211456", "0xffffffffffffffffffffffffffffffff", "1E1_9", "1_e1", "1e1_",
    ] {
        out.push(("dec", s.to_string()));
    }
    out.retain(|(_, s)| !s.starts_with("0x"));
    out.push(("hex", "0xffffffffffffffffffffffffffffffff".into()));
    out.push(("hex", "0x10000000000000000".into()));
    out.push(("bin", format!("0b1{}", "0".repeat(64))));
    out.push(("bin", format!("0b{}", "1".repeat(64))));
    for _ in 0..n {
        let len = 1 + rng.below(24) as usize;
        let mut m: String = (0..len).map(|_| char::from(b'0' + rng.below(10) as u8)).collect();
        if rng.chance(1, 2) {
            m = with_separators(rng, &m);
        }
        if rng.chance(2, 3) {
            let e = rng.below(24);
            let sep = if rng.chance(1, 2) { "e" } else { "E" };
            out.push(("dec", format!("{m}{sep}{e}")));
        } else {
            out.push(("dec", m));
        }
    }
    out
}

fn gen_comps(rng: &mut Rng, quote: char, max: usize) -> Vec<Comp> {
    const ESC: [char; 22] = [
        '0', 'a', 'b', 'n', 'f', 'r', 't', 'v', 'e', '"', '\'', '\\', 'q', 'x', 'u', '1', 'N', 'z', ' ', 'é', '€', '{',
    ];
    const TXT: [&str; 12] = ["a", "Z", "0", " ", "e", "_", "é", "ÿ", "€", "Ā", "#", "/"];
    let n = rng.below(max as u64 + 1) as usize;
    let mut out = vec![];
    let mut last_text = false;
    for _ in 0..n {
        if rng.chance(1, 2) || last_text {
            out.push(Comp::Esc(*rng.pick(&ESC[..])));
            last_text = false;
        } else {
            let k = 1 + rng.below(3) as usize;
            let mut t = String::new();
            for _ in 0..k {
                t.push_str(*rng.pick(&TXT[..]));
            }
            if quote == '"' && rng.chance(1, 5) {
                t.push('\'');
            }
            if quote == '\'' && rng.chance(1, 5) {
                t.push('"');
            }
            out.push(Comp::Text(t));
            last_text = true;
        }
    }
    out
}

// ---------------------------------------------------------------------------------------
// implementation side
// ---------------------------------------------------------------------------------------

/// Lowers `g0 :: <lit0>; g1 :: <lit1>; …` with the real lexer/parser/hir and returns, per
/// literal, the lowered expression (canonical text) and the diagnostic kinds inside its range.
fn lower_literals(lits: &[String]) -> Result<Vec<(String, Vec<String>)>, String> {
    let lits = lits.to_vec();
    let handle = std::thread::Builder::new()
        .stack_size(64 * 1024 * 1024)
        .spawn(move || {
            std::panic::catch_unwind(std::panic::AssertUnwindSafe(|| {
                let mut src = String::new();
                let mut ranges = vec![];
                for (k, l) in lits.iter().enumerate() {
                    src.push_str(&format!("g{k} :: "));
                    let lo = src.len() as u32;
                    src.push_str(l);
                    ranges.push((lo, src.len() as u32));
                    src.push_str(";\n");
                }
                let mut interner = interner::Interner::default();
                let mut uid_gen = uid_gen::UIDGenerator::default();
                let tokens = lexer::lex(&src);
                let parse = parser::parse_source_file(&tokens, &src);
                let n_syntax = parse.errors().len();
                let tree = parse.into_syntax_tree();
                let root = <ast::Root as ast::AstNode>::cast(tree.root(), &tree).unwrap();
                let (index, _d) = hir::index(root, &tree, &mut interner);
                let (bodies, diags) = hir::lower(
                    root, &tree, Path::new("main.capy"), &index, &mut uid_gen, &mut interner, Path::new(""), true,
                );
                let mut out = vec![];
                for (k, (lo, hi)) in ranges.iter().enumerate() {
                    let name = hir::common::Name(interner.intern(&format!("g{k}")));
                    let e = match bodies.try_global_body(name) {
                        None => "no-global".to_string(),
                        Some(idx) => match &bodies[idx] {
                            hir::Expr::IntLiteral(n) => format!("ok:{n}"),
                            hir::Expr::Missing => "missing".to_string(),
                            hir::Expr::FloatLiteral(f) => format!("flt:{}", f.to_bits()),
                            hir::Expr::StringLiteral(key) => format!(
                                "str:{}",
                                interner.lookup(*key).chars().map(|c| (c as u32).to_string()).collect::<Vec<_>>().join(",")
                            ),
                            hir::Expr::CharLiteral(b) => format!("chr:{b}"),
                            other => format!("other:{}", format!("{:?}", other).chars().take(24).collect::<String>()),
                        },
                    };
                    let mut kinds = vec![];
                    for d in &diags {
                        let s = u32::from(d.range.start());
                        if s >= *lo && s < *hi {
                            let k = format!("{:?}", d.kind);
                            kinds.push(k.split(|c: char| c == ' ' || c == '{' || c == '(').next().unwrap_or("").to_string());
                        }
                    }
                    if n_syntax > 0 {
                        kinds.push(format!("syntax-errors-in-batch:{n_syntax}"));
                    }
                    out.push((e, kinds));
                }
                out
            }))
        })
        .expect("spawn");
    match handle.join() {
        Ok(Ok(r)) => Ok(r),
        Ok(Err(p)) | Err(p) => Err(frontend::panic_message(p)),
    }
}

/// Runs the whole front end on `src`; returns (kind, start offset) of every diagnostic.
fn analyse(src: String) -> Result<Vec<(String, u32)>, String> {
    frontend::with_analysis(vec![("main.capy".into(), src)], None, false, |a| {
        let head = |s: String| s.split(|c: char| c == ' ' || c == '{' || c == '(').next().unwrap_or("").to_string();
        let mut v = vec![];
        for (_, e) in &a.syntax_errors {
            let pos = match e.kind {
                parser::SyntaxErrorKind::Missing { offset } => u32::from(offset),
                parser::SyntaxErrorKind::UnexpectedToken { range, .. } => u32::from(range.start()),
                parser::SyntaxErrorKind::UnexpectedNode { range, .. } => u32::from(range.start()),
            };
            v.push((format!("syntax:{}", head(format!("{:?}", e.kind))), pos));
        }
        for (_, d) in &a.index_diags {
            v.push((format!("index:{}", head(format!("{:?}", d.kind))), u32::from(d.range.start())));
        }
        for (_, d) in &a.lowering_diags {
            v.push((format!("lower:{}", head(format!("{:?}", d.kind))), u32::from(d.range.start())));
        }
        for d in &a.ty_diags {
            if d.is_error() {
                v.push((format!("ty:{}", head(format!("{:?}", d.kind))), u32::from(d.range.start())));
            }
        }
        v
    })
}

const N_CTX: usize = 17;
const CTX_NAMES: [&str; N_CTX] = [
    "local", "global", "arg", "return", "assign", "binary", "compare", "array", "struct-field", "via-weak-local",
    "paren", "compound-assign", "optional", "distinct", "cast", "global-comptime", "local-comptime",
];

fn ctx_src(ctx: usize, k: usize, t: &str, lit: &str) -> String {
    match ctx {
        0 => format!("c{k} :: () {{ x : {t} = {lit}; }}\n"),
        1 => format!("c{k} : {t} : {lit};\n"),
        2 => format!("c{k}h :: (a: {t}) {{}}\nc{k} :: () {{ c{k}h({lit}); }}\n"),
        3 => format!("c{k} :: () -> {t} {{ {lit} }}\n"),
        4 => format!("c{k} :: () {{ x : {t} = 0; x = {lit}; }}\n"),
        5 => format!("c{k} :: () {{ x : {t} = 0; y := x + {lit}; }}\n"),
        6 => format!("c{k} :: () {{ x : {t} = 0; y := x < {lit}; }}\n"),
        7 => format!("c{k} :: () {{ a := {t}.[{lit}]; }}\n"),
        8 => format!("c{k}S :: struct {{ f: {t} }};\nc{k} :: () {{ s := c{k}S.{{ f = {lit} }}; }}\n"),
        9 => format!("c{k} :: () {{ x := {lit}; y : {t} = x; }}\n"),
        10 => format!("c{k} :: () {{ x : {t} = ({lit}); }}\n"),
        11 => format!("c{k} :: () {{ x : {t} = 0; x += {lit}; }}\n"),
        12 => format!("c{k} :: () {{ x : ?{t} = {lit}; }}\n"),
        13 => format!("c{k}D :: distinct {t};\nc{k} :: () {{ x : c{k}D = {lit}; }}\n"),
        14 => format!("c{k} :: () {{ x := {t}.({lit}); }}\n"),
        15 => format!("c{k} : {t} : comptime {{ {lit} }};\n"),
        _ => format!("c{k} :: () {{ x : {t} = comptime {{ {lit} }}; }}\n"),
    }
}

const N_UCTX: usize = 15;
const UCTX_NAMES: [&str; N_UCTX] = [
    "local", "global", "arith", "arith-rev", "neg",
    // the literal wrapped in an expression that passes its value through unchanged
    "paren", "comptime", "block", "if", "switch-arm", "array-elem", "labelled-break", "paren-arith", "assign-paren",
    // an inner literal of a nested anonymous array next to a sibling that stays small (fix ad9b03f)
    "nested-array-elem",
];

/// statements defining `x` from the unannotated literal in wrapper context `ctx` (>= 5)
fn wrapper_stmts(ctx: usize, k: usize, lit: &str) -> String {
    match ctx {
        5 => format!("x := ({lit});"),
        6 => format!("x := comptime {{ {lit} }};"),
        7 => format!("x := {{ {lit} }};"),
        8 => format!("x := if true {{ {lit} }} else {{ 1 }};"),
        9 => format!("o{k} : ?i64 = nil; x := switch v in o{k} {{ i64 => 1, nil => {lit} }};"),
        10 => format!("a{k} := .[{lit}, 1]; x := a{k}[0];"),
        11 => format!("x := `w{k}: {{ break `w{k} {lit}; }};"),
        12 => format!("x := ({lit}) + 0;"),
        13 => format!("x := 3000000000; x = ({lit});"),
        _ => format!("a{k} := .[.[{lit}, 1], .[2, 3]]; x := a{k}[0][0];"),
    }
}

fn uctx_src(ctx: usize, k: usize, lit: &str) -> String {
    match ctx {
        0 => format!("c{k} :: () {{ x := {lit}; }}\n"),
        1 => format!("c{k} :: {lit};\n"),
        2 => format!("c{k} :: () {{ x := {lit} + 0; }}\n"),
        3 => format!("c{k} :: () {{ x := 0 + {lit}; }}\n"),
        4 => format!("c{k} :: () {{ x := -{lit}; }}\n"),
        _ => format!("c{k} :: () {{ {} }}\n", wrapper_stmts(ctx, k, lit)),
    }
}

/// runs a batch of independent snippets through the front end; per snippet the diagnostic kinds
/// inside it. A front-end panic of the batch is retried snippet by snippet.
fn analyse_batch(snips: &[String]) -> Vec<Result<Vec<String>, String>> {
    let mut src = String::new();
    let mut ranges = vec![];
    for s in snips {
        let lo = src.len() as u32;
        src.push_str(s);
        ranges.push((lo, src.len() as u32));
    }
    match analyse(src) {
        Ok(diags) => ranges
            .iter()
            .map(|(lo, hi)| Ok(diags.iter().filter(|(_, p)| p >= lo && p < hi).map(|(k, _)| k.clone()).collect()))
            .collect(),
        Err(msg) => {
            if snips.len() == 1 {
                return vec![Err(msg)];
            }
            snips.iter().map(|s| analyse_batch(std::slice::from_ref(s)).pop().unwrap()).collect()
        }
    }
}

fn field<'a>(ans: &'a str, key: &str) -> &'a str {
    ans.split(' ').find_map(|t| t.strip_prefix(key).and_then(|r| r.strip_prefix('='))).unwrap_or("?")
}

#[derive(Clone)]
struct E2eCase {
    /// "ann-local" | "ann-global" | "local" | "global" | "arith" | "arith-rev" | "neg"
    how: &'static str,
    ty: Option<(bool, u32)>,
    lit: String,
    value: u128,
}

fn e2e_label(c: &E2eCase) -> String {
    match c.ty {
        Some(t) => format!("runtime-value-{}", ty_name(t)),
        None => format!("default-{}", c.how),
    }
}

fn e2e_program(cases: &[E2eCase]) -> String {
    let mut globals = String::new();
    let mut body = String::new();
    for (k, c) in cases.iter().enumerate() {
        let wide = matches!(c.ty, Some((_, 128)));
        let print = |x: &str| {
            if wide {
                format!("core.println(\"#{k} \", u64.({x} >> 64), \" \", u64.({x}));")
            } else {
                format!("core.println(\"#{k} \", {x});")
            }
        };
        match (c.how, c.ty) {
            ("ann-local", Some(t)) => body.push_str(&format!("    {{ x : {} = {}; {} }}\n", ty_name(t), c.lit, print("x"))),
            ("ann-global", Some(t)) => {
                globals.push_str(&format!("e{k} : {} : {};\n", ty_name(t), c.lit));
                body.push_str(&format!("    {{ x := e{k}; {} }}\n", print("x")));
            }
            ("global", _) => {
                globals.push_str(&format!("e{k} :: {};\n", c.lit));
                body.push_str(&format!("    {}\n", print(&format!("e{k}"))));
            }
            ("arith", _) => body.push_str(&format!("    {{ x := {} + 0; {} }}\n", c.lit, print("x"))),
            ("arith-rev", _) => body.push_str(&format!("    {{ x := 0 + {}; {} }}\n", c.lit, print("x"))),
            // core.println misprints some negative 64-bit numbers, so −lit is observed through
            // (−lit) + lit at i64, which must be 0
            ("neg", _) => body.push_str(&format!("    {{ x := -{}; y : i64 = {}; z := i64.(x) + y; {} }}\n", c.lit, c.value, print("z"))),
            (how, None) if UCTX_NAMES.iter().position(|n| *n == how).is_some_and(|i| i >= 5) => {
                let ctx = UCTX_NAMES.iter().position(|n| *n == how).unwrap();
                body.push_str(&format!("    {{ {} {} }}\n", wrapper_stmts(ctx, k, &c.lit), print("x")))
            }
            _ => body.push_str(&format!("    {{ x := {}; {} }}\n", c.lit, print("x"))),
        }
    }
    format!("core :: #mod(\"core\");\n{globals}main :: () {{\n{body}}}\n")
}

/// `#k a [b]` lines of a run → k ↦ tokens
fn parse_lines(out: &[u8]) -> BTreeMap<usize, Vec<u8>> {
    let mut m = BTreeMap::new();
    for line in out.split(|b| *b == b'\n') {
        if line.first() != Some(&b'#') {
            continue;
        }
        let sp = line.iter().position(|b| *b == b' ').unwrap_or(line.len());
        if let Ok(k) = std::str::from_utf8(&line[1..sp]).unwrap_or("x").parse::<usize>() {
            m.insert(k, line[(sp + 1).min(line.len())..].to_vec());
        }
    }
    m
}

fn build_note(o: &e2e::Outcome) -> String {
    format!(
        "{} {}",
        o.run_summary(),
        o.compile_out.lines().filter(|l| l.contains("error") || l.contains("panicked")).take(2).collect::<Vec<_>>().join(" / ")
    )
}

// ---------------------------------------------------------------------------------------

pub fn run(tier: &str, seed: u64, widen: bool) -> Report {
    let mut rep = Report::new(
        "C09",
        "A: real lexer+parser+hir::lower on integer spellings vs Lean lowerInt; F: the same on string/char literals vs lowerString/lowerChar; B/C: real hir_ty (in-process front end) on annotated / unannotated literals in 17+15 syntactic contexts (unannotated: local, global, arithmetic, negation, and ten value-preserving wrappers: parentheses, comptime block, block, if, switch arm, array element, labelled break, parenthesised operand, parenthesised assignment, inner item of a nested anonymous array) vs acceptsAt / defaultTy; D: real capy CLI + built executable printing every accepted literal vs finalValue; E: float literal bit patterns at run time vs Rust str::parse",
        "exhaustive boundary set: 0,1,9,10,100,255,256,1000, 2^w-2..2^w+1 for w in {7,8,15,16,31,32,63,64}, 3e9, 1e19, 1.8e19, 2^64±6, 2e19, 1e20, 2^65, 10*2^64; every value in every systematic spelling (plain, thousands separators, leading zeros, e0, every trailing-zero exponent form, hex lower/upper/padded, binary/padded) plus seeded random separator/case/padding variations and random mantissa/exponent spellings; annotated at all 12 integer types in 15 contexts, unannotated in 5; every escape character (all printable ASCII after a backslash + non-ASCII) valid or not, in strings and chars; non-trivial = value within 2 of a type boundary, a spelling with separator/exponent/radix prefix, or a literal with an escape; distinct by (stream, context, type, spelling)",
    );
    if std::env::var("CVH_LOUD").is_ok() {
        std::panic::set_hook(Box::new(|i| eprintln!("{i}")));
    }
    let mut rng = Rng::new(seed);
    let thorough = tier == "thorough" || widen;
    let extra = if widen { 12 } else if thorough { 6 } else { 2 };
    let values = boundary_values();
    rep.exhaustive = true;

    // ---------------- stream A: lowering of integer spellings ----------------
    let mut a_cases: Vec<(&'static str, String)> = vec![];
    for v in &values {
        a_cases.extend(spellings(&mut rng, *v, extra));
    }
    a_cases.extend(odd_spellings(&mut rng, if widen { 20000 } else if thorough { 4000 } else { 400 }));
    for _ in 0..(if widen { 20000 } else if thorough { 4000 } else { 300 }) {
        // random values near random powers of two
        let w = rng.below(66) as u32;
        let base = if w >= 65 { 1u128 << 64 } else { 1u128 << w };
        let v = (base as i128 + rng.range(-3, 3) as i128).max(0) as u128;
        let sp = spellings(&mut rng, v, 1);
        let pick = rng.below(sp.len() as u64) as usize;
        a_cases.push(sp[pick].clone());
    }
    {
        let reqs: Vec<String> = a_cases.iter().map(|(k, t)| format!("C09 int {k} {t}")).collect();
        let answers = lean::ask(&reqs);
        let lits: Vec<String> = a_cases.iter().map(|(_, t)| t.clone()).collect();
        let mut results = vec![];
        for chunk in lits.chunks(500) {
            match lower_literals(chunk) {
                Ok(r) => results.extend(r),
                Err(msg) => {
                    // retry one by one so that a panic is attributed to its literal
                    for l in chunk {
                        match lower_literals(std::slice::from_ref(l)) {
                            Ok(mut r) => results.push(r.pop().unwrap()),
                            Err(m) => results.push((format!("PANIC {}", m.chars().take(60).collect::<String>()), vec![])),
                        }
                    }
                    let _ = msg;
                }
            }
        }
        for (((kind, text), ans), (expr, kinds)) in a_cases.iter().zip(answers.iter()).zip(results.iter()) {
            let val = spelled_value(kind, text);
            let nontrivial = text.contains('_') || text.contains('e') || text.contains('E') || *kind != "dec"
                || values.contains(&val.unwrap_or(0));
            rep.case(if nontrivial { Some(format!("A|{text}")) } else { None });
            let input = json!({"stream": "int-lowering", "kind": kind, "text": text});
            // implementation, canonical
            let got = if expr.starts_with("ok:") && kinds.is_empty() {
                expr.clone()
            } else if expr == "missing" && kinds == &vec!["OutOfRangeIntLiteral".to_string()] {
                "oor".to_string()
            } else {
                format!("{expr} {:?}", kinds)
            };
            rep.hit(&format!("A:{}", if got.starts_with("ok:") { "ok" } else if got == "oor" { "out-of-range" } else { "other" }));
            if rep.evaluations % 997 == 1 {
                rep.sample(json!({"literal": text, "lowered": got}));
            }
            let model = ans.split(' ').next().unwrap_or("?");
            if ans != "?" {
                if model != got {
                    rep.disagree(input.clone(), json!(got), json!(ans));
                }
                // the Lean spec value must agree with the oracle's reading (guards the driver's parser)
                let lv = field(ans, "value");
                let ov = val.map(|v| v.to_string()).unwrap_or("huge".into());
                if field(ans, "wf") != "1" || (lv != ov && !(lv == "huge" || ov == "huge")) {
                    rep.disagree(input.clone(), json!(format!("oracle value {ov}")), json!(ans));
                }
            }
            // oracle: the literal denotes its value, or is rejected exactly when it does not fit 64 bits
            let expect = match val {
                Some(v) if v < U64_LIMIT => format!("ok:{v}"),
                _ => "oor".to_string(),
            };
            if got != expect {
                let label = if val == Some(0) && got == "oor" {
                    "zero-mantissa-huge-exponent"
                } else if got.starts_with("ok:") {
                    "int-literal-wrong-value"
                } else {
                    "int-literal-lowering"
                };
                rep.oracle_fail(label, input, json!(got), json!(expect), "an integer spelling is not lowered to the value it spells / is not rejected exactly when it exceeds 64 bits");
            }
        }
    }

    // ---------------- stream F: strings and chars ----------------
    {
        let mut cases: Vec<(char, Vec<Comp>)> = vec![];
        // every printable ASCII character (and some others) after a backslash, alone and embedded
        let mut esc_chars: Vec<char> = (0x20u8..0x7f).map(char::from).collect();
        esc_chars.extend(['\t', 'é', 'ÿ', 'Ā', '€', '𝄞', '\u{a0}']);
        for q in ['"', '\''] {
            for c in &esc_chars {
                cases.push((q, vec![Comp::Esc(*c)]));
                cases.push((q, vec![Comp::Text("a".into()), Comp::Esc(*c), Comp::Text("b".into())]));
                cases.push((q, vec![Comp::Esc(*c), Comp::Esc('n')]));
            }
            for t in ["", "a", "ab", "é", "ÿ", "Ā", "€", "𝄞", " ", "0", "\t", if q == '"' { "'" } else { "\"" }] {
                cases.push((q, if t.is_empty() { vec![] } else { vec![Comp::Text(t.into())] }));
            }
        }
        let n_rand = if widen { 40000 } else if thorough { 8000 } else { 1200 };
        for _ in 0..n_rand {
            let q = if rng.chance(1, 2) { '"' } else { '\'' };
            let max = if q == '"' { 8 } else { 3 };
            cases.push((q, gen_comps(&mut rng, q, max)));
        }
        let reqs: Vec<String> = cases
            .iter()
            .map(|(q, c)| format!("C09 {} {}", if *q == '"' { "str" } else { "chr" }, comps_wire(c)))
            .collect();
        let answers = lean::ask(&reqs);
        let lits: Vec<String> = cases.iter().map(|(q, c)| format!("{q}{}{q}", comps_src(c))).collect();
        let mut results = vec![];
        for chunk in lits.chunks(500) {
            match lower_literals(chunk) {
                Ok(r) => results.extend(r),
                Err(_) => {
                    for l in chunk {
                        match lower_literals(std::slice::from_ref(l)) {
                            Ok(mut r) => results.push(r.pop().unwrap()),
                            Err(m) => results.push((format!("PANIC {}", m.chars().take(60).collect::<String>()), vec![])),
                        }
                    }
                }
            }
        }
        for ((((q, comps), ans), (expr, kinds)), lit) in cases.iter().zip(answers.iter()).zip(results.iter()).zip(lits.iter()) {
            let has_esc = comps.iter().any(|c| matches!(c, Comp::Esc(_)));
            rep.case(if has_esc { Some(format!("F|{lit}")) } else { None });
            let is_str = *q == '"';
            let input = json!({"stream": if is_str { "string-literal" } else { "char-literal" }, "literal": lit, "components": comps_wire(comps)});
            let dk = if kinds.is_empty() { "-".to_string() } else { kinds.join(",") };
            let got = if is_str {
                format!("text={} diags={}", expr.strip_prefix("str:").map(|s| if s.is_empty() { "-" } else { s }).unwrap_or(expr), dk)
            } else {
                format!("val={} diags={}", expr.strip_prefix("chr:").unwrap_or(expr), dk)
            };
            rep.hit(&format!("F:{}:{}", if is_str { "str" } else { "chr" }, if kinds.is_empty() { "accepted".to_string() } else { kinds[0].clone() }));
            if ans != "?" {
                let model = ans.rsplit_once(" spec=").map(|x| x.0).unwrap_or(ans);
                if model != got {
                    rep.disagree(input.clone(), json!(got), json!(ans));
                }
            }
            // oracle
            let spelled = comps_spelled(comps);
            let ok = match &spelled {
                None => kinds.iter().any(|k| k == "InvalidEscape"),
                Some(s) if is_str => {
                    kinds.is_empty() && *expr == format!("str:{}", s.chars().map(|c| (c as u32).to_string()).collect::<Vec<_>>().join(","))
                }
                Some(s) => {
                    let cs: Vec<char> = s.chars().collect();
                    if cs.len() == 1 && (cs[0] as u32) < 256 {
                        kinds.is_empty() && *expr == format!("chr:{}", cs[0] as u32)
                    } else {
                        !kinds.is_empty()
                    }
                }
            };
            if !ok {
                rep.oracle_fail(
                    if is_str { "escape-string" } else { "escape-char" },
                    input,
                    json!(got),
                    json!(match &spelled { None => "rejected: InvalidEscape".to_string(), Some(s) => format!("spells {:?}", s) }),
                    "a string/char literal does not denote the characters it spells, or an invalid escape is not rejected",
                );
            }
        }
    }

    // ---------------- streams B and C: acceptance in the type checker ----------------
    let mut e2e_cases: Vec<E2eCase> = vec![];
    {
        // (ctx, ty, kind, lit, value)
        let mut b_cases: Vec<(usize, (bool, u32), String, u128)> = vec![];
        for v in &values {
            let mut sp = spellings(&mut rng, *v, extra);
            for t in INT_TYS {
                // context 0 (annotated local): every spelling; other contexts: two spellings each
                let near = (0..=100u32).any(|w| (*v as i128 - (1i128 << w)).abs() <= 2);
                for (i, (_, text)) in sp.iter().enumerate() {
                    if near || i < 3 || thorough {
                        b_cases.push((0, t, text.clone(), *v));
                    }
                }
                for ctx in 1..N_CTX {
                    let n = if thorough { 3 } else { 1 };
                    for _ in 0..n {
                        let (_, text) = rng.pick(&sp).clone();
                        b_cases.push((ctx, t, text, *v));
                    }
                    b_cases.push((ctx, t, v.to_string(), *v));
                }
            }
        }
        b_cases.sort();
        b_cases.dedup();
        let reqs: Vec<String> = b_cases
            .iter()
            .map(|(_, t, _, v)| format!("C09 accept {} {} {}", if t.0 { 1 } else { 0 }, t.1, v.min(&(U64_LIMIT - 1))))
            .collect();
        let answers = lean::ask(&reqs);
        let snips: Vec<String> = b_cases.iter().enumerate().map(|(k, (ctx, t, lit, _))| ctx_src(*ctx, k, &ty_name(*t), lit)).collect();
        let mut results = vec![];
        for chunk in snips.chunks(250) {
            results.extend(analyse_batch(chunk));
        }
        for (((ctx, t, lit, v), ans), res) in b_cases.iter().zip(answers.iter()).zip(results.iter()) {
            let tn = ty_name(*t);
            let near_own = {
                let bits = if t.1 == 255 { 64 } else { t.1 };
                let lim = if t.0 { bits - 1 } else { bits };
                lim < 100 && (*v as i128 - (1i128 << lim)).abs() <= 2
            };
            rep.case(if near_own || lit.contains('_') || lit.contains('e') || lit.starts_with("0x") || lit.starts_with("0b") {
                Some(format!("B|{ctx}|{tn}|{lit}"))
            } else {
                None
            });
            let input = json!({"stream": "annotated-acceptance", "context": CTX_NAMES[*ctx], "type": tn, "literal": lit,
                               "source": ctx_src(*ctx, 0, &tn, lit)});
            let got = match res {
                Err(m) => format!("PANIC {}", m.chars().take(80).collect::<String>()),
                Ok(k) if k.is_empty() => "accepted".to_string(),
                Ok(k) => {
                    let mut k = k.clone();
                    k.sort();
                    k.dedup();
                    k.join(",")
                }
            };
            rep.hit(&format!("B:{}:{}", CTX_NAMES[*ctx], if got == "accepted" { "accepted" } else { got.as_str() }));
            if rep.evaluations % 1499 == 1 {
                rep.sample(json!({"source": ctx_src(*ctx, 0, &tn, lit).trim(), "front end": got}));
            }
            let big = *v >= U64_LIMIT;
            if ans != "?" {
                let predicted = if big {
                    "lower:OutOfRangeIntLiteral"
                } else if field(ans, "acc") == "1" {
                    "accepted"
                } else {
                    "ty:IntTooBigForType"
                };
                if predicted != got {
                    rep.disagree(input.clone(), json!(got), json!(format!("{predicted} ({ans})")));
                }
            }
            let expect = if big {
                "lower:OutOfRangeIntLiteral"
            } else if fits(*t, *v) {
                "accepted"
            } else {
                "ty:IntTooBigForType"
            };
            if got != expect {
                rep.oracle_fail(
                    &format!("accept-{tn}"),
                    input,
                    json!(got),
                    json!(expect),
                    "an integer literal used at an integer type must be accepted iff its value fits the type",
                );
            }
            if got == "accepted" && *ctx <= 1 {
                e2e_cases.push(E2eCase { how: if *ctx == 0 { "ann-local" } else { "ann-global" }, ty: Some(*t), lit: lit.clone(), value: *v });
            }
        }

        // stream C: no annotation
        let mut c_cases: Vec<(usize, String, u128)> = vec![];
        for v in &values {
            if *v >= U64_LIMIT {
                continue;
            }
            let sp = spellings(&mut rng, *v, extra);
            for ctx in 0..N_UCTX {
                if ctx == 4 && *v >= (1u128 << 63) {
                    continue; // −v is not a 64-bit value: outside the property
                }
                for (i, (_, text)) in sp.iter().enumerate() {
                    if spelled_value(if text.starts_with("0x") { "hex" } else if text.starts_with("0b") { "bin" } else { "dec" }, text) != Some(*v) {
                        continue;
                    }
                    if ctx <= 1 || (ctx < 5 && i < 4) || i < 2 || thorough {
                        c_cases.push((ctx, text.clone(), *v));
                    }
                }
            }
        }
        c_cases.sort();
        c_cases.dedup();
        let reqs: Vec<String> = c_cases
            .iter()
            .map(|(ctx, _, v)| if *ctx == 4 { format!("C09 defneg {v}") } else { format!("C09 default {} {v}", if *ctx == 1 { 1 } else { 0 }) })
            .collect();
        let answers = lean::ask(&reqs);
        let snips: Vec<String> = c_cases.iter().enumerate().map(|(k, (ctx, lit, _))| uctx_src(*ctx, k, lit)).collect();
        let mut results = vec![];
        for chunk in snips.chunks(250) {
            results.extend(analyse_batch(chunk));
        }
        for (((ctx, lit, v), ans), res) in c_cases.iter().zip(answers.iter()).zip(results.iter()) {
            let interesting = *v > i32::MAX as u128;
            rep.case(if interesting { Some(format!("C|{ctx}|{lit}")) } else { None });
            let input = json!({"stream": "unannotated-acceptance", "context": UCTX_NAMES[*ctx], "literal": lit, "source": uctx_src(*ctx, 0, lit)});
            let got = match res {
                Err(m) => format!("PANIC {}", m.chars().take(80).collect::<String>()),
                Ok(k) if k.is_empty() => "accepted".to_string(),
                Ok(k) => {
                    let mut k = k.clone();
                    k.sort();
                    k.dedup();
                    k.join(",")
                }
            };
            rep.hit(&format!("C:{}:{}", UCTX_NAMES[*ctx], if got == "accepted" { "accepted" } else { got.as_str() }));
            if ans != "?" {
                let predicted = if ans == "rej" { "ty:IntTooBigForType" } else { "accepted" };
                if predicted != got {
                    rep.disagree(input.clone(), json!(got), json!(format!("{predicted} ({ans})")));
                }
            }
            // oracle: a rejection (IntTooBigForType for the defaulted type) is allowed by the property;
            // anything else than accept/reject is not
            if got != "accepted" && got != "ty:IntTooBigForType" {
                rep.oracle_fail(&format!("default-{}", UCTX_NAMES[*ctx]), input, json!(got), json!("accepted, or rejected as too big for its default type"),
                    "an unannotated literal is neither accepted nor cleanly rejected");
            }
            if got == "accepted" {
                e2e_cases.push(E2eCase { how: UCTX_NAMES[*ctx], ty: None, lit: lit.clone(), value: *v });
            }
        }
    }

    // ---------------- stream D: end-to-end values ----------------
    if !e2e::available() {
        rep.notes.push("capy CLI binary missing: streams D/E (run-time values) skipped".into());
        return rep;
    }
    {
        // keep every boundary-adjacent case; thin the rest for the quick tier
        let cap = if widen { usize::MAX } else if thorough { 20000 } else { 2600 };
        if e2e_cases.len() > cap {
            let mut kept = vec![];
            let total = e2e_cases.len();
            for (i, c) in e2e_cases.iter().enumerate() {
                let near = (0..=64u32).any(|w| (c.value as i128 - (1i128 << w)).abs() <= 1);
                let plain = !c.lit.contains('_') && !c.lit.contains('e') && !c.lit.contains('E') && !c.lit.starts_with("0x") && !c.lit.starts_with("0b") && !c.lit.starts_with("00");
                if (near && plain) || rng.below(total as u64) < (cap as u64 / 2) {
                    kept.push(c.clone());
                }
                let _ = i;
            }
            e2e_cases = kept;
        }
        let per_prog = 120;
        let chunks: Vec<&[E2eCase]> = e2e_cases.chunks(per_prog).collect();
        let progs: Vec<Program> = chunks.iter().map(|c| Program::single(&e2e_program(c))).collect();
        let outcomes = e2e::run_all(&progs, e2e::Limits::default());
        let mut reqs = vec![];
        for c in &e2e_cases {
            reqs.push(match (c.how, c.ty) {
                (_, Some(t)) => format!("C09 accept {} {} {}", if t.0 { 1 } else { 0 }, t.1, c.value),
                ("neg", _) => format!("C09 defneg {}", c.value),
                ("global", _) => format!("C09 default 1 {}", c.value),
                _ => format!("C09 default 0 {}", c.value),
            });
        }
        let answers = lean::ask(&reqs);
        let mut ai = 0;
        for (chunk, out) in chunks.iter().zip(outcomes.iter()) {
            let lines = if out.built && out.run_status == Some(0) { Some(parse_lines(&out.run_out)) } else { None };
            if lines.is_none() {
                rep.hit("D:program-not-built-or-crashed");
            }
            for (k, c) in chunk.iter().enumerate() {
                let ans = &answers[ai];
                ai += 1;
                let tn = c.ty.map(ty_name).unwrap_or("-".into());
                rep.case(Some(format!("D|{}|{tn}|{}", c.how, c.lit)));
                rep.traces_validated += 1;
                let input = json!({"stream": "runtime-value", "how": c.how, "type": tn, "literal": c.lit});
                let got: String = match &lines {
                    None => format!("NOT-RUN({})", build_note(out)),
                    Some(m) => match m.get(&k) {
                        None => "MISSING-LINE".into(),
                        Some(bytes) => {
                            let s = String::from_utf8_lossy(bytes).to_string();
                            if matches!(c.ty, Some((_, 128))) {
                                // "hi lo" → one number (two's complement for i128)
                                let p: Vec<u128> = s.split(' ').filter_map(|x| x.parse::<u128>().ok()).collect();
                                if p.len() == 2 {
                                    let raw = (p[0] << 64) | p[1];
                                    if c.ty == Some((true, 128)) { (raw as i128).to_string() } else { raw.to_string() }
                                } else {
                                    format!("UNPARSABLE {s}")
                                }
                            } else {
                                s
                            }
                        }
                    },
                };
                let expect = if c.how == "neg" { "0".to_string() } else { c.value.to_string() };
                rep.hit(&format!("D:{}:{}", c.how, if got == expect { "value-kept" } else { "value-differs" }));
                if rep.evaluations % 499 == 1 {
                    rep.sample(json!({"how": c.how, "type": tn, "literal": c.lit, "printed": got}));
                }
                if ans != "?" {
                    let fv = field(ans, "final");
                    let model = if c.how == "neg" {
                        // the program prints (−x) + value
                        fv.parse::<i128>().map(|x| (c.value as i128 - x).to_string()).unwrap_or("?".into())
                    } else {
                        fv.to_string()
                    };
                    // core.println misprints negative numbers beyond 32 bits (`-4294967297` prints `-1`), so
                    // when model and program both say "negative" the digits are not compared
                    let both_negative = model.starts_with('-') && got.starts_with('-');
                    if model != got && !both_negative {
                        rep.disagree(input.clone(), json!(got), json!(format!("{model} ({ans})")));
                    }
                }
                if got != expect {
                    rep.oracle_fail(&e2e_label(c), input, json!(got), json!(expect), "an accepted literal does not keep its written value at run time");
                }
            }
        }

        // strings and chars at run time
        let mut sc: Vec<(char, Vec<Comp>)> = vec![];
        for c in ['a', 'b', 'f', 't', 'v', 'e', '"', '\'', '\\'] {
            sc.push(('"', vec![Comp::Text("x".into()), Comp::Esc(c), Comp::Text("y".into())]));
        }
        for c in ['0', 'a', 'b', 'n', 'f', 'r', 't', 'v', 'e', '"', '\'', '\\'] {
            sc.push(('\'', vec![Comp::Esc(c)]));
        }
        for t in ["a", " ", "~", "é", "ÿ", "\""] {
            sc.push(('\'', vec![Comp::Text(t.into())]));
        }
        for _ in 0..(if thorough { 300 } else { 60 }) {
            let mut comps = gen_comps(&mut rng, '"', 6);
            comps.retain(|c| match c {
                Comp::Esc(c) => matches!(c, 'a' | 'b' | 'f' | 't' | 'v' | 'e' | '"' | '\'' | '\\'),
                Comp::Text(_) => true,
            });
            sc.push(('"', comps));
        }
        let mut body = String::new();
        for (k, (q, comps)) in sc.iter().enumerate() {
            if *q == '"' {
                body.push_str(&format!("    core.println(\"#{k} \", \"{}\");\n", comps_src(comps)));
            } else {
                body.push_str(&format!("    core.println(\"#{k} \", u8.('{}'));\n", comps_src(comps)));
            }
        }
        let prog = Program::single(&format!("core :: #mod(\"core\");\nmain :: () {{\n{body}}}\n"));
        let out = e2e::run_all(&[prog], e2e::Limits::default()).pop().unwrap();
        let lines = if out.built && out.run_status == Some(0) { Some(parse_lines(&out.run_out)) } else { None };
        for (k, (q, comps)) in sc.iter().enumerate() {
            let lit = format!("{q}{}{q}", comps_src(comps));
            rep.case(Some(format!("D|lit|{lit}")));
            rep.traces_validated += 1;
            let spelled = comps_spelled(comps).unwrap_or_default();
            let expect: Vec<u8> = if *q == '"' { spelled.clone().into_bytes() } else { (spelled.chars().next().map(|c| c as u32).unwrap_or(0)).to_string().into_bytes() };
            let got: Vec<u8> = match &lines {
                None => format!("NOT-RUN({})", build_note(&out)).into_bytes(),
                Some(m) => m.get(&k).cloned().unwrap_or(b"MISSING-LINE".to_vec()),
            };
            rep.hit(if got == expect { "D:text:kept" } else { "D:text:differs" });
            if got != expect {
                rep.oracle_fail(
                    if *q == '"' { "runtime-string" } else { "runtime-char" },
                    json!({"stream": "runtime-text", "literal": lit}),
                    json!(lean::hex(&got)),
                    json!(lean::hex(&expect)),
                    "a string/char literal does not have the spelled bytes at run time",
                );
            }
        }
    }

    // ---------------- stream E: float literals ----------------
    {
        let mut lits: Vec<String> = [
            "0.0", "1.0", "0.1", "0.5", ".5", "1_0.2_5", "3.14159", "2.5e0", "1.0e10", "1.0E+10", "1.0e-10", "1_0.0e0_1",
            "16777216.0", "16777217.0", "16777219.0", "9007199254740993.0", "3.4028235e38", "3.4028236e38", "1.0e39",
            "1.0e-45", "1.4e-45", "7.0e-46", "1.17549435e-38", "4.9e-324", "2.0e-324", "1.7976931348623157e308", "1.8e308",
            "0.30000000000000004", "123456789.123456789", "1.0000000596046448", "1.00000005960464478", "1.00000005960464485",
            "1.0000001788139343", "1.00000017881393433", "1.00000017881393420",
        ]
        .iter()
        .map(|s| s.to_string())
        .collect();
        for _ in 0..(if widen { 6000 } else if thorough { 1500 } else { 150 }) {
            match rng.below(3) {
                0 => {
                    // f32 midpoints ± a sliver: decimal → f64 → f32 rounds twice
                    let bits = 0x3f80_0000u32 + (rng.below(1 << 23) as u32);
                    let x = f32::from_bits(bits) as f64;
                    let y = f32::from_bits(bits + 1) as f64;
                    let mid = (x + y) / 2.0;
                    let exact = format!("{:.30}", mid);
                    let exact = exact.trim_end_matches('0').to_string();
                    if rng.chance(1, 2) {
                        lits.push(format!("{exact}0000000001"));
                    } else {
                        // slightly below: decrement the last digit and append 9s
                        let mut b = exact.into_bytes();
                        let last = b.len() - 1;
                        if b[last] > b'0' && b[last] <= b'9' {
                            b[last] -= 1;
                            let mut s = String::from_utf8(b).unwrap();
                            s.push_str("9999999999");
                            lits.push(s);
                        }
                    }
                }
                1 => {
                    let ip = rng.below(1_000_000);
                    let fl = rng.below(20) as usize + 1;
                    let f: String = (0..fl).map(|_| char::from(b'0' + rng.below(10) as u8)).collect();
                    let mut s = format!("{ip}.{f}");
                    if rng.chance(1, 3) {
                        // separators inside the integer and the fraction part; the fraction must start with a digit
                        s = format!("{}.{}", with_separators(&mut rng, &ip.to_string()), with_separators(&mut rng, &f));
                    }
                    lits.push(s);
                }
                _ => {
                    let m = rng.below(100_000);
                    let f = rng.below(1_000_000_000);
                    let e = rng.range(-50, 45);
                    lits.push(format!("{m}.{f}{}{}{e}", if rng.chance(1, 2) { "e" } else { "E" }, if e >= 0 && rng.chance(1, 2) { "+" } else { "" }));
                }
            }
        }
        // (type, literal, as global?)
        let mut cases: Vec<(u32, String, bool)> = vec![];
        for (i, l) in lits.iter().enumerate() {
            cases.push((32, l.clone(), false));
            cases.push((64, l.clone(), false));
            if i % 5 == 0 {
                cases.push((32, l.clone(), true));
                cases.push((64, l.clone(), true));
            }
        }
        let per = 200;
        let chunks: Vec<&[(u32, String, bool)]> = cases.chunks(per).collect();
        let progs: Vec<Program> = chunks
            .iter()
            .map(|chunk| {
                let mut globals = String::new();
                let mut body = String::new();
                for (k, (w, l, g)) in chunk.iter().enumerate() {
                    if *g {
                        globals.push_str(&format!("e{k} : f{w} : {l};\n"));
                        body.push_str(&format!("    {{ x := e{k}; core.println(\"#{k} \", ^u{w}.(rawptr.(^x))^); }}\n"));
                    } else {
                        body.push_str(&format!("    {{ x : f{w} = {l}; core.println(\"#{k} \", ^u{w}.(rawptr.(^x))^); }}\n"));
                    }
                }
                Program::single(&format!("core :: #mod(\"core\");\n{globals}main :: () {{\n{body}}}\n"))
            })
            .collect();
        let outcomes = e2e::run_all(&progs, e2e::Limits::default());
        for (chunk, out) in chunks.iter().zip(outcomes.iter()) {
            let lines = if out.built && out.run_status == Some(0) { Some(parse_lines(&out.run_out)) } else { None };
            for (k, (w, l, g)) in chunk.iter().enumerate() {
                rep.case(Some(format!("E|{w}|{g}|{l}")));
                rep.traces_validated += 1;
                let clean = l.replace('_', "");
                let (expect, twice) = if *w == 32 {
                    (clean.parse::<f32>().unwrap().to_bits() as u64, (clean.parse::<f64>().unwrap() as f32).to_bits() as u64)
                } else {
                    let b = clean.parse::<f64>().unwrap().to_bits();
                    (b, b)
                };
                let got = match &lines {
                    None => format!("NOT-RUN({})", build_note(out)),
                    Some(m) => m.get(&k).map(|b| String::from_utf8_lossy(b).to_string()).unwrap_or("MISSING-LINE".into()),
                };
                let good = got == expect.to_string();
                rep.hit(&format!("E:f{w}:{}", if good { "nearest" } else { "not-nearest" }));
                if !good {
                    let label = if *w == 32 && got == twice.to_string() { "float-f32-double-rounding".to_string() } else { format!("float-f{w}") };
                    rep.oracle_fail(
                        &label,
                        json!({"stream": "float-literal", "type": format!("f{w}"), "literal": l, "global": g}),
                        json!(format!("bits {got}")),
                        json!(format!("bits {expect} (Rust str::parse::<f{w}>)")),
                        "a float literal is not the nearest value of its float type",
                    );
                }
            }
        }
    }
    rep
}

pub fn replay(input: &Value) -> String {
    let stream = input["stream"].as_str().unwrap_or("");
    match stream {
        "int-lowering" => {
            let kind = input["kind"].as_str().unwrap_or("dec");
            let text = input["text"].as_str().unwrap_or("0").to_string();
            let imp = lower_literals(&[text.clone()]).map(|mut r| r.pop().unwrap());
            let model = lean::ask(&[format!("C09 int {kind} {text}")]).pop().unwrap();
            let val = spelled_value(kind, &text);
            let expect = match val {
                Some(v) if v < U64_LIMIT => format!("ok:{v}"),
                _ => "oor".into(),
            };
            let got = match &imp {
                Ok((e, k)) if e.starts_with("ok:") && k.is_empty() => e.clone(),
                Ok((e, k)) if e == "missing" && k == &vec!["OutOfRangeIntLiteral".to_string()] => "oor".into(),
                other => format!("{:?}", other),
            };
            format!("implementation: {got}\nmodel: {model}\nspec: {expect}\n{}", if got != expect { "SPEC-MISMATCH" } else { "ok" })
        }
        "annotated-acceptance" | "unannotated-acceptance" => {
            let src = input["source"].as_str().unwrap_or("").to_string();
            let r = analyse_batch(&[src.clone()]).pop().unwrap();
            format!("source: {}\nimplementation diagnostics: {:?}\n(spec: see `spec` of the failure record) SPEC-MISMATCH-IF-DIFFERENT", src.trim(), r)
        }
        _ => format!("re-run ./check C09 with the same seed; input: {input}"),
    }
}
