//! C24 — expression precedence / associativity and print→parse round trip.
//!
//! Correspondence: the real `parser` (both `parse_repl_line` and `parse_source_file`
//! entry points, read back through the typed `ast` accessors only) vs the Lean model
//! parser (`C24 parse`), on the token list the real lexer produced; and vs the generated
//! tree itself (the Lean theorem says model-parse ∘ model-print = id).
//!
//! Oracle (written from the property text only, independent of expr.rs and of the Lean
//! model): (O1) `doc_tokens` — a printer that parenthesises by the documented 5-level
//! table — whose output the real parser must read back as exactly the printed tree, and
//! (O2) `ref_parse` — a tiny precedence-climbing parser over the documented table which
//! declines to answer (`Ambiguous`) when a postfix operator directly follows the bare
//! operand of a prefix operator, because the property text does not order those two.
use crate::lean;
use crate::report::Report;
use crate::rng::Rng;
use ast::{AstNode, AstToken, Expr};
use serde_json::{json, Value};
use std::panic::{catch_unwind, AssertUnwindSafe};
use std::time::Instant;
use syntax::SyntaxTree;

// ---------------------------------------------------------------------------------------
// alphabet

/// (TokenKind name, source text, documented level)
const BIN: [(&str, &str, u8); 18] = [
    ("DoublePipe", "||", 1),
    ("DoubleAnd", "&&", 2),
    ("Left", "<", 3),
    ("LeftEquals", "<=", 3),
    ("Right", ">", 3),
    ("RightEquals", ">=", 3),
    ("DoubleEquals", "==", 3),
    ("BangEquals", "!=", 3),
    ("Plus", "+", 4),
    ("Hyphen", "-", 4),
    ("Pipe", "|", 4),
    ("Tilde", "~", 4),
    ("Asterisk", "*", 5),
    ("Slash", "/", 5),
    ("Percent", "%", 5),
    ("And", "&", 5),
    ("DoubleLeft", "<<", 5),
    ("DoubleRight", ">>", 5),
];
const UN: [&str; 4] = ["Hyphen", "Plus", "Bang", "Tilde"];
const OTHER: [(&str, &str); 11] = [
    ("Bang", "!"),
    ("Caret", "^"),
    ("Mut", "mut"),
    ("Dot", "."),
    ("Try", "try"),
    ("LParen", "("),
    ("RParen", ")"),
    ("LBrack", "["),
    ("RBrack", "]"),
    ("Comma", ","),
    ("Equals", "="),
];

fn bin_static(name: &str) -> Option<&'static str> {
    BIN.iter().find(|b| b.0 == name).map(|b| b.0)
}
fn un_static(name: &str) -> Option<&'static str> {
    UN.iter().find(|u| **u == name).copied()
}
/// the documented level of a binary operator (property text: `||` < `&&` < comparisons <
/// `+ - | ~` < `* / % & << >>`)
fn doc_level(name: &str) -> Option<u8> {
    BIN.iter().find(|b| b.0 == name).map(|b| b.2)
}
fn kind_text(name: &str) -> Option<&'static str> {
    BIN.iter().find(|b| b.0 == name).map(|b| b.1).or_else(|| OTHER.iter().find(|o| o.0 == name).map(|o| o.1))
}
fn tok_text(tok: &str) -> String {
    if let Some(n) = tok.strip_prefix("Ident:") {
        format!("x{n}")
    } else if let Some(n) = tok.strip_prefix("Int:") {
        n.to_string()
    } else {
        kind_text(tok).unwrap_or_else(|| panic!("C24: unknown model token {tok}")).to_string()
    }
}

// ---------------------------------------------------------------------------------------
// trees

#[derive(Clone, PartialEq, Eq, Debug)]
enum Tree {
    Id(u64),
    Int(u64),
    Bin(&'static str, Box<Tree>, Box<Tree>),
    Un(&'static str, Box<Tree>),
    Ref(Box<Tree>),
    RefMut(Box<Tree>),
    Deref(Box<Tree>),
    Try(Box<Tree>),
    Field(Box<Tree>, u64),
    Index(Box<Tree>, Box<Tree>),
    Cast(Box<Tree>, Box<Tree>),
    Call(Box<Tree>, Vec<Tree>),
}
use Tree::*;

fn b(t: &Tree) -> Box<Tree> {
    Box::new(t.clone())
}

impl Tree {
    fn sexp(&self) -> String {
        let mut s = String::new();
        self.write(&mut s);
        s
    }
    fn write(&self, s: &mut String) {
        match self {
            Id(n) => s.push_str(&format!("(id {n})")),
            Int(n) => s.push_str(&format!("(int {n})")),
            Bin(op, l, r) => {
                s.push_str(&format!("(bin {op} "));
                l.write(s);
                s.push(' ');
                r.write(s);
                s.push(')');
            }
            Un(op, e) => {
                s.push_str(&format!("(un {op} "));
                e.write(s);
                s.push(')');
            }
            Ref(e) | RefMut(e) | Deref(e) | Try(e) => {
                s.push_str(match self {
                    Ref(_) => "(ref ",
                    RefMut(_) => "(refmut ",
                    Deref(_) => "(deref ",
                    _ => "(try ",
                });
                e.write(s);
                s.push(')');
            }
            Field(e, n) => {
                s.push_str("(field ");
                e.write(s);
                s.push_str(&format!(" {n})"));
            }
            Index(a, i) => {
                s.push_str("(index ");
                a.write(s);
                s.push(' ');
                i.write(s);
                s.push(')');
            }
            Cast(t, v) => {
                s.push_str("(cast ");
                t.write(s);
                s.push(' ');
                v.write(s);
                s.push(')');
            }
            Call(f, args) => {
                s.push_str("(call ");
                f.write(s);
                for a in args {
                    s.push(' ');
                    a.write(s);
                }
                s.push(')');
            }
        }
    }
    fn depth(&self) -> usize {
        1 + match self {
            Id(_) | Int(_) => 0,
            Bin(_, l, r) | Index(l, r) | Cast(l, r) => l.depth().max(r.depth()),
            Un(_, e) | Ref(e) | RefMut(e) | Deref(e) | Try(e) | Field(e, _) => e.depth(),
            Call(f, a) => a.iter().map(|x| x.depth()).max().unwrap_or(0).max(f.depth()),
        }
    }
    fn root(&self) -> &'static str {
        match self {
            Id(_) => "id",
            Int(_) => "int",
            Bin(..) => "bin",
            Un(..) => "un",
            Ref(_) => "ref",
            RefMut(_) => "refmut",
            Deref(_) => "deref",
            Try(_) => "try",
            Field(..) => "field",
            Index(..) => "index",
            Cast(..) => "cast",
            Call(..) => "call",
        }
    }
    fn is_atom(&self) -> bool {
        matches!(self, Id(_) | Int(_))
    }
    fn is_prefix(&self) -> bool {
        matches!(self, Un(..) | Ref(_) | RefMut(_))
    }
    fn is_bin(&self) -> bool {
        matches!(self, Bin(..))
    }
    /// number of Call + Cast nodes (each owns exactly one LParen in a minimal print)
    fn own_parens(&self) -> usize {
        match self {
            Id(_) | Int(_) => 0,
            Bin(_, l, r) | Index(l, r) => l.own_parens() + r.own_parens(),
            Cast(l, r) => 1 + l.own_parens() + r.own_parens(),
            Un(_, e) | Ref(e) | RefMut(e) | Deref(e) | Try(e) | Field(e, _) => e.own_parens(),
            Call(f, a) => 1 + f.own_parens() + a.iter().map(|x| x.own_parens()).sum::<usize>(),
        }
    }
}

/// parse the canonical S-expression back into a `Tree` (replay only)
fn parse_sexp(s: &str) -> Option<Tree> {
    let mut toks: Vec<String> = vec![];
    let mut cur = String::new();
    for c in s.chars() {
        match c {
            '(' | ')' => {
                if !cur.is_empty() {
                    toks.push(std::mem::take(&mut cur));
                }
                toks.push(c.to_string());
            }
            c if c.is_whitespace() => {
                if !cur.is_empty() {
                    toks.push(std::mem::take(&mut cur));
                }
            }
            c => cur.push(c),
        }
    }
    if !cur.is_empty() {
        toks.push(cur);
    }
    fn go(t: &[String], i: &mut usize) -> Option<Tree> {
        if t.get(*i)? != "(" {
            return None;
        }
        *i += 1;
        let head = t.get(*i)?.clone();
        *i += 1;
        let num = |t: &[String], i: &mut usize| -> Option<u64> {
            let n = t.get(*i)?.parse().ok()?;
            *i += 1;
            Some(n)
        };
        let r = match head.as_str() {
            "id" => Id(num(t, i)?),
            "int" => Int(num(t, i)?),
            "bin" => {
                let op = bin_static(t.get(*i)?)?;
                *i += 1;
                let l = go(t, i)?;
                let r = go(t, i)?;
                Bin(op, Box::new(l), Box::new(r))
            }
            "un" => {
                let op = un_static(t.get(*i)?)?;
                *i += 1;
                Un(op, Box::new(go(t, i)?))
            }
            "ref" => Ref(Box::new(go(t, i)?)),
            "refmut" => RefMut(Box::new(go(t, i)?)),
            "deref" => Deref(Box::new(go(t, i)?)),
            "try" => Try(Box::new(go(t, i)?)),
            "field" => {
                let e = go(t, i)?;
                Field(Box::new(e), num(t, i)?)
            }
            "index" => {
                let a = go(t, i)?;
                Index(Box::new(a), Box::new(go(t, i)?))
            }
            "cast" => {
                let a = go(t, i)?;
                Cast(Box::new(a), Box::new(go(t, i)?))
            }
            "call" => {
                let f = go(t, i)?;
                let mut args = vec![];
                while t.get(*i)? != ")" {
                    args.push(go(t, i)?);
                }
                Call(Box::new(f), args)
            }
            _ => return None,
        };
        if t.get(*i)? != ")" {
            return None;
        }
        *i += 1;
        Some(r)
    }
    let mut i = 0;
    let r = go(&toks, &mut i)?;
    if i == toks.len() {
        Some(r)
    } else {
        None
    }
}

// ---------------------------------------------------------------------------------------
// rendering model tokens as source text

#[derive(Clone, Copy, PartialEq, Eq, Debug)]
enum Spacing {
    Single,
    Tight,
    Ws,
    /// probe of the `dot-whitespace-panic` class only
    Spaced,
}

thread_local! {
    /// distinct panic messages seen in /repo code (reported in `notes`)
    static PANICS: std::cell::RefCell<std::collections::BTreeMap<String, u64>> = Default::default();
}
fn note_panic(site: &str, e: Box<dyn std::any::Any + Send>) {
    let msg = e.downcast_ref::<String>().cloned().or_else(|| e.downcast_ref::<&str>().map(|s| s.to_string())).unwrap_or_else(|| "?".into());
    let msg: String = msg.chars().take(160).collect();
    PANICS.with(|p| *p.borrow_mut().entry(format!("{site}: {msg}")).or_insert(0) += 1);
}

/// non-trivia (kind name, text) of the real lexer; a panic of the lexer → None
fn lex_pairs(src: &str) -> Option<Vec<(String, String)>> {
    catch_unwind(AssertUnwindSafe(|| {
        let toks = lexer::lex(src);
        let mut v = vec![];
        // (not `Tokens::iter()`: its `zip_eq` of n kinds with n+1 starts always panics)
        for idx in 0..toks.len() {
            let (kind, range) = (toks.kind(idx), toks.range(idx));
            let name = format!("{kind:?}");
            if name == "Whitespace" {
                continue;
            }
            v.push((name, src[range].to_string()));
        }
        v
    }))
    .map_err(|e| note_panic("lexer", e))
    .ok()
}

/// HISTORY: until /repo fix 91f8795 (`bump` now skips trivia) the following held, and the code
/// below still guards against its return (label `dot-whitespace-panic`, status `fixed` in
/// known_findings.json, so a recurrence is reported as a VIOLATION):
/// `. try` / `. (` with trivia between the two tokens crashes the real parser (finding
/// `dot-whitespace-panic`: `p.bump(); p.bump();` in parse_post_operators / parse_cast does not
/// skip trivia between the bumps). The ordinary renderings therefore keep these two tokens
/// glued so that the precedence checks on casts and `.try` stay meaningful; the class itself
/// is probed separately with `Spacing::Spaced`.
///
/// The same double bump exists in stmt.rs for quick assignment (`x0 + = x1` with trivia between
/// the operator and `=` panics); it can only be reached from S5 soups (`=` never occurs in an
/// expression) and is outside C24, so those two tokens are kept glued as well and the crash is
/// only probed and mentioned in `notes`.
fn dot_joint(toks: &[String], i: usize) -> bool {
    const QUICK: [&str; 10] = ["Plus", "Hyphen", "Pipe", "Tilde", "Asterisk", "Slash", "Percent", "And", "DoubleLeft", "DoubleRight"];
    i > 0
        && ((toks[i - 1] == "Dot" && (toks[i] == "Try" || toks[i] == "LParen"))
            || (toks[i] == "Equals" && QUICK.contains(&toks[i - 1].as_str())))
}

fn render_single(toks: &[String]) -> String {
    let mut s = String::new();
    for (i, t) in toks.iter().enumerate() {
        if i > 0 && !dot_joint(toks, i) {
            s.push(' ');
        }
        s.push_str(&tok_text(t));
    }
    s
}

/// a single space at every joint, including after `.`
fn render_spaced(toks: &[String]) -> String {
    toks.iter().map(|t| tok_text(t)).collect::<Vec<_>>().join(" ")
}

/// does `src` have trivia between a `.` and a directly following `try` / `(` ?
fn has_dot_space(src: &str) -> bool {
    catch_unwind(AssertUnwindSafe(|| {
        let toks = lexer::lex(src);
        let kinds: Vec<String> = (0..toks.len()).map(|i| format!("{:?}", toks.kind(i))).collect();
        let mut i = 0;
        while i < kinds.len() {
            if kinds[i] == "Dot" {
                let mut j = i + 1;
                while j < kinds.len() && matches!(kinds[j].as_str(), "Whitespace" | "CommentLeader" | "CommentContents") {
                    j += 1;
                }
                if j > i + 1 && j < kinds.len() && (kinds[j] == "Try" || kinds[j] == "LParen") {
                    return true;
                }
            }
            i += 1;
        }
        false
    }))
    .unwrap_or(false)
}

/// no space between two tokens unless gluing them changes what the real lexer sees
fn render_tight(toks: &[String]) -> String {
    let single = render_single(toks);
    let Some(want) = lex_pairs(&single) else { return single };
    if want.len() != toks.len() {
        return single;
    }
    let mut cur = String::new();
    for (i, t) in toks.iter().enumerate() {
        let text = tok_text(t);
        if i == 0 {
            cur.push_str(&text);
            continue;
        }
        let glued = format!("{cur}{text}");
        let ok = lex_pairs(&glued).map(|p| p.len() == i + 1 && p[..] == want[..=i]).unwrap_or(false);
        if ok {
            cur = glued;
        } else {
            cur.push(' ');
            cur.push_str(&text);
        }
    }
    match lex_pairs(&cur) {
        Some(p) if p == want => cur,
        _ => single,
    }
}

fn render_ws(toks: &[String], rng: &mut Rng) -> String {
    const WS: [&str; 5] = [" ", " ", "\t", "\n", "\r\n"];
    let mut s = String::new();
    let gap = |s: &mut String, rng: &mut Rng, min: u64| {
        let n = min + rng.below(3);
        for _ in 0..n {
            s.push_str(*rng.pick(&WS[..]));
        }
    };
    gap(&mut s, rng, 0);
    for (i, t) in toks.iter().enumerate() {
        if i > 0 && !dot_joint(toks, i) {
            gap(&mut s, rng, 1);
        }
        s.push_str(&tok_text(t));
    }
    gap(&mut s, rng, 0);
    s
}

fn render(toks: &[String], sp: Spacing, rng: &mut Rng) -> String {
    match sp {
        Spacing::Single => render_single(toks),
        Spacing::Tight => render_tight(toks),
        Spacing::Ws => render_ws(toks, rng),
        Spacing::Spaced => render_spaced(toks),
    }
}

// ---------------------------------------------------------------------------------------
// REAL side

fn canon_num(s: &str) -> Option<u64> {
    if s.is_empty() || !s.bytes().all(|c| c.is_ascii_digit()) || (s.len() > 1 && s.starts_with('0')) {
        return None;
    }
    s.parse().ok()
}
fn ident_num(s: &str) -> Option<u64> {
    canon_num(s.strip_prefix('x')?)
}

fn binop_name(op: ast::BinaryOp) -> &'static str {
    use ast::BinaryOp as B;
    match op {
        B::Add(_) => "Plus",
        B::Sub(_) => "Hyphen",
        B::Mul(_) => "Asterisk",
        B::Div(_) => "Slash",
        B::Mod(_) => "Percent",
        B::Lt(_) => "Left",
        B::Gt(_) => "Right",
        B::Le(_) => "LeftEquals",
        B::Ge(_) => "RightEquals",
        B::Eq(_) => "DoubleEquals",
        B::Ne(_) => "BangEquals",
        B::BAnd(_) => "And",
        B::BOr(_) => "Pipe",
        B::Xor(_) => "Tilde",
        B::LShift(_) => "DoubleLeft",
        B::RShift(_) => "DoubleRight",
        B::LAnd(_) => "DoubleAnd",
        B::LOr(_) => "DoublePipe",
        // an operator added after this harness was written: outside the modelled operator set
        #[allow(unreachable_patterns)]
        _ => "UnknownBinaryOp",
    }
}
fn unop_name(op: ast::UnaryOp) -> &'static str {
    use ast::UnaryOp as U;
    match op {
        U::Pos(_) => "Plus",
        U::Neg(_) => "Hyphen",
        U::BNot(_) => "Tilde",
        U::LNot(_) => "Bang",
        #[allow(unreachable_patterns)]
        _ => "UnknownUnaryOp",
    }
}

/// typed accessors only
fn conv(e: Option<Expr>, t: &SyntaxTree) -> String {
    let Some(e) = e else { return "(missing)".into() };
    match e {
        Expr::Paren(p) => conv(p.expr(t), t),
        Expr::VarRef(v) => match v.name(t) {
            Some(id) => match ident_num(id.text(t)) {
                Some(n) => format!("(id {n})"),
                None => format!("(noncore VarRef:{})", id.text(t)),
            },
            None => "(missing)".into(),
        },
        Expr::IntLiteral(l) => match l.value(t) {
            Some(ast::IntValue::Dec(tok)) => match canon_num(tok.text(t)) {
                Some(n) => format!("(int {n})"),
                None => format!("(noncore IntLiteral:{})", tok.text(t)),
            },
            Some(_) => "(noncore IntLiteral:hex/bin)".into(),
            None => "(missing)".into(),
        },
        Expr::Binary(x) => {
            let op = x.op(t).map(binop_name).unwrap_or("(missing)");
            format!("(bin {} {} {})", op, conv(x.lhs(t), t), conv(x.rhs(t), t))
        }
        Expr::Unary(x) => {
            let op = x.op(t).map(unop_name).unwrap_or("(missing)");
            format!("(un {} {})", op, conv(x.expr(t), t))
        }
        Expr::Ref(x) => {
            format!("({} {})", if x.mutable(t).is_some() { "refmut" } else { "ref" }, conv(x.expr(t), t))
        }
        Expr::Deref(x) => format!("(deref {})", conv(x.pointer(t), t)),
        Expr::Propagate(x) => format!("(try {})", conv(x.expr(t), t)),
        Expr::Path(x) => {
            let base = conv(x.previous_part(t), t);
            match x.field_name(t) {
                Some(id) => match ident_num(id.text(t)) {
                    Some(n) => format!("(field {base} {n})"),
                    None => format!("(field {base} (noncore Field:{}))", id.text(t)),
                },
                None => format!("(field {base} (missing))"),
            }
        }
        Expr::IndexExpr(x) => {
            let a = match x.array(t) {
                Some(s) => conv(s.value(t), t),
                None => "(missing)".into(),
            };
            let i = match x.index(t) {
                Some(s) => conv(s.value(t), t),
                None => "(missing)".into(),
            };
            format!("(index {a} {i})")
        }
        Expr::Cast(x) => {
            let ty = match x.ty(t) {
                Some(ty) => conv(ty.expr(t), t),
                None => "(missing)".into(),
            };
            format!("(cast {} {})", ty, conv(x.expr(t), t))
        }
        Expr::Call(x) => {
            let mut s = format!("(call {}", conv(x.callee(t), t));
            match x.arg_list(t) {
                Some(al) => {
                    for a in al.args(t) {
                        s.push(' ');
                        s.push_str(&conv(a.value(t), t));
                    }
                }
                None => s.push_str(" (missing)"),
            }
            s.push(')');
            s
        }
        other => {
            let d = format!("{other:?}");
            let variant = d.split('(').next().unwrap_or("?").to_string();
            format!("(noncore {variant})")
        }
    }
}

/// entry (a): one repl line
fn real_repl(src: &str) -> String {
    catch_unwind(AssertUnwindSafe(|| {
        let parse = parser::parse_repl_line(&lexer::lex(src), src);
        let n = parse.errors().len();
        if n > 0 {
            return format!("ERR {n} errors");
        }
        let tree = parse.into_syntax_tree();
        let Some(root) = ast::Root::cast(tree.root(), &tree) else { return "(noncore NoRoot)".into() };
        let stmts: Vec<ast::Stmt> = root.stmts(&tree).collect();
        if stmts.len() != 1 {
            return format!("(noncore stmts={})", stmts.len());
        }
        match stmts[0] {
            ast::Stmt::Expr(es) => conv(es.expr(&tree), &tree),
            other => {
                let d = format!("{other:?}");
                format!("(noncore Stmt:{})", d.split('(').next().unwrap_or("?"))
            }
        }
    }))
    .unwrap_or_else(|e| {
        note_panic("parser/ast", e);
        "PANIC".into()
    })
}

/// entry (b): the value of a top-level binding
fn real_binding(src: &str) -> String {
    let text = format!("v :: {src};");
    catch_unwind(AssertUnwindSafe(|| {
        let parse = parser::parse_source_file(&lexer::lex(&text), &text);
        let n = parse.errors().len();
        if n > 0 {
            return format!("ERR {n} errors");
        }
        let tree = parse.into_syntax_tree();
        let Some(root) = ast::Root::cast(tree.root(), &tree) else { return "(noncore NoRoot)".into() };
        let defs: Vec<ast::Define> = root.defs(&tree).collect();
        if defs.len() != 1 {
            return format!("(noncore defs={})", defs.len());
        }
        match defs[0] {
            ast::Define::Binding(bd) => conv(bd.value(&tree), &tree),
            ast::Define::Variable(_) => "(noncore Define:Variable)".into(),
        }
    }))
    .unwrap_or_else(|e| {
        note_panic("parser/ast", e);
        "PANIC".into()
    })
}

/// entry (c): the expression as an `if` condition, i.e. directly followed by `{`, behind `parens`
/// layers of redundant parentheses (0, 1 or 2). `(x) {` is where the parser has to tell a
/// parenthesised expression from the parameter list of a lambda (seeded change C24_2: `((x)) {` was
/// taken for a lambda). conv() drops parentheses, so the result must equal entry (b)'s.
fn real_condition(src: &str, parens: usize) -> String {
    let text = format!("v :: () {{ if {}{src}{} {{ }} }};", "(".repeat(parens), ")".repeat(parens));
    catch_unwind(AssertUnwindSafe(|| {
        let parse = parser::parse_source_file(&lexer::lex(&text), &text);
        let n = parse.errors().len();
        if n > 0 {
            return format!("ERR {n} errors");
        }
        let tree = parse.into_syntax_tree();
        let Some(root) = ast::Root::cast(tree.root(), &tree) else { return "(noncore NoRoot)".into() };
        let defs: Vec<ast::Define> = root.defs(&tree).collect();
        if defs.len() != 1 {
            return format!("(noncore defs={})", defs.len());
        }
        let ast::Define::Binding(bd) = defs[0] else { return "(noncore Define:Variable)".into() };
        let Some(Expr::Lambda(l)) = bd.value(&tree) else { return "(noncore not-a-lambda)".into() };
        let Some(Expr::Block(b)) = l.body(&tree) else { return "(noncore no-block-body)".into() };
        let first = b.stmts(&tree).next().and_then(|s| match s {
            ast::Stmt::Expr(es) => es.expr(&tree),
            _ => None,
        });
        let e = first.or_else(|| b.tail_expr(&tree));
        let Some(Expr::If(i)) = e else { return "(noncore no-if)".into() };
        conv(i.condition(&tree), &tree)
    }))
    .unwrap_or_else(|e| {
        note_panic("parser/ast", e);
        "PANIC".into()
    })
}

/// the real lexer's tokens as model tokens; None when a kind is outside the model alphabet
fn lex_model(src: &str) -> Option<Vec<String>> {
    let pairs = lex_pairs(src)?;
    let mut out = vec![];
    for (kind, text) in pairs {
        match kind.as_str() {
            "Ident" => out.push(format!("Ident:{}", ident_num(&text)?)),
            "Int" => out.push(format!("Int:{}", canon_num(&text)?)),
            k if kind_text(k).is_some() => out.push(k.to_string()),
            _ => return None,
        }
    }
    Some(out)
}

fn is_fail(real: &str) -> bool {
    real.starts_with("ERR") || real == "PANIC"
}
fn is_clean(real: &str) -> bool {
    !is_fail(real) && !real.contains("(noncore") && !real.contains("(missing")
}
/// model `none` ⇔ real reports errors or builds nodes outside the core; model sexp ⇔ real is
/// exactly that sexp, error-free. A panic never agrees.
fn model_agrees(model: &str, real: &str) -> bool {
    if model == "?" {
        return true;
    }
    if model == "none" {
        !is_clean(real) && real != "PANIC"
    } else {
        is_clean(real) && model == real
    }
}

// ---------------------------------------------------------------------------------------
// ORACLE (from the property text only)

/// (O1) documented-table printer, as model tokens
fn doc_tokens(t: &Tree, out: &mut Vec<String>) {
    fn paren(t: &Tree, out: &mut Vec<String>) {
        out.push("LParen".into());
        doc_tokens(t, out);
        out.push("RParen".into());
    }
    fn prefix_operand(e: &Tree, out: &mut Vec<String>) {
        if e.is_atom() || e.is_prefix() {
            doc_tokens(e, out)
        } else {
            paren(e, out)
        }
    }
    fn postfix_base(e: &Tree, out: &mut Vec<String>) {
        if e.is_bin() || e.is_prefix() {
            paren(e, out)
        } else {
            doc_tokens(e, out)
        }
    }
    match t {
        Id(n) => out.push(format!("Ident:{n}")),
        Int(n) => out.push(format!("Int:{n}")),
        Bin(op, l, r) => {
            let lv = doc_level(op).unwrap();
            match &**l {
                Bin(lo, ..) if doc_level(lo).unwrap() < lv => paren(l, out),
                _ => doc_tokens(l, out),
            }
            out.push(op.to_string());
            match &**r {
                Bin(ro, ..) if doc_level(ro).unwrap() <= lv => paren(r, out),
                _ => doc_tokens(r, out),
            }
        }
        Un(op, e) => {
            out.push(op.to_string());
            prefix_operand(e, out);
        }
        Ref(e) => {
            out.push("Caret".into());
            prefix_operand(e, out);
        }
        RefMut(e) => {
            out.push("Caret".into());
            out.push("Mut".into());
            prefix_operand(e, out);
        }
        Deref(e) => {
            postfix_base(e, out);
            out.push("Caret".into());
        }
        Try(e) => {
            postfix_base(e, out);
            out.push("Dot".into());
            out.push("Try".into());
        }
        Field(e, n) => {
            postfix_base(e, out);
            out.push("Dot".into());
            out.push(format!("Ident:{n}"));
        }
        Index(a, i) => {
            postfix_base(a, out);
            out.push("LBrack".into());
            doc_tokens(i, out);
            out.push("RBrack".into());
        }
        Cast(ty, v) => {
            postfix_base(ty, out);
            out.push("Dot".into());
            out.push("LParen".into());
            doc_tokens(v, out);
            out.push("RParen".into());
        }
        Call(f, args) => {
            postfix_base(f, out);
            out.push("LParen".into());
            for (i, a) in args.iter().enumerate() {
                if i > 0 {
                    out.push("Comma".into());
                }
                doc_tokens(a, out);
            }
            out.push("RParen".into());
        }
    }
}

#[derive(Debug, PartialEq)]
enum RefRes {
    Parsed(Tree),
    Ambiguous,
    Invalid,
}

/// (O2) reference parser over the documented table
struct RefParser<'a> {
    t: &'a [String],
    i: usize,
    ambiguous: bool,
}

impl<'a> RefParser<'a> {
    fn peek(&self) -> Option<&'a str> {
        self.t.get(self.i).map(|s| s.as_str())
    }
    fn eat(&mut self, k: &str) -> Option<()> {
        if self.peek()? == k {
            self.i += 1;
            Some(())
        } else {
            None
        }
    }
    fn expr(&mut self, min: u8) -> Option<Tree> {
        let mut lhs = self.prefix()?;
        loop {
            let Some(k) = self.peek() else { break };
            let Some(lv) = doc_level(k) else { break };
            if lv < min {
                break;
            }
            let op = bin_static(k).unwrap();
            self.i += 1;
            // left-associative: the right operand may only contain tighter operators
            let rhs = self.expr(lv + 1)?;
            lhs = Bin(op, Box::new(lhs), Box::new(rhs));
        }
        Some(lhs)
    }
    fn at_prefix(&self) -> bool {
        matches!(self.peek(), Some("Hyphen" | "Plus" | "Bang" | "Tilde" | "Caret"))
    }
    fn at_postfix(&self) -> bool {
        matches!(self.peek(), Some("LParen" | "LBrack" | "Dot" | "Caret"))
    }
    fn prefix(&mut self) -> Option<Tree> {
        match self.peek()? {
            k @ ("Hyphen" | "Plus" | "Bang" | "Tilde") => {
                self.i += 1;
                let e = self.prefix_operand()?;
                Some(Un(un_static(k).unwrap(), Box::new(e)))
            }
            "Caret" => {
                self.i += 1;
                let m = self.eat("Mut").is_some();
                let e = self.prefix_operand()?;
                Some(if m { RefMut(Box::new(e)) } else { Ref(Box::new(e)) })
            }
            _ => {
                let p = self.primary()?;
                self.postfix(p)
            }
        }
    }
    fn prefix_operand(&mut self) -> Option<Tree> {
        if self.at_prefix() {
            return self.prefix();
        }
        let p = self.primary()?;
        if self.at_postfix() {
            // `-a.b`, `-a^`, `^a.(v)`, `-(a)(b)`: the property does not say which binds first
            self.ambiguous = true;
            return None;
        }
        Some(p)
    }
    fn primary(&mut self) -> Option<Tree> {
        let k = self.peek()?;
        if let Some(n) = k.strip_prefix("Ident:") {
            self.i += 1;
            return Some(Id(n.parse().ok()?));
        }
        if let Some(n) = k.strip_prefix("Int:") {
            self.i += 1;
            return Some(Int(n.parse().ok()?));
        }
        if k == "LParen" {
            self.i += 1;
            let e = self.expr(1)?;
            self.eat("RParen")?;
            return Some(e);
        }
        None
    }
    fn postfix(&mut self, base: Tree) -> Option<Tree> {
        let mut cur = base;
        loop {
            match self.peek() {
                Some("Caret") => {
                    self.i += 1;
                    cur = Deref(Box::new(cur));
                }
                Some("LBrack") => {
                    self.i += 1;
                    let ix = self.expr(1)?;
                    self.eat("RBrack")?;
                    cur = Index(Box::new(cur), Box::new(ix));
                }
                Some("LParen") => {
                    self.i += 1;
                    let mut args = vec![];
                    if self.peek()? != "RParen" {
                        loop {
                            args.push(self.expr(1)?);
                            if self.eat("Comma").is_none() {
                                break;
                            }
                        }
                    }
                    self.eat("RParen")?;
                    cur = Call(Box::new(cur), args);
                }
                Some("Dot") => {
                    self.i += 1;
                    let k = self.peek()?;
                    if k == "LParen" {
                        self.i += 1;
                        let v = self.expr(1)?;
                        self.eat("RParen")?;
                        cur = Cast(Box::new(cur), Box::new(v));
                    } else if k == "Try" {
                        self.i += 1;
                        cur = Try(Box::new(cur));
                    } else if let Some(n) = k.strip_prefix("Ident:") {
                        self.i += 1;
                        cur = Field(Box::new(cur), n.parse().ok()?);
                    } else {
                        return None;
                    }
                }
                _ => return Some(cur),
            }
        }
    }
}

fn ref_parse(toks: &[String]) -> RefRes {
    let mut p = RefParser { t: toks, i: 0, ambiguous: false };
    let r = p.expr(1);
    if p.ambiguous {
        return RefRes::Ambiguous;
    }
    match r {
        Some(t) if p.i == toks.len() => RefRes::Parsed(t),
        _ => RefRes::Invalid,
    }
}

// ---------------------------------------------------------------------------------------
// generators

/// all trees whose root has children drawn from `sub` (second call argument from `arg2`)
fn layer(sub: &[Tree], binops: &[&'static str], field: u64, arg2: &[Tree], out: &mut Vec<Tree>) {
    for op in binops {
        for l in sub {
            for r in sub {
                out.push(Bin(op, b(l), b(r)));
            }
        }
    }
    for e in sub {
        for op in UN {
            out.push(Un(op, b(e)));
        }
        out.push(Ref(b(e)));
        out.push(RefMut(b(e)));
        out.push(Deref(b(e)));
        out.push(Try(b(e)));
        out.push(Field(b(e), field));
        out.push(Call(b(e), vec![]));
    }
    for x in sub {
        for y in sub {
            out.push(Index(b(x), b(y)));
            out.push(Cast(b(x), b(y)));
            out.push(Call(b(x), vec![y.clone()]));
            for z in arg2 {
                out.push(Call(b(x), vec![y.clone(), z.clone()]));
            }
        }
    }
}

/// all binary-only trees with k operators, leaves x{leaf}.. in order, every op everywhere
fn bin_trees(k: usize, leaf: u64) -> Vec<Tree> {
    if k == 0 {
        return vec![Id(leaf)];
    }
    let mut out = vec![];
    for i in 0..k {
        let ls = bin_trees(i, leaf);
        let rs = bin_trees(k - 1 - i, leaf + i as u64 + 1);
        for l in &ls {
            for r in &rs {
                for op in BIN {
                    out.push(Bin(op.0, b(l), b(r)));
                }
            }
        }
    }
    out
}

fn random_tree(rng: &mut Rng, depth: usize, max_args: u64) -> Tree {
    if depth <= 1 || rng.chance(1, 6) {
        return if rng.chance(2, 3) { Id(rng.below(5)) } else { Int(rng.below(100)) };
    }
    let sub = |rng: &mut Rng| Box::new(random_tree(rng, depth - 1, max_args));
    match rng.below(100) {
        0..=37 => Bin(rng.pick(&BIN[..]).0, sub(rng), sub(rng)),
        38..=47 => Un(*rng.pick(&UN[..]), sub(rng)),
        48..=51 => Ref(sub(rng)),
        52..=55 => RefMut(sub(rng)),
        56..=62 => Deref(sub(rng)),
        63..=67 => Try(sub(rng)),
        68..=74 => Field(sub(rng), rng.below(5)),
        75..=81 => Index(sub(rng), sub(rng)),
        82..=88 => Cast(sub(rng), sub(rng)),
        _ => {
            let f = sub(rng);
            let n = rng.below(max_args + 1);
            Call(f, (0..n).map(|_| *sub(rng)).collect())
        }
    }
}

fn soup_alphabet_token(rng: &mut Rng) -> String {
    match rng.below(40) {
        0..=5 => format!("Ident:{}", rng.below(5)),
        6..=8 => format!("Int:{}", rng.below(100)),
        9..=26 => rng.pick(&BIN[..]).0.to_string(),
        n => OTHER[(n as usize - 27) % OTHER.len()].0.to_string(),
    }
}

/// biased towards operand/operator alternation so that many soups are valid expressions
fn random_soup(rng: &mut Rng) -> Vec<String> {
    let n = 1 + rng.below(9) as usize;
    let mut out: Vec<String> = vec![];
    let mut want_operand = true;
    let mut open: Vec<&str> = vec![];
    while out.len() < n {
        if rng.chance(1, 7) {
            out.push(soup_alphabet_token(rng));
            continue;
        }
        if want_operand {
            match rng.below(10) {
                0..=5 => {
                    out.push(if rng.chance(3, 4) { format!("Ident:{}", rng.below(5)) } else { format!("Int:{}", rng.below(100)) });
                    want_operand = false;
                }
                6 | 7 => out.push(rng.pick(&UN[..]).to_string()),
                8 => {
                    out.push("Caret".into());
                    if rng.chance(1, 3) {
                        out.push("Mut".into());
                    }
                }
                _ => {
                    out.push("LParen".into());
                    open.push("RParen");
                }
            }
        } else {
            match rng.below(16) {
                0..=5 => {
                    out.push(rng.pick(&BIN[..]).0.to_string());
                    want_operand = true;
                }
                6 => out.push("Caret".into()),
                7 => {
                    out.push("Dot".into());
                    out.push(format!("Ident:{}", rng.below(5)));
                }
                8 => {
                    out.push("Dot".into());
                    out.push("Try".into());
                }
                9 => {
                    out.push("Dot".into());
                    out.push("LParen".into());
                    open.push("RParen");
                    want_operand = true;
                }
                10 => {
                    out.push("LParen".into());
                    open.push("RParen");
                    if rng.chance(1, 3) {
                        out.push(open.pop().unwrap().into());
                    } else {
                        want_operand = true;
                    }
                }
                11 => {
                    out.push("LBrack".into());
                    open.push("RBrack");
                    want_operand = true;
                }
                12 => {
                    out.push("Comma".into());
                    want_operand = true;
                }
                _ => {
                    if let Some(c) = open.pop() {
                        out.push(c.into());
                    } else {
                        out.push(rng.pick(&BIN[..]).0.to_string());
                        want_operand = true;
                    }
                }
            }
        }
    }
    // usually close what is open (may exceed n a little; the cap below keeps 1..9 honest)
    if rng.chance(3, 4) {
        while let Some(c) = open.pop() {
            out.push(c.into());
        }
    }
    out.truncate(9);
    out
}

fn mutate(rng: &mut Rng, toks: &[String]) -> Vec<String> {
    let mut v = toks.to_vec();
    match rng.below(3) {
        0 if v.len() > 1 => {
            let i = rng.below(v.len() as u64) as usize;
            v.remove(i);
        }
        1 => {
            let i = rng.below(v.len() as u64 + 1) as usize;
            v.insert(i, soup_alphabet_token(rng));
        }
        _ => {
            let i = rng.below(v.len() as u64) as usize;
            v[i] = soup_alphabet_token(rng);
        }
    }
    v
}

// ---------------------------------------------------------------------------------------
// the per-case pipeline for generated trees

#[derive(Clone)]
enum Printer {
    Lean(String), // mode
    Doc,
}

struct Job {
    tree: Tree,
    printer: Printer,
    spacing: Spacing,
}

struct Ctx<'a> {
    rep: &'a mut Report,
    rng: &'a mut Rng,
    stats: std::collections::BTreeMap<String, u64>,
}

impl<'a> Ctx<'a> {
    fn stat(&mut self, k: &str) {
        *self.stats.entry(k.to_string()).or_insert(0) += 1;
    }
}

fn mode_label(mode: &str) -> &str {
    if mode.starts_with("hash") {
        "hash"
    } else {
        mode
    }
}

fn run_jobs(stream: &'static str, jobs: Vec<Job>, cx: &mut Ctx) {
    for chunk in jobs.chunks(50_000) {
        run_chunk(stream, chunk, cx);
    }
}

fn run_chunk(stream: &'static str, jobs: &[Job], cx: &mut Ctx) {
    // 1. printing
    let mut preq = vec![];
    for j in jobs {
        if let Printer::Lean(mode) = &j.printer {
            preq.push(format!("C24 print {} {}", mode, j.tree.sexp()));
        }
    }
    let mut pans = lean::ask(&preq).into_iter();
    let mut toks_all: Vec<Option<Vec<String>>> = vec![];
    for j in jobs {
        match &j.printer {
            Printer::Lean(_) => {
                let a = pans.next().unwrap();
                if a == "?" {
                    toks_all.push(None); // --no-model: nothing Lean-printed to run
                } else {
                    toks_all.push(Some(a.split_whitespace().map(|s| s.to_string()).collect()));
                }
            }
            Printer::Doc => {
                let mut v = vec![];
                doc_tokens(&j.tree, &mut v);
                toks_all.push(Some(v));
            }
        }
    }
    // 2. real side
    struct Done {
        src: String,
        a: String,
        bnd: String,
        lexed: Option<Vec<String>>,
    }
    let mut done: Vec<Option<Done>> = vec![];
    let mut qreq = vec![];
    for (j, toks) in jobs.iter().zip(toks_all.iter()) {
        let Some(toks) = toks else {
            done.push(None);
            continue;
        };
        let src = render(toks, j.spacing, cx.rng);
        let a = real_repl(&src);
        let bnd = real_binding(&src);
        // entry (c) on a third of the jobs (clean ones only): the expression as an `if` condition
        if is_clean(&bnd) && cx.rep.evaluations % 3 == 0 {
            for parens in 0..=2usize {
                // a block-like or struct-literal-like tail directly before `{` is genuinely ambiguous
                // without parentheses: only the parenthesised forms are required to agree
                let c = real_condition(&src, parens);
                cx.rep.hit(&format!("condition-context:parens={parens}"));
                if parens > 0 && c != bnd {
                    cx.rep.oracle_fail(
                        "condition-context",
                        json!({"stream": stream, "source": format!("if {}{src}{} {{ }}", "(".repeat(parens), ")".repeat(parens)), "parens": parens}),
                        json!(c),
                        json!(bnd),
                        "an expression that parses cleanly as a binding's value parses differently (or not at all) as a parenthesised `if` condition",
                    );
                }
            }
        }
        let lexed = lex_model(&src);
        if let Some(l) = &lexed {
            qreq.push(format!("C24 parse {}", l.join(" ")));
        }
        done.push(Some(Done { src, a, bnd, lexed }));
    }
    let mut qans = lean::ask(&qreq).into_iter();
    // 3. verdicts
    for ((j, toks), d) in jobs.iter().zip(toks_all.iter()).zip(done.into_iter()) {
        let (Some(toks), Some(d)) = (toks, d) else { continue };
        let want = j.tree.sexp();
        let (pname, mode) = match &j.printer {
            Printer::Lean(m) => ("lean", m.clone()),
            Printer::Doc => ("doc", "doc".to_string()),
        };
        let nontrivial = !j.tree.is_atom();
        cx.rep.case(if nontrivial { Some(format!("{want} {mode}")) } else { None });
        cx.rep.hit(&format!("stream:{stream}"));
        cx.rep.hit(&format!("root:{}", j.tree.root()));
        cx.rep.hit(&format!("depth={}", j.tree.depth()));
        cx.rep.hit(&format!("mode:{}", mode_label(&mode)));
        cx.rep.hit(&format!("spacing:{:?}", j.spacing));
        if mode == "min" {
            let lp = toks.iter().filter(|t| *t == "LParen").count();
            if lp > j.tree.own_parens() {
                cx.rep.hit("paren-needed");
            }
        }
        let input = json!({"stream": stream, "tree": want, "printer": pname, "mode": mode, "source": d.src});
        if cx.rep.evaluations % 7919 == 3 {
            cx.rep.sample(json!({"tree": want, "mode": mode, "source": d.src, "real": d.a}));
        }
        let model = match &d.lexed {
            Some(_) => qans.next().unwrap(),
            None => {
                cx.rep.hit("lexed-outside-alphabet");
                "?".to_string()
            }
        };
        // finding `dot-whitespace-panic`: trivia between `.` and `try` / `(` crashes the parser.
        // The model works on the non-trivia token list and cannot express it, so the case is
        // reported through the oracle only (own label), not as a model disagreement.
        // Only when the whitespace is the culprit: the same tokens with `.try` / `.(` glued must
        // parse cleanly, otherwise the case falls through to the ordinary verdicts and any
        // other panic / error is reported under `syntax-error` as a new violation.
        if (is_fail(&d.a) || is_fail(&d.bnd)) && has_dot_space(&d.src) && {
            let glued = render_single(toks);
            !is_fail(&real_repl(&glued)) && !is_fail(&real_binding(&glued))
        } {
            cx.rep.hit("class:dot-whitespace-panic");
            cx.rep.oracle_fail(
                "dot-whitespace-panic",
                input.clone(),
                json!({"repl_line": d.a, "binding": d.bnd}),
                json!(want),
                "whitespace between `.` and `try` / `(` (cast) makes the parser panic or report errors: the printed expression does not parse",
            );
            continue;
        }
        // entry points agree with each other
        if d.a != d.bnd {
            let mut i = input.clone();
            i["note"] = json!("parse_repl_line and parse_source_file (binding value) give different trees");
            cx.rep.disagree(i, json!({"repl_line": d.a, "binding": d.bnd}), json!(model));
        }
        // the lexer gave back the printed tokens
        if let Some(l) = &d.lexed {
            if l != toks {
                let mut i = input.clone();
                i["note"] = json!("lexed≠printed: real lexer tokens differ from the printed token list");
                cx.rep.disagree(i, json!(l.join(" ")), json!(toks.join(" ")));
            }
        }
        // model parser vs real parser on the real lexer's tokens
        if !model_agrees(&model, &d.a) {
            cx.rep.disagree(input.clone(), json!(d.a), json!(model));
        }
        // the Lean theorem says model = tree, so the implementation must give the tree too
        if d.a != want {
            let mut i = input.clone();
            i["marker"] = json!("impl≠tree");
            cx.rep.disagree(i, json!(d.a), json!(want));
        }
        // ORACLE
        let failing = if is_fail(&d.a) { Some(&d.a) } else if is_fail(&d.bnd) { Some(&d.bnd) } else { None };
        if let Some(f) = failing {
            cx.rep.oracle_fail(
                "syntax-error",
                input.clone(),
                json!({"repl_line": d.a, "binding": d.bnd}),
                json!(want),
                &format!("a printed expression tree must parse without errors, got {f}"),
            );
        } else {
            match &j.printer {
                Printer::Doc => {
                    if d.a != want || d.bnd != want {
                        cx.rep.oracle_fail(
                            "doc-roundtrip",
                            input.clone(),
                            json!({"repl_line": d.a, "binding": d.bnd}),
                            json!(want),
                            "tree printed with parentheses chosen by the documented precedence table does not parse back to itself",
                        );
                    }
                    // self-check of the two oracles against each other
                    match ref_parse(toks) {
                        RefRes::Parsed(t) if t == j.tree => cx.stat("oracle-selfcheck:ok"),
                        other => {
                            cx.stat("oracle-selfcheck:FAIL");
                            cx.rep.hit("oracle-selfcheck:FAIL");
                            if cx.rep.notes.len() < 20 {
                                cx.rep.notes.push(format!("ORACLE BUG: ref_parse(doc_print({want})) = {other:?}"));
                            }
                        }
                    }
                }
                Printer::Lean(_) => match ref_parse(toks) {
                    RefRes::Parsed(t) => {
                        cx.stat("ref-parse:unambiguous");
                        let r = t.sexp();
                        if r != d.a || r != d.bnd {
                            cx.rep.oracle_fail(
                                "ref-parse",
                                input.clone(),
                                json!({"repl_line": d.a, "binding": d.bnd}),
                                json!(r),
                                "real parse tree differs from the reference parser built from the documented precedence table",
                            );
                        }
                    }
                    RefRes::Ambiguous => cx.stat("ref-parse:ambiguous(prefix-vs-postfix, skipped)"),
                    RefRes::Invalid => {
                        cx.stat("ref-parse:INVALID");
                        cx.rep.hit("ref-parse:INVALID");
                        if cx.rep.notes.len() < 20 {
                            cx.rep.notes.push(format!("reference parser rejects Lean-printed text `{}` of {want}", d.src));
                        }
                    }
                },
            }
        }
    }
}

/// every tree in the given modes + once through the doc printer
fn jobs_for(trees: &[Tree], modes: &[String], with_doc: bool, fancy_spacing_1_in: u64, rng: &mut Rng) -> Vec<Job> {
    let mut jobs = vec![];
    let pick = |rng: &mut Rng| {
        if fancy_spacing_1_in > 0 && rng.below(fancy_spacing_1_in) == 0 {
            if rng.chance(1, 2) {
                Spacing::Tight
            } else {
                Spacing::Ws
            }
        } else {
            Spacing::Single
        }
    };
    for t in trees {
        for m in modes {
            jobs.push(Job { tree: t.clone(), printer: Printer::Lean(m.clone()), spacing: pick(rng) });
        }
        if with_doc {
            jobs.push(Job { tree: t.clone(), printer: Printer::Doc, spacing: pick(rng) });
        }
    }
    jobs
}

// ---------------------------------------------------------------------------------------
// S5: token soups (model ≠ implementation only)

/// Progress marks for the watchdog of an S5 child process (see `soup_child`).
static SOUP_TICK: std::sync::atomic::AtomicU64 = std::sync::atomic::AtomicU64::new(0);
static SOUP_CUR: std::sync::Mutex<String> = std::sync::Mutex::new(String::new());
static SOUP_IN_REAL: std::sync::atomic::AtomicBool = std::sync::atomic::AtomicBool::new(false);

fn run_soups(soups: &[Vec<String>], cx: &mut Ctx) {
    for chunk in soups.chunks(50_000) {
        let mut cases = vec![];
        let mut reqs = vec![];
        for toks in chunk {
            let src = render_single(toks);
            if let Ok(mut g) = SOUP_CUR.lock() {
                g.clear();
                g.push_str(&src);
            }
            SOUP_TICK.fetch_add(1, std::sync::atomic::Ordering::Relaxed);
            SOUP_IN_REAL.store(true, std::sync::atomic::Ordering::Relaxed);
            let a = real_repl(&src);
            SOUP_IN_REAL.store(false, std::sync::atomic::Ordering::Relaxed);
            let lexed = lex_model(&src);
            if let Some(l) = &lexed {
                reqs.push(format!("C24 parse {}", l.join(" ")));
            }
            cases.push((src, a, lexed));
        }
        let mut ans = lean::ask(&reqs).into_iter();
        for (src, a, lexed) in cases {
            let Some(l) = lexed else {
                cx.rep.case(None);
                cx.rep.hit("stream:S5");
                cx.rep.hit("soup:lexed-outside-alphabet");
                continue;
            };
            let model = ans.next().unwrap();
            let valid = model != "none" && model != "?";
            cx.rep.case(if valid { Some(format!("soup:{}", l.join(" "))) } else { None });
            cx.rep.hit("stream:S5");
            cx.rep.hit(if valid { "soup:valid" } else { "soup:invalid" });
            if is_clean(&a) {
                cx.rep.hit("soup:real-clean");
            } else if a == "PANIC" {
                cx.rep.hit("soup:real-panic");
            } else if is_fail(&a) {
                cx.rep.hit("soup:real-error");
            } else {
                cx.rep.hit("soup:real-noncore");
            }
            if !model_agrees(&model, &a) {
                cx.rep.disagree(json!({"stream": "S5", "tokens": l.join(" "), "source": src}), json!(a), json!(model));
            }
        }
    }
}

// ---------------------------------------------------------------------------------------

/// S6: the trivia-level model (`C24 parseraw`, Lean `parseRaw`) against the real parser.
/// Every joint gets one space, except the joints `.`+`try` / `.`+`(` which get nothing, a
/// space, a newline or a line comment (seeded). The raw token list sent to the model is what
/// the real lexer produced (`WS` = a run of whitespace/comment tokens).
/// model sexp ⇔ real gives exactly that tree (since /repo fix 91f8795 `bump` skips trivia, the
/// model never answers `crash` any more; a real PANIC / ERR here is a disagreement, and the S1
/// all-joints-spaced probe reports it through the oracle under `dot-whitespace-panic`).
fn run_raw(trees: &[Tree], per_tree: usize, cx: &mut Ctx) {
    let reqs: Vec<String> = trees.iter().map(|t| format!("C24 print min {}", t.sexp())).collect();
    let mut printed = vec![];
    for chunk in reqs.chunks(50_000) {
        printed.extend(lean::ask(chunk));
    }
    let mut srcs: Vec<(usize, String)> = vec![];
    for (ti, a) in printed.iter().enumerate() {
        if a == "?" {
            return;
        }
        let toks: Vec<String> = a.split_whitespace().map(|s| s.to_string()).collect();
        let joints = (1..toks.len()).filter(|&i| toks[i - 1] == "Dot" && (toks[i] == "Try" || toks[i] == "LParen")).count();
        let variants = if joints == 0 { 1 } else { per_tree };
        for v in 0..variants {
            let mut src = String::new();
            for (i, t) in toks.iter().enumerate() {
                if i > 0 {
                    if toks[i - 1] == "Dot" && (toks[i] == "Try" || toks[i] == "LParen") {
                        let pick = if v == 0 { 1 } else { cx.rng.below(4) };
                        src.push_str(match pick { 0 => "", 1 => " ", 2 => "\n", _ => " // c\n" });
                    } else {
                        src.push(' ');
                    }
                }
                src.push_str(&tok_text(t));
            }
            srcs.push((ti, src));
        }
    }
    let mut reqs = vec![];
    let mut keep = vec![];
    for (ti, src) in &srcs {
        let raw = catch_unwind(AssertUnwindSafe(|| {
            let toks = lexer::lex(src);
            let mut out: Vec<String> = vec![];
            for idx in 0..toks.len() {
                let name = format!("{:?}", toks.kind(idx));
                let text = &src[toks.range(idx)];
                match name.as_str() {
                    "Whitespace" | "CommentLeader" | "CommentContents" => {
                        if out.last().map(|l| l != "WS").unwrap_or(true) {
                            out.push("WS".into());
                        }
                    }
                    "Ident" => out.push(format!("Ident:{}", ident_num(text).unwrap_or(999_999))),
                    "Int" => out.push(format!("Int:{}", canon_num(text).unwrap_or(999_999))),
                    k => out.push(k.to_string()),
                }
            }
            out
        }));
        if let Ok(raw) = raw {
            reqs.push(format!("C24 parseraw {}", raw.join(" ")));
            keep.push((*ti, src.clone()));
        }
    }
    let mut answers = vec![];
    for chunk in reqs.chunks(50_000) {
        answers.extend(lean::ask(chunk));
    }
    for ((ti, src), model) in keep.into_iter().zip(answers) {
        let real = real_repl(&src);
        let bnd = real_binding(&src);
        let want = trees[ti].sexp();
        cx.rep.case(Some(format!("raw {src}")));
        cx.rep.hit("stream:S6");
        cx.rep.traces_validated += 1;
        let real_crash = is_fail(&real) || is_fail(&bnd);
        let ok = if model == "crash" {
            cx.rep.hit("raw:model-crash");
            real_crash
        } else {
            cx.rep.hit("raw:model-ok");
            !real_crash && model == real && model == bnd && model == want
        };
        if !ok {
            cx.rep.disagree(
                json!({"stream": "S6", "tree": want, "source": src, "note": "trivia-level model parseRaw vs real parser"}),
                json!({"repl_line": real, "binding": bnd}),
                json!(model),
            );
        }
    }
}

/// S5 child: `C24_SOUP_CHILD=<batch>:<count>`; generates its own soups from (seed, batch), runs
/// them against the real parser and the model and returns the partial report. A watchdog thread
/// ends the process (exit 3, offending input on stderr) when one input makes no progress for 10 s.
fn soup_child(spec: &str, seed: u64) -> Report {
    let mut it = spec.split(':');
    let bi: u64 = it.next().and_then(|x| x.parse().ok()).unwrap_or(0);
    let n: usize = it.next().and_then(|x| x.parse().ok()).unwrap_or(0);
    let mut rep = Report::new("C24", "S5 child", "S5 child");
    let mut rng = Rng::new(seed.wrapping_mul(1_000_003).wrapping_add(7 + bi));
    std::thread::spawn(|| {
        let mut last = 0;
        let mut still = 0;
        loop {
            std::thread::sleep(std::time::Duration::from_millis(500));
            let now = SOUP_TICK.load(std::sync::atomic::Ordering::Relaxed);
            if now == last && now > 0 && SOUP_IN_REAL.load(std::sync::atomic::Ordering::Relaxed) {
                still += 1;
                if still >= 20 {
                    let cur = SOUP_CUR.lock().map(|g| g.clone()).unwrap_or_default();
                    eprintln!("C24-SOUP-HANG {cur}");
                    std::process::exit(3);
                }
            } else {
                still = 0;
                last = now;
            }
        }
    });
    let mut cx = Ctx { rep: &mut rep, rng: &mut rng, stats: Default::default() };
    let n_mut = n / 2;
    let mut soups: Vec<Vec<String>> = vec![];
    let mut reqs = vec![];
    for _ in 0..n_mut {
        let d = 1 + cx.rng.below(4) as usize;
        let t = random_tree(cx.rng, d, 2);
        let mode = if cx.rng.chance(2, 3) { "min".to_string() } else { format!("hash:{}", cx.rng.below(1000)) };
        reqs.push(format!("C24 print {} {}", mode, t.sexp()));
    }
    for chunk in reqs.chunks(50_000) {
        for a in lean::ask(chunk) {
            if a == "?" {
                continue;
            }
            let toks: Vec<String> = a.split_whitespace().map(|s| s.to_string()).collect();
            if toks.is_empty() {
                continue;
            }
            soups.push(mutate(cx.rng, &toks));
        }
    }
    for _ in 0..(n - n_mut) {
        soups.push(random_soup(cx.rng));
    }
    // the watchdog only counts while the real parser is being called
    run_soups(&soups, &mut cx);
    SOUP_TICK.store(0, std::sync::atomic::Ordering::Relaxed);
    rep
}

/// S5 parent side: run one batch in a child process, merge its report.
fn soup_parent(tier: &str, seed: u64, widen: bool, bi: usize, per: usize, cx: &mut Ctx) {
    let exe = match std::env::current_exe() {
        Ok(e) => e,
        Err(_) => return,
    };
    let mut cmd = std::process::Command::new(exe);
    cmd.arg("C24").arg("--tier").arg(tier).arg("--seed").arg(seed.to_string());
    if widen {
        cmd.arg("--widen");
    }
    if lean::no_model() {
        cmd.arg("--no-model");
    }
    let out_path = std::env::temp_dir().join(format!("c24_soup_{}_{}.out", std::process::id(), bi));
    let err_path = std::env::temp_dir().join(format!("c24_soup_{}_{}.err", std::process::id(), bi));
    let (Ok(fo), Ok(fe)) = (std::fs::File::create(&out_path), std::fs::File::create(&err_path)) else {
        cx.rep.notes.push(format!("S5 batch {bi}: could not create temp files"));
        return;
    };
    cmd.env("C24_SOUP_CHILD", format!("{bi}:{per}"))
        .stdin(std::process::Stdio::null())
        .stdout(fo)
        .stderr(fe);
    let Ok(mut child) = cmd.spawn() else {
        cx.rep.notes.push(format!("S5 batch {bi}: could not start the child process"));
        return;
    };
    // memory / wall guard (the hang allocates ~GB/s)
    let pid = child.id();
    let t0 = Instant::now();
    let mut killed: Option<String> = None;
    loop {
        match child.try_wait() {
            Ok(Some(_)) => break,
            Ok(None) => {}
            Err(_) => break,
        }
        let rss_pages: u64 = std::fs::read_to_string(format!("/proc/{pid}/statm"))
            .ok()
            .and_then(|s| s.split_whitespace().nth(1).and_then(|x| x.parse().ok()))
            .unwrap_or(0);
        if rss_pages * 4096 > (3u64 << 30) {
            killed = Some("resident memory above 3 GiB".into());
        } else if t0.elapsed().as_secs() > 900 {
            killed = Some("no result after 900 s".into());
        }
        if killed.is_some() {
            let _ = child.kill();
            let _ = child.wait();
            break;
        }
        std::thread::sleep(std::time::Duration::from_millis(50));
    }
    let stdout = std::fs::read_to_string(&out_path).unwrap_or_default();
    let stderr = std::fs::read_to_string(&err_path).unwrap_or_default();
    let _ = std::fs::remove_file(&out_path);
    let _ = std::fs::remove_file(&err_path);
    let hang_line = stderr.lines().find(|l| l.starts_with("C24-SOUP-HANG")).map(|l| l.to_string());
    let parsed: Option<Value> = stdout.lines().last().and_then(|l| serde_json::from_str(l).ok());
    match parsed {
        Some(v) if killed.is_none() && hang_line.is_none() => {
            let ev = v["evaluations"].as_u64().unwrap_or(0);
            let nt = v["distinct_nontrivial"].as_u64().unwrap_or(0);
            for i in 0..ev {
                cx.rep.case(if i < nt { Some(format!("S5:{seed}:{bi}:{i}")) } else { None });
            }
            if let Some(h) = v["histogram"].as_object() {
                for (k, n) in h {
                    *cx.rep.histogram.entry(k.clone()).or_insert(0) += n.as_u64().unwrap_or(0);
                }
            }
            for d in v["model_disagreements"].as_array().cloned().unwrap_or_default() {
                cx.rep.disagree(d["input"].clone(), d["implementation"].clone(), d["model"].clone());
            }
            let extra = v["model_disagreement_count"].as_u64().unwrap_or(0)
                .saturating_sub(v["model_disagreements"].as_array().map(|a| a.len() as u64).unwrap_or(0));
            cx.rep.model_disagreement_count += extra;
        }
        _ => {
            cx.rep.hit("soup:batch-aborted(parser hang / memory: C23/C06 defect, not C24)");
            cx.rep.notes.push(format!(
                "S5 batch {bi} (seed {seed}, {per} token lists) aborted: {}{}; its cases are not counted. The real parser does not return on some malformed inputs (list-loop hang, DESIGN.md section 6 #1, belongs to C23/C06).",
                killed.unwrap_or_else(|| "child ended without a report".into()),
                hang_line.map(|l| format!("; input: `{}`", l.trim_start_matches("C24-SOUP-HANG ").trim())).unwrap_or_default()
            ));
        }
    }
}

pub fn run(tier: &str, seed: u64, widen: bool) -> Report {
    if let Ok(spec) = std::env::var("C24_SOUP_CHILD") {
        return soup_child(&spec, seed);
    }
    let thorough = tier == "thorough";
    let n_random: usize = (if thorough { 60_000 } else { 3_000 }) * if widen { 10 } else { 1 };
    let n_soup: usize = (if thorough { 100_000 } else { 6_000 }) * if widen { 10 } else { 1 };
    let rule = format!(
        "EXHAUSTIVE (this is what `exhaustive=true` refers to): S1 = every tree of depth <= 2 over atoms {{x0,x1,7}} with all 18 binary ops, 4 unary ops, ^, ^mut, deref, .try, .x2, index, cast, call with 0/1/2 args, each printed by the Lean printer in modes min, full, hash:{seed} and by the documented-table printer; S2 = every binary-only tree with 1 and 2 operators (all shapes x all 18 ops per position), and {s2} tree with 3 operators (5 shapes x 18^3), leaves x0..x3 in order, mode min + documented-table printer. \
         NOT exhaustive: S3 = depth-3 trees over atoms {{x0,7}}, ops {{|| && == + *}}, all unary/ref/postfix forms, call args 0/1 from the depth<=2 set and 2 (second an atom): {s3}, modes min + hash:{seed} + doc printer; S4 = {n_random} seeded random trees of depth <= 5 (all operators, calls up to 3 args, x0..x4, ints 0..99), modes min + hash:<random> + doc printer, a third with tight / random-whitespace rendering; S5 = {n_soup} token lists (half random soups of length 1..9 biased to operand/operator alternation, half single-token delete/insert/replace mutations of printed random trees) compared real-vs-model only; S6 = the S1 trees and seeded random trees of depth <= 4 rendered with nothing / space / newline / line comment between `.` and `try` / `(` (one space elsewhere), real parser vs the trivia-level model `parseRaw` (since /repo fix 91f8795 `bump` skips trivia: every such source must parse to the tree). \
         Every case: real parser through parse_repl_line AND parse_source_file(`v :: <src>;`) read back by typed ast accessors, vs Lean model parser on the real lexer's tokens, vs the generated tree; oracles: documented-table printer round trip, documented-table reference parser (silent where prefix-vs-postfix order is undocumented), no syntax errors. non-trivial = tree has at least one operator (or soup accepted by the model); distinct by (tree, printer mode) / token list",
        s2 = if thorough { "every" } else { "every 4th" },
        s3 = if thorough { "all of them" } else { "every 8th (offset by seed)" },
    );
    let mut rep = Report::new(
        "C24",
        "parser::{parse_repl_line,parse_source_file} (grammar/expr.rs parse_expr_bp, parse_lhs, parse_post_operators) read through ast typed accessors vs Lean model CapyV C24 parser/printer",
        &rule,
    );
    rep.exhaustive = true;
    let mut rng = Rng::new(seed);
    let table = lean::ask(&["C24 table".to_string()]);
    rep.notes.push(format!("binding-power table regenerated from expr.rs (Kind:left:right): {}", table[0]));
    let mut timings = vec![];
    let mut cx = Ctx { rep: &mut rep, rng: &mut rng, stats: Default::default() };
    let all_ops: Vec<&'static str> = BIN.iter().map(|x| x.0).collect();

    // ---- S1
    if std::env::var("C24_TRACE").is_ok() { eprintln!("C24: stream S1"); }
    let t0 = Instant::now();
    {
        let atoms = vec![Id(0), Id(1), Int(7)];
        let mut trees = atoms.clone();
        layer(&atoms, &all_ops, 2, &atoms, &mut trees);
        let modes = vec!["min".to_string(), "full".to_string(), format!("hash:{seed}")];
        let mut jobs = jobs_for(&trees, &modes, true, 6, cx.rng);
        // probe: the same trees with a space at every joint (also between `.` and `try` / `(`)
        for t in &trees {
            jobs.push(Job { tree: t.clone(), printer: Printer::Lean("min".into()), spacing: Spacing::Spaced });
        }
        let n = jobs.len();
        run_jobs("S1", jobs, &mut cx);
        timings.push(format!("S1 {} trees / {} cases {:.1}s", trees.len(), n, t0.elapsed().as_secs_f64()));
    }
    // ---- S2
    if std::env::var("C24_TRACE").is_ok() { eprintln!("C24: stream S2"); }
    let t0 = Instant::now();
    {
        let mut trees = bin_trees(1, 0);
        trees.extend(bin_trees(2, 0));
        let three = bin_trees(3, 0);
        let n3 = three.len();
        if thorough {
            trees.extend(three);
        } else {
            let off = (seed % 4) as usize;
            trees.extend(three.into_iter().enumerate().filter(|(i, _)| i % 4 == off).map(|(_, t)| t));
        }
        let jobs = jobs_for(&trees, &["min".to_string()], true, 8, cx.rng);
        let n = jobs.len();
        run_jobs("S2", jobs, &mut cx);
        timings.push(format!("S2 {} trees (of {} 3-operator trees: {}) / {} cases {:.1}s", trees.len(), n3, if thorough { "all" } else { "1 in 4" }, n, t0.elapsed().as_secs_f64()));
    }
    // ---- S3
    if std::env::var("C24_TRACE").is_ok() { eprintln!("C24: stream S3"); }
    let t0 = Instant::now();
    {
        let atoms = vec![Id(0), Int(7)];
        let ops: Vec<&'static str> = vec!["DoublePipe", "DoubleAnd", "DoubleEquals", "Plus", "Asterisk"];
        let mut d2 = atoms.clone();
        layer(&atoms, &ops, 2, &atoms, &mut d2);
        let mut d3 = vec![];
        layer(&d2, &ops, 2, &atoms, &mut d3);
        d3.retain(|t| t.depth() == 3);
        let total = d3.len();
        let trees: Vec<Tree> = if thorough {
            d3
        } else {
            let off = (seed % 8) as usize;
            d3.into_iter().enumerate().filter(|(i, _)| i % 8 == off).map(|(_, t)| t).collect()
        };
        let modes = vec!["min".to_string(), format!("hash:{seed}")];
        let jobs = jobs_for(&trees, &modes, true, 8, cx.rng);
        let n = jobs.len();
        run_jobs("S3", jobs, &mut cx);
        timings.push(format!("S3 {} of {} depth-3 trees / {} cases {:.1}s", trees.len(), total, n, t0.elapsed().as_secs_f64()));
    }
    // ---- S4
    if std::env::var("C24_TRACE").is_ok() { eprintln!("C24: stream S4"); }
    let t0 = Instant::now();
    {
        let mut jobs = vec![];
        for _ in 0..n_random {
            let d = 2 + cx.rng.below(4) as usize;
            let t = random_tree(cx.rng, d, 3);
            let fancy = cx.rng.below(3) == 0;
            let sp = |rng: &mut Rng| {
                if !fancy {
                    Spacing::Single
                } else if rng.chance(1, 2) {
                    Spacing::Tight
                } else {
                    Spacing::Ws
                }
            };
            let h = cx.rng.below(1_000_000);
            jobs.push(Job { tree: t.clone(), printer: Printer::Lean("min".into()), spacing: sp(cx.rng) });
            jobs.push(Job { tree: t.clone(), printer: Printer::Lean(format!("hash:{h}")), spacing: sp(cx.rng) });
            jobs.push(Job { tree: t, printer: Printer::Doc, spacing: sp(cx.rng) });
        }
        let n = jobs.len();
        run_jobs("S4", jobs, &mut cx);
        timings.push(format!("S4 {} random trees / {} cases {:.1}s", n_random, n, t0.elapsed().as_secs_f64()));
    }
    // ---- S5 (token soups): malformed input can make the real parser loop forever while
    // allocating (confirmed defect of its list loops, DESIGN.md §6 #1 — property C23/C06), so
    // the soups run in child processes with a watchdog; a batch that hangs is killed, named in
    // `notes` with the offending input, and the other batches still count.
    if std::env::var("C24_TRACE").is_ok() { eprintln!("C24: stream S5"); }
    let t0 = Instant::now();
    {
        let batches: usize = if thorough || widen { 20 } else { 4 };
        let per = n_soup / batches;
        let before = cx.rep.evaluations;
        for bi in 0..batches {
            soup_parent(tier, seed, widen, bi, per, &mut cx);
        }
        timings.push(format!("S5 {} token lists in {} child batches {:.1}s", cx.rep.evaluations - before, batches, t0.elapsed().as_secs_f64()));
    }
    // ---- S6 trivia-level model
    if std::env::var("C24_TRACE").is_ok() { eprintln!("C24: stream S6"); }
    let t0 = Instant::now();
    {
        let atoms = vec![Id(0), Id(1), Int(7)];
        let mut trees = atoms.clone();
        layer(&atoms, &all_ops, 2, &atoms, &mut trees);
        let mut deep = vec![];
        for _ in 0..(if thorough { 20_000 } else { 1_500 }) {
            deep.push(random_tree(cx.rng, 4, 2));
        }
        let before = cx.rep.evaluations;
        run_raw(&trees, 4, &mut cx);
        run_raw(&deep, 2, &mut cx);
        timings.push(format!("S6 {} raw sources {:.1}s", cx.rep.evaluations - before, t0.elapsed().as_secs_f64()));
    }
    // probes outside C24 proper (parser robustness): same double-bump-over-trivia root cause
    for src in ["x0 + = x1", "x0 += x1", "x0 . try", "x0.try", "x0 . (x1)", "x0.(x1)"] {
        let r = real_repl(src);
        cx.rep.notes.push(format!("probe `{src}` -> {r}"));
    }
    let stats = cx.stats.iter().map(|(k, v)| format!("{k}={v}")).collect::<Vec<_>>().join(", ");
    rep.notes.push(format!("oracle coverage: {stats}"));
    rep.notes.push(format!("streams: {}", timings.join("; ")));
    PANICS.with(|p| {
        for (m, n) in p.borrow().iter().take(12) {
            rep.notes.push(format!("panic x{n} in {m}"));
        }
    });
    rep
}

pub fn replay(input: &Value) -> String {
    if std::env::var("C24_TRACE").is_ok() {
        // debugging aid: show where a caught panic of /repo code comes from
        std::panic::set_hook(Box::new(|info| {
            eprintln!("{info}\n{}", std::backtrace::Backtrace::force_capture());
        }));
    }
    let mut rng = Rng::new(1);
    let tree = input["tree"].as_str().and_then(parse_sexp);
    let mut out = String::new();
    let mut mismatch = false;
    let mut sources: Vec<(String, bool)> = vec![]; // (source, is doc-printed)
    if let Some(s) = input["source"].as_str() {
        sources.push((s.to_string(), input["printer"].as_str() == Some("doc")));
    }
    if let Some(t) = &tree {
        let mut v = vec![];
        doc_tokens(t, &mut v);
        let doc_src = render(&v, Spacing::Single, &mut rng);
        if !sources.iter().any(|(s, _)| *s == doc_src) {
            sources.push((doc_src, true));
        }
        let p = lean::ask(&[format!("C24 print min {}", t.sexp())]);
        if p[0] != "?" {
            let toks: Vec<String> = p[0].split_whitespace().map(|s| s.to_string()).collect();
            let src = render_single(&toks);
            if !sources.iter().any(|(s, _)| *s == src) {
                sources.push((src, false));
            }
        }
    }
    for (src, is_doc) in sources {
        let a = real_repl(&src);
        let bnd = real_binding(&src);
        let lexed = lex_model(&src);
        let model = match &lexed {
            Some(l) => lean::ask(&[format!("C24 parse {}", l.join(" "))])[0].clone(),
            None => "(tokens outside the model alphabet)".to_string(),
        };
        let rp = lexed.as_ref().map(|l| ref_parse(l));
        out.push_str(&format!(
            "source: {src:?}\n  implementation (repl line): {a}\n  implementation (binding):   {bnd}\n  model: {model}\n  reference parser: {}\n",
            match &rp {
                Some(RefRes::Parsed(t)) => t.sexp(),
                Some(RefRes::Ambiguous) => "ambiguous (prefix vs postfix order is not documented)".into(),
                Some(RefRes::Invalid) => "not an expression".into(),
                None => "-".into(),
            }
        ));
        // a well-formed expression must parse without errors
        let wellformed = tree.is_some() || matches!(rp, Some(RefRes::Parsed(_)) | Some(RefRes::Ambiguous));
        if wellformed && (is_fail(&a) || is_fail(&bnd)) {
            out.push_str("  -> syntax error / panic on a well-formed expression\n");
            mismatch = true;
        }
        if let Some(RefRes::Parsed(t)) = &rp {
            let r = t.sexp();
            if r != a || r != bnd {
                out.push_str("  -> differs from the reference parser\n");
                mismatch = true;
            }
        }
        if let (true, Some(t)) = (is_doc, &tree) {
            let want = t.sexp();
            if a != want || bnd != want {
                out.push_str(&format!("  -> documented-table print does not parse back to {want}\n"));
                mismatch = true;
            }
        }
    }
    out.push_str(if mismatch { "SPEC-MISMATCH" } else { "AGREE" });
    out
}
