//! CapyCore on the Rust side: the mirror AST of `lean/CapyV/Spec/CapyCore.lean`, a
//! type-directed generator of well-typed programs, a pretty-printer to Capy source and the
//! S-expression serialiser understood by `lean/CapyV/Driver/Core.lean`.
use crate::rng::Rng;

/// How global names are spelled from the file currently being printed (C20 splits a program
/// over several files): `None` = everything is in one file.
#[derive(Clone, Debug, Default)]
pub struct Qual {
    pub file_of_fn: Vec<usize>,
    pub file_of_struct: Vec<usize>,
    pub file_of_enum: Vec<usize>,
    pub current: usize,
}

thread_local! {
    static QUAL: std::cell::RefCell<Option<Qual>> = const { std::cell::RefCell::new(None) };
}

fn qualify_enum(idx: usize, base: String) -> String {
    QUAL.with(|q| match q.borrow().as_ref() {
        None => base,
        Some(q) => {
            let f = q.file_of_enum[idx];
            if f == q.current { base } else { format!("file{f}.{base}") }
        }
    })
}

fn qualify(is_fn: bool, idx: usize, base: String) -> String {
    QUAL.with(|q| match q.borrow().as_ref() {
        None => base,
        Some(q) => {
            let f = if is_fn { q.file_of_fn[idx] } else { q.file_of_struct[idx] };
            if f == q.current { base } else { format!("file{f}.{base}") }
        }
    })
}

#[derive(Clone, Debug, PartialEq, Eq, Hash)]
pub enum Ty {
    Int(bool, u32),
    Bool,
    Void,
    Arr(u32, Box<Ty>),
    Opt(Box<Ty>),
    Struct(usize),
    Enum(usize),
    /// error union `err!ok`
    Eu(Box<Ty>, Box<Ty>),
    /// `^T` / `^mut T`
    Ptr(bool, Box<Ty>),
    /// `[]T`
    Slice(Box<Ty>),
    /// `(p0: T0, ..) -> R`: a function value (locals only)
    FnPtr(Vec<Ty>, Box<Ty>),
    /// `char` (8 bits, printed as the character)
    Char,
}

impl Ty {
    pub fn capy(&self) -> String {
        match self {
            Ty::Int(s, b) => format!("{}{}", if *s { "i" } else { "u" }, b),
            Ty::Bool => "bool".into(),
            Ty::Void => "void".into(),
            Ty::Arr(n, t) => format!("[{}]{}", n, t.capy()),
            Ty::Opt(t) => format!("?{}", t.capy()),
            Ty::Struct(i) => qualify(false, *i, format!("S{i}")),
            Ty::Enum(i) => qualify_enum(*i, format!("E{i}")),
            Ty::Eu(e, o) => format!("{}!{}", e.capy(), o.capy()),
            Ty::Ptr(m, t) => format!("^{}{}", if *m { "mut " } else { "" }, t.capy()),
            Ty::Slice(t) => format!("[]{}", t.capy()),
            Ty::FnPtr(ps, r) => format!("({}) -> {}", ps.iter().enumerate().map(|(i, t)| format!("p{}: {}", i, t.capy())).collect::<Vec<_>>().join(", "), r.capy()),
            Ty::Char => "char".into(),
        }
    }
    pub fn sexp(&self) -> String {
        match self {
            Ty::Int(s, b) => format!("{}{}", if *s { "i" } else { "u" }, b),
            Ty::Bool => "bool".into(),
            Ty::Void => "void".into(),
            Ty::Arr(n, t) => format!("(arr {} {})", n, t.sexp()),
            Ty::Opt(t) => format!("(opt {})", t.sexp()),
            Ty::Struct(i) => format!("(struct {i})"),
            Ty::Enum(i) => format!("(enum {i})"),
            Ty::Eu(e, o) => format!("(eu {} {})", e.sexp(), o.sexp()),
            Ty::Ptr(m, t) => format!("(ptr {} {})", *m as u8, t.sexp()),
            Ty::Slice(t) => format!("(slice {})", t.sexp()),
            // never sent: function types occur only as annotations of `let`, which carries no type
            Ty::FnPtr(..) => "void".into(),
            Ty::Char => "char".into(),
        }
    }
    /// the type holds an address somewhere (pointer, slice, or a struct / optional / array of such)
    pub fn has_ptr(&self, structs: &[StructDef]) -> bool {
        match self {
            Ty::Ptr(..) | Ty::Slice(_) => true,
            Ty::Arr(_, t) | Ty::Opt(t) => t.has_ptr(structs),
            Ty::Eu(e, o) => e.has_ptr(structs) || o.has_ptr(structs),
            Ty::Struct(i) => structs.get(*i).map(|d| d.fields.iter().any(|f| f.has_ptr(structs))).unwrap_or(false),
            _ => false,
        }
    }
    pub fn is_int(&self) -> bool {
        matches!(self, Ty::Int(..))
    }
    pub fn range(&self) -> (i128, i128) {
        match self {
            Ty::Int(true, b) => (-(1i128 << (b - 1)), (1i128 << (b - 1)) - 1),
            Ty::Int(false, b) => (0, (1i128 << b) - 1),
            _ => (0, 0),
        }
    }
}

#[derive(Clone, Copy, Debug, PartialEq, Eq)]
pub enum BinOp { Add, Sub, Mul, Div, Rem, And, Or, Xor, Shl, Shr }
#[derive(Clone, Copy, Debug, PartialEq, Eq)]
pub enum CmpOp { Eq, Ne, Lt, Le, Gt, Ge }

impl BinOp {
    fn capy(self) -> &'static str {
        match self { BinOp::Add => "+", BinOp::Sub => "-", BinOp::Mul => "*", BinOp::Div => "/", BinOp::Rem => "%",
            BinOp::And => "&", BinOp::Or => "|", BinOp::Xor => "~", BinOp::Shl => "<<", BinOp::Shr => ">>" }
    }
    fn sexp(self) -> &'static str {
        match self { BinOp::Add => "add", BinOp::Sub => "sub", BinOp::Mul => "mul", BinOp::Div => "div", BinOp::Rem => "rem",
            BinOp::And => "band", BinOp::Or => "bor", BinOp::Xor => "bxor", BinOp::Shl => "shl", BinOp::Shr => "shr" }
    }
}
impl CmpOp {
    fn capy(self) -> &'static str {
        match self { CmpOp::Eq => "==", CmpOp::Ne => "!=", CmpOp::Lt => "<", CmpOp::Le => "<=", CmpOp::Gt => ">", CmpOp::Ge => ">=" }
    }
    fn sexp(self) -> &'static str {
        match self { CmpOp::Eq => "eq", CmpOp::Ne => "ne", CmpOp::Lt => "lt", CmpOp::Le => "le", CmpOp::Gt => "gt", CmpOp::Ge => "ge" }
    }
}

#[derive(Clone, Debug)]
pub enum Expr {
    Lit(Ty, i128),
    BLit(bool),
    Var(usize),
    Bin(BinOp, Ty, Box<Expr>, Box<Expr>),
    Cmp(CmpOp, Ty, Box<Expr>, Box<Expr>),
    LAnd(Box<Expr>, Box<Expr>),
    LOr(Box<Expr>, Box<Expr>),
    LNot(Box<Expr>),
    Neg(Ty, Box<Expr>),
    BNot(Ty, Box<Expr>),
    Cast(Ty, Ty, Box<Expr>),
    Call(usize, Vec<Expr>),
    Index(Box<Expr>, Box<Expr>),
    Field(Box<Expr>, usize),
    ArrLit(Ty, Vec<Expr>),          // element type (for printing)
    StructLit(usize, Vec<Expr>),
    Nil,
    SomeE(Box<Expr>),
    Unwrap(Ty, Box<Expr>),          // payload type (for printing)
    IsSome(Ty, Box<Expr>),
    Ite(Box<Expr>, Box<Expr>, Box<Expr>),
    VariantLit(usize, usize, Option<Box<Expr>>),   // enum id, variant, payload
    IsVariant(usize, usize, Box<Expr>),
    UnwrapVariant(usize, usize, Box<Expr>),
    EuLit(bool, Box<Expr>),
    EuIsOk(Ty, Box<Expr>),                          // ok type (for printing)
    EuUnwrap(bool, Ty, Box<Expr>),                  // which side, its type
    Try(Box<Expr>),
    /// `T.(e)` where `e` has a variant type whose payload is `T` (the value is unchanged)
    Coerce(Ty, Box<Expr>),
    /// `^place` / `^mut place`
    AddrOf(bool, Box<Place>),
    /// `e^`
    Deref(Box<Expr>),
    /// the implicit `[N]T -> []T` conversion of an array place (printed as the place itself)
    SliceOf(Box<Place>),
    /// `e.len` (a `usize`)
    Len(Box<Expr>),
    /// `[N]T.(e)`: length, element type, the slice
    SliceToArr(u32, Ty, Box<Expr>),
    /// a named function as a value
    FnRef(usize),
    /// a call through a function value
    CallV(Box<Expr>, Vec<Expr>),
    /// `'c'` (letters and digits only)
    CharLit(u8),
}

#[derive(Clone, Debug)]
pub enum Place {
    Var(usize),
    Index(Box<Place>, Box<Expr>),
    Field(Box<Place>, usize),
    /// `e^` with `e` of type `^mut T`
    Deref(Box<Expr>),
}

#[derive(Clone, Debug)]
pub enum Stmt {
    Let(usize, Ty, bool, Expr),      // id, type, mutable, value
    Assign(Place, Expr),
    OpAssign(BinOp, Ty, Place, Expr),
    Print(Expr),
    If(Expr, Vec<Stmt>, Vec<Stmt>),
    While(usize, Expr, Vec<Stmt>),
    Block(Option<usize>, Vec<Stmt>),
    Brk(usize),
    Cont(usize),
    Ret(Option<Expr>),
    Defer(Box<Stmt>),
    ExprS(Expr),
    /// scrutinee, its type, argument variable, arms (variant index → body), default arm
    Switch(Expr, Ty, Option<usize>, Vec<(usize, Vec<Stmt>)>, Option<Vec<Stmt>>),
    /// raw Capy text (used by mutators that deliberately leave the fragment); never sent to Lean
    Raw(String),
}

#[derive(Clone, Debug)]
pub struct Fn {
    pub params: Vec<(usize, Ty)>,
    pub ret: Ty,
    pub body: Vec<Stmt>,
}

#[derive(Clone, Debug)]
pub struct StructDef {
    pub fields: Vec<Ty>,
}

#[derive(Clone, Debug)]
pub struct EnumDef {
    /// payload type per variant (`None` = no payload)
    pub variants: Vec<Option<Ty>>,
}

#[derive(Clone, Debug)]
pub struct Program {
    pub structs: Vec<StructDef>,
    pub enums: Vec<EnumDef>,
    /// fns[0] is main
    pub fns: Vec<Fn>,
    /// the generator placed a slice index that may be out of bounds at run time
    pub slice_oob: bool,
}

// ---- S-expressions for the Lean interpreter -----------------------------------------------

fn sx_list(items: &[String]) -> String {
    items.join(" ")
}

impl Expr {
    pub fn sexp(&self) -> String {
        match self {
            Expr::Lit(t, z) => format!("(lit {} {})", t.sexp(), z),
            Expr::BLit(b) => format!("(blit {})", *b as u8),
            Expr::Var(x) => format!("(var {x})"),
            Expr::Bin(op, t, a, b) => format!("(bin {} {} {} {})", op.sexp(), t.sexp(), a.sexp(), b.sexp()),
            Expr::Cmp(op, t, a, b) => format!("(cmp {} {} {} {})", op.sexp(), t.sexp(), a.sexp(), b.sexp()),
            Expr::LAnd(a, b) => format!("(land {} {})", a.sexp(), b.sexp()),
            Expr::LOr(a, b) => format!("(lor {} {})", a.sexp(), b.sexp()),
            Expr::LNot(a) => format!("(lnot {})", a.sexp()),
            Expr::Neg(t, a) => format!("(neg {} {})", t.sexp(), a.sexp()),
            Expr::BNot(t, a) => format!("(bnot {} {})", t.sexp(), a.sexp()),
            Expr::Cast(s, d, a) => format!("(cast {} {} {})", s.sexp(), d.sexp(), a.sexp()),
            Expr::Call(f, args) => format!("(call {} {})", f, sx_list(&args.iter().map(|a| a.sexp()).collect::<Vec<_>>())),
            Expr::Index(a, i) => format!("(index {} {})", a.sexp(), i.sexp()),
            Expr::Field(a, k) => format!("(field {} {})", a.sexp(), k),
            Expr::ArrLit(_, es) => format!("(arrlit {})", sx_list(&es.iter().map(|a| a.sexp()).collect::<Vec<_>>())),
            Expr::StructLit(id, es) => format!("(structlit {} {})", id, sx_list(&es.iter().map(|a| a.sexp()).collect::<Vec<_>>())),
            Expr::Nil => "nil".into(),
            Expr::SomeE(a) => format!("(some {})", a.sexp()),
            Expr::Unwrap(_, a) => format!("(unwrap {})", a.sexp()),
            Expr::IsSome(_, a) => format!("(issome {})", a.sexp()),
            Expr::Ite(c, a, b) => format!("(ite {} {} {})", c.sexp(), a.sexp(), b.sexp()),
            Expr::VariantLit(_, k, None) => format!("(variant {k})"),
            Expr::VariantLit(_, k, Some(a)) => format!("(variant {k} {})", a.sexp()),
            Expr::IsVariant(_, k, a) => format!("(isvariant {k} {})", a.sexp()),
            Expr::UnwrapVariant(_, k, a) => format!("(unwrapv {k} {})", a.sexp()),
            Expr::EuLit(b, a) => format!("(eulit {} {})", *b as u8, a.sexp()),
            Expr::EuIsOk(_, a) => format!("(euisok {})", a.sexp()),
            Expr::EuUnwrap(b, _, a) => format!("(euunwrap {} {})", *b as u8, a.sexp()),
            Expr::Try(a) => format!("(try {})", a.sexp()),
            Expr::Coerce(_, a) => a.sexp(),
            Expr::AddrOf(_, p) => format!("(addr {})", p.sexp_as_expr()),
            Expr::Deref(a) => format!("(deref {})", a.sexp()),
            Expr::SliceOf(p) => format!("(sliceof {})", p.sexp_as_expr()),
            Expr::Len(a) => format!("(len {})", a.sexp()),
            Expr::SliceToArr(n, _, a) => format!("(s2a {} {})", n, a.sexp()),
            Expr::FnRef(f) => format!("(fnref {f})"),
            Expr::CharLit(c) => format!("(clit {c})"),
            Expr::CallV(c, args) => format!("(callv {} {})", c.sexp(), sx_list(&args.iter().map(|a| a.sexp()).collect::<Vec<_>>())),
        }
    }
}

impl Place {
    pub fn sexp(&self) -> String {
        match self {
            Place::Var(x) => format!("(pvar {x})"),
            Place::Index(p, i) => format!("(pindex {} {})", p.sexp(), i.sexp()),
            Place::Field(p, k) => format!("(pfield {} {})", p.sexp(), k),
            Place::Deref(e) => format!("(pderef {})", e.sexp()),
        }
    }
    /// the same place in expression form (operand of `addr` / `sliceof`)
    pub fn sexp_as_expr(&self) -> String {
        match self {
            Place::Var(x) => format!("(var {x})"),
            Place::Index(p, i) => format!("(index {} {})", p.sexp_as_expr(), i.sexp()),
            Place::Field(p, k) => format!("(field {} {})", p.sexp_as_expr(), k),
            Place::Deref(e) => format!("(deref {})", e.sexp()),
        }
    }
    pub fn root_var(&self) -> Option<usize> {
        match self {
            Place::Var(x) => Some(*x),
            Place::Index(p, _) | Place::Field(p, _) => p.root_var(),
            Place::Deref(_) => None,
        }
    }
    pub fn through_deref(&self) -> bool {
        match self {
            Place::Var(_) => false,
            Place::Index(p, _) | Place::Field(p, _) => p.through_deref(),
            Place::Deref(_) => true,
        }
    }
}

fn stmts_sexp(ss: &[Stmt]) -> String {
    sx_list(&ss.iter().map(|s| s.sexp()).collect::<Vec<_>>())
}

impl Stmt {
    pub fn sexp(&self) -> String {
        match self {
            Stmt::Let(x, _, _, e) => format!("(let {} {})", x, e.sexp()),
            Stmt::Assign(p, e) => format!("(assign {} {})", p.sexp(), e.sexp()),
            Stmt::OpAssign(op, t, p, e) => format!("(opassign {} {} {} {})", op.sexp(), t.sexp(), p.sexp(), e.sexp()),
            Stmt::Print(e) => format!("(print {})", e.sexp()),
            Stmt::If(c, a, b) => format!("(if {} (then {}) (else {}))", c.sexp(), stmts_sexp(a), stmts_sexp(b)),
            Stmt::While(l, c, b) => format!("(while {} {} {})", l, c.sexp(), stmts_sexp(b)),
            Stmt::Block(l, b) => format!("(block {} {})", l.map(|x| x.to_string()).unwrap_or("-".into()), stmts_sexp(b)),
            Stmt::Brk(l) => format!("(brk {l})"),
            Stmt::Cont(l) => format!("(cont {l})"),
            Stmt::Ret(None) => "(ret)".into(),
            Stmt::Ret(Some(e)) => format!("(ret {})", e.sexp()),
            Stmt::Defer(s) => format!("(defer {})", s.sexp()),
            Stmt::ExprS(e) => format!("(expr {})", e.sexp()),
            Stmt::Raw(_) => "(raw)".into(),
            Stmt::Switch(sc, _, arg, arms, d) => {
                let mut parts: Vec<String> = arms.iter().map(|(k, b)| format!("(arm {} {})", k, stmts_sexp(b))).collect();
                if let Some(d) = d {
                    parts.push(format!("(default {})", stmts_sexp(d)));
                }
                format!("(switch {} {} {})", sc.sexp(), arg.map(|x| x.to_string()).unwrap_or("-".into()), parts.join(" "))
            }
        }
    }
}

impl Program {
    pub fn sexp(&self) -> String {
        let fns: Vec<String> = self
            .fns
            .iter()
            .map(|f| {
                format!(
                    "(fn ({}) {} {})",
                    sx_list(&f.params.iter().map(|p| p.0.to_string()).collect::<Vec<_>>()),
                    f.ret.sexp(),
                    stmts_sexp(&f.body)
                )
            })
            .collect();
        format!("(prog {})", sx_list(&fns))
    }
}

// ---- Capy source --------------------------------------------------------------------------

fn lit_capy(t: &Ty, z: i128) -> String {
    let (lo, _) = t.range();
    let tn = t.capy();
    if z == lo && lo < 0 {
        // the most negative value cannot be spelled as one literal (`-128`: 128 does not fit i8)
        format!("({tn}.({}) - {tn}.(1))", z + 1)
    } else {
        format!("{tn}.({z})")
    }
}

impl Expr {
    pub fn capy(&self) -> String {
        match self {
            Expr::Lit(t, z) => lit_capy(t, *z),
            Expr::BLit(b) => b.to_string(),
            Expr::Var(x) => format!("v{x}"),
            Expr::Bin(op, _, a, b) => format!("({} {} {})", a.capy(), op.capy(), b.capy()),
            Expr::Cmp(op, _, a, b) => format!("({} {} {})", a.capy(), op.capy(), b.capy()),
            Expr::LAnd(a, b) => format!("({} && {})", a.capy(), b.capy()),
            Expr::LOr(a, b) => format!("({} || {})", a.capy(), b.capy()),
            Expr::LNot(a) => format!("(!{})", a.capy()),
            Expr::Neg(_, a) => format!("(-{})", a.capy()),
            Expr::BNot(_, a) => format!("(~{})", a.capy()),
            Expr::Cast(_, d, a) => format!("{}.({})", d.capy(), a.capy()),
            Expr::Call(f, args) => format!("{}({})", qualify(true, *f, format!("f{f}")), args.iter().map(|a| a.capy()).collect::<Vec<_>>().join(", ")),
            Expr::Index(a, i) => format!("{}[{}]", a.capy(), i.capy()),
            Expr::Field(a, k) => format!("{}.m{}", a.capy(), k),
            Expr::ArrLit(t, es) => format!("{}.[{}]", t.capy(), es.iter().map(|a| a.capy()).collect::<Vec<_>>().join(", ")),
            Expr::StructLit(id, es) => format!(
                "{}.{{ {} }}",
                qualify(false, *id, format!("S{id}")),
                es.iter().enumerate().map(|(k, e)| format!("m{} = {}", k, e.capy())).collect::<Vec<_>>().join(", ")
            ),
            Expr::Nil => "nil".into(),
            Expr::SomeE(a) => a.capy(),
            Expr::Unwrap(t, a) => format!("#unwrap({}, {})", a.capy(), t.capy()),
            Expr::IsSome(t, a) => format!("#is_variant({}, {})", a.capy(), t.capy()),
            Expr::Ite(c, a, b) => format!("(if {} {{ {} }} else {{ {} }})", c.capy(), a.capy(), b.capy()),
            Expr::VariantLit(e, k, None) => format!("{}.V{k}", qualify_enum(*e, format!("E{e}"))),
            Expr::VariantLit(e, k, Some(a)) => format!("{}.V{k}.({})", qualify_enum(*e, format!("E{e}")), a.capy()),
            Expr::IsVariant(e, k, a) => format!("#is_variant({}, {}.V{k})", a.capy(), qualify_enum(*e, format!("E{e}"))),
            Expr::UnwrapVariant(e, k, a) => format!("#unwrap({}, {}.V{k})", a.capy(), qualify_enum(*e, format!("E{e}"))),
            Expr::EuLit(_, a) => a.capy(),
            Expr::EuIsOk(t, a) => format!("#is_variant({}, {})", a.capy(), t.capy()),
            Expr::EuUnwrap(_, t, a) => format!("#unwrap({}, {})", a.capy(), t.capy()),
            Expr::Try(a) => format!("{}.try", a.capy()),
            Expr::Coerce(t, a) => format!("{}.({})", t.capy(), a.capy()),
            // `^mut p^.f` parses as `(^mut p)^.f` (prefix `^` binds tighter than postfix `^`), and
            // `^mut (p^.f)` takes the address of a *copy* (FINDINGS.md: addr-of-parenthesised-place):
            // the place is spelled with auto-deref (`^mut p.f`), and `^mut p^` as `p` itself
            // Since the fix of addr-of-parenthesised-place (`^mut (x)` used to take the address of a
            // copy) a third of the operands are printed in the explicit, parenthesised form, chosen
            // by the length of the spelling so that printing stays a function of the AST.
            Expr::AddrOf(m, p) => {
                let explicit = p.capy();
                let paren = explicit.len() % 3 == 0;
                match &**p {
                    Place::Deref(e) if !paren => e.capy(),
                    _ if paren => format!("^{}({})", if *m { "mut " } else { "" }, explicit),
                    _ => format!("^{}{}", if *m { "mut " } else { "" }, p.capy_auto()),
                }
            }
            // prefix operators bind tighter than the postfix `^` (`~p^` is `(~p)^`)
            Expr::Deref(a) => format!("({}^)", a.capy()),
            Expr::SliceOf(p) => p.capy(),
            // `.len` is a `usize`; the fragment's index type is `u64`
            Expr::Len(a) => format!("u64.({}.len)", a.capy()),
            Expr::SliceToArr(n, t, a) => format!("[{}]{}.({})", n, t.capy(), a.capy()),
            Expr::FnRef(f) => qualify(true, *f, format!("f{f}")),
            Expr::CharLit(c) => format!("'{}'", *c as char),
            Expr::CallV(c, args) => format!("{}({})", c.capy(), args.iter().map(|a| a.capy()).collect::<Vec<_>>().join(", ")),
        }
    }
}

impl Place {
    pub fn capy(&self) -> String {
        match self {
            Place::Var(x) => format!("v{x}"),
            Place::Index(p, i) => format!("{}[{}]", p.capy(), i.capy()),
            Place::Field(p, k) => format!("{}.m{}", p.capy(), k),
            Place::Deref(e) => format!("{}^", e.capy()),
        }
    }
    /// the place with the dereference under a field / index step left implicit (`p.f`, `p[i]`)
    pub fn capy_auto(&self) -> String {
        fn inner(p: &Place) -> String {
            match p {
                Place::Deref(e) => e.capy(),
                _ => p.capy_auto(),
            }
        }
        match self {
            Place::Var(x) => format!("v{x}"),
            Place::Index(p, i) => format!("{}[{}]", inner(p), i.capy()),
            Place::Field(p, k) => format!("{}.m{}", inner(p), k),
            Place::Deref(e) => format!("{}^", e.capy()),
        }
    }
}

fn stmts_capy(ss: &[Stmt], ind: usize, out: &mut String) {
    for s in ss {
        s.capy(ind, out);
    }
}

impl Stmt {
    pub fn capy(&self, ind: usize, out: &mut String) {
        let pad = "    ".repeat(ind);
        match self {
            Stmt::Let(x, t, m, e) => out.push_str(&format!("{pad}v{x} : {} {} {};\n", t.capy(), if *m { "=" } else { ":" }, e.capy())),
            Stmt::Assign(p, e) => out.push_str(&format!("{pad}{} = {};\n", p.capy(), e.capy())),
            Stmt::OpAssign(op, _, p, e) => out.push_str(&format!("{pad}{} {}= {};\n", p.capy(), op.capy(), e.capy())),
            Stmt::Print(e) => out.push_str(&format!("{pad}core.println({});\n", e.capy())),
            Stmt::If(c, a, b) => {
                out.push_str(&format!("{pad}if {} {{\n", c.capy()));
                stmts_capy(a, ind + 1, out);
                if b.is_empty() {
                    out.push_str(&format!("{pad}}}\n"));
                } else {
                    out.push_str(&format!("{pad}}} else {{\n"));
                    stmts_capy(b, ind + 1, out);
                    out.push_str(&format!("{pad}}}\n"));
                }
            }
            Stmt::While(l, c, b) => {
                out.push_str(&format!("{pad}`l{l}: while {} {{\n", c.capy()));
                stmts_capy(b, ind + 1, out);
                out.push_str(&format!("{pad}}}\n"));
            }
            Stmt::Block(l, b) => {
                match l {
                    Some(l) => out.push_str(&format!("{pad}`l{l}: {{\n")),
                    None => out.push_str(&format!("{pad}{{\n")),
                }
                stmts_capy(b, ind + 1, out);
                out.push_str(&format!("{pad}}}\n"));
            }
            Stmt::Brk(l) => out.push_str(&format!("{pad}break `l{l};\n")),
            Stmt::Cont(l) => out.push_str(&format!("{pad}continue `l{l};\n")),
            Stmt::Ret(None) => out.push_str(&format!("{pad}return;\n")),
            Stmt::Ret(Some(e)) => out.push_str(&format!("{pad}return {};\n", e.capy())),
            Stmt::Defer(s) => {
                let mut inner = String::new();
                s.capy(0, &mut inner);
                out.push_str(&format!("{pad}defer {}", inner.trim_start()));
            }
            Stmt::ExprS(e) => out.push_str(&format!("{pad}{};\n", e.capy())),
            Stmt::Raw(t) => out.push_str(&format!("{pad}{t}\n")),
            Stmt::Switch(sc, ty, arg, arms, d) => {
                match arg {
                    Some(x) => out.push_str(&format!("{pad}switch v{x} in {} {{\n", sc.capy())),
                    None => out.push_str(&format!("{pad}switch {} {{\n", sc.capy())),
                }
                for (k, b) in arms {
                    let head = match ty {
                        Ty::Enum(_) => format!(".V{k}"),
                        Ty::Opt(p) => if *k == 0 { "nil".to_string() } else { p.capy() },
                        Ty::Eu(e, o) => if *k == 0 { e.capy() } else { o.capy() },
                        _ => "?".into(),
                    };
                    out.push_str(&format!("{pad}    {head} => {{\n"));
                    stmts_capy(b, ind + 2, out);
                    out.push_str(&format!("{pad}    }},\n"));
                }
                if let Some(d) = d {
                    out.push_str(&format!("{pad}    _ => {{\n"));
                    stmts_capy(d, ind + 2, out);
                    out.push_str(&format!("{pad}    }},\n"));
                }
                out.push_str(&format!("{pad}}}\n"));
            }
        }
    }
}

#[derive(Clone, Copy, Debug, PartialEq, Eq)]
pub enum Global {
    Struct(usize),
    Enum(usize),
    Fn(usize),
}

impl Program {
    pub fn globals(&self) -> Vec<Global> {
        (0..self.structs.len()).map(Global::Struct).chain((0..self.enums.len()).map(Global::Enum)).chain((0..self.fns.len()).map(Global::Fn)).collect()
    }

    fn global_capy(&self, g: Global) -> String {
        match g {
            Global::Struct(i) => format!(
                "S{} :: struct {{ {} }};\n\n",
                i,
                self.structs[i].fields.iter().enumerate().map(|(k, t)| format!("m{}: {}", k, t.capy())).collect::<Vec<_>>().join(", ")
            ),
            Global::Enum(i) => format!(
                "E{} :: enum {{ {} }};\n\n",
                i,
                self.enums[i]
                    .variants
                    .iter()
                    .enumerate()
                    .map(|(k, t)| match t {
                        Some(t) => format!("V{}: {}", k, t.capy()),
                        None => format!("V{k}"),
                    })
                    .collect::<Vec<_>>()
                    .join(", ")
            ),
            Global::Fn(i) => {
                let f = &self.fns[i];
                let name = if i == 0 { "main".to_string() } else { format!("f{i}") };
                let params = f.params.iter().map(|(x, t)| format!("v{}: {}", x, t.capy())).collect::<Vec<_>>().join(", ");
                let ret = if f.ret == Ty::Void { String::new() } else { format!(" -> {}", f.ret.capy()) };
                let mut s = format!("{name} :: ({params}){ret} {{\n");
                stmts_capy(&f.body, 1, &mut s);
                s.push_str("}\n\n");
                s
            }
        }
    }

    /// one file, global definitions in the given textual order
    pub fn capy_ordered(&self, order: &[Global]) -> String {
        let mut s = String::from("core :: #mod(\"core\");\n\n");
        for g in order {
            s.push_str(&self.global_capy(*g));
        }
        s
    }

    /// several files: `file_of[k]` = file index of `self.globals()[k]`; file 0 is the root and must
    /// contain `main`. Every file imports all the others (import cycles are allowed).
    pub fn capy_files(&self, order: &[Global], file_of: &dyn std::ops::Fn(Global) -> usize, nfiles: usize) -> Vec<(String, String)> {
        let q = Qual {
            file_of_fn: (0..self.fns.len()).map(|i| file_of(Global::Fn(i))).collect(),
            file_of_struct: (0..self.structs.len()).map(|i| file_of(Global::Struct(i))).collect(),
            file_of_enum: (0..self.enums.len()).map(|i| file_of(Global::Enum(i))).collect(),
            current: 0,
        };
        let mut files = vec![];
        for f in 0..nfiles {
            QUAL.with(|c| *c.borrow_mut() = Some(Qual { current: f, ..q.clone() }));
            let mut s = String::from("core :: #mod(\"core\");\n");
            for g in 0..nfiles {
                if g != f {
                    s.push_str(&format!("file{g} :: #import(\"file{g}.capy\");\n"));
                }
            }
            s.push('\n');
            for g in order {
                if file_of(*g) == f {
                    s.push_str(&self.global_capy(*g));
                }
            }
            files.push((format!("file{f}.capy"), s));
        }
        QUAL.with(|c| *c.borrow_mut() = None);
        files
    }

    /// one file: structs, enums, then the functions (callers after callees)
    pub fn capy(&self) -> String {
        let mut order: Vec<Global> = (0..self.structs.len()).map(Global::Struct).collect();
        order.extend((0..self.enums.len()).map(Global::Enum));
        order.extend((0..self.fns.len()).rev().map(Global::Fn));
        self.capy_ordered(&order)
    }
}

// ---- visitors, static features -----------------------------------------------------------

pub fn visit_expr(e: &Expr, f: &mut dyn FnMut(&Expr)) {
    f(e);
    match e {
        Expr::Lit(..) | Expr::BLit(_) | Expr::Var(_) | Expr::Nil | Expr::FnRef(_) | Expr::CharLit(_) => {}
        Expr::CallV(c, args) => {
            visit_expr(c, f);
            for a in args {
                visit_expr(a, f);
            }
        }
        Expr::Bin(_, _, a, b) | Expr::Cmp(_, _, a, b) | Expr::LAnd(a, b) | Expr::LOr(a, b) | Expr::Index(a, b) => {
            visit_expr(a, f);
            visit_expr(b, f);
        }
        Expr::LNot(a) | Expr::Neg(_, a) | Expr::BNot(_, a) | Expr::Cast(_, _, a) | Expr::Field(a, _) | Expr::SomeE(a)
        | Expr::Unwrap(_, a) | Expr::IsSome(_, a) | Expr::IsVariant(_, _, a) | Expr::UnwrapVariant(_, _, a) | Expr::EuLit(_, a)
        | Expr::EuIsOk(_, a) | Expr::EuUnwrap(_, _, a) | Expr::Try(a) | Expr::Coerce(_, a) | Expr::Deref(a) | Expr::Len(a)
        | Expr::SliceToArr(_, _, a) => visit_expr(a, f),
        Expr::VariantLit(_, _, pl) => {
            if let Some(a) = pl {
                visit_expr(a, f);
            }
        }
        Expr::Call(_, args) | Expr::ArrLit(_, args) | Expr::StructLit(_, args) => {
            for a in args {
                visit_expr(a, f);
            }
        }
        Expr::Ite(c, a, b) => {
            visit_expr(c, f);
            visit_expr(a, f);
            visit_expr(b, f);
        }
        Expr::AddrOf(_, p) | Expr::SliceOf(p) => visit_place(p, f),
    }
}

pub fn visit_place(p: &Place, f: &mut dyn FnMut(&Expr)) {
    match p {
        Place::Var(_) => {}
        Place::Index(q, i) => {
            visit_place(q, f);
            visit_expr(i, f);
        }
        Place::Field(q, _) => visit_place(q, f),
        Place::Deref(e) => visit_expr(e, f),
    }
}

/// every statement (nested ones included), then every expression in it
pub fn visit_stmts(ss: &[Stmt], fs: &mut dyn FnMut(&Stmt), fe: &mut dyn FnMut(&Expr)) {
    for s in ss {
        fs(s);
        match s {
            Stmt::Let(_, _, _, e) | Stmt::Print(e) | Stmt::ExprS(e) | Stmt::Ret(Some(e)) => visit_expr(e, fe),
            Stmt::Assign(p, e) | Stmt::OpAssign(_, _, p, e) => {
                visit_place(p, fe);
                visit_expr(e, fe);
            }
            Stmt::If(c, a, b) => {
                visit_expr(c, fe);
                visit_stmts(a, fs, fe);
                visit_stmts(b, fs, fe);
            }
            Stmt::While(_, c, b) => {
                visit_expr(c, fe);
                visit_stmts(b, fs, fe);
            }
            Stmt::Block(_, b) => visit_stmts(b, fs, fe),
            Stmt::Switch(sc, _, _, arms, d) => {
                visit_expr(sc, fe);
                for (_, b) in arms {
                    visit_stmts(b, fs, fe);
                }
                if let Some(b) = d {
                    visit_stmts(b, fs, fe);
                }
            }
            Stmt::Defer(s) => visit_stmts(std::slice::from_ref(&**s), fs, fe),
            Stmt::Brk(_) | Stmt::Cont(_) | Stmt::Ret(None) | Stmt::Raw(_) => {}
        }
    }
}

fn place_has_call(p: &Place) -> bool {
    let mut found = false;
    visit_place(p, &mut |e| {
        if matches!(e, Expr::Call(..)) {
            found = true;
        }
    });
    found
}

/// What a generated program uses of the addressable store (static, per program; used for the
/// coverage counters of C01's evidence).
#[derive(Clone, Debug, Default)]
pub struct Features {
    /// some `^place` / `^mut place`
    pub pointers: bool,
    /// an assignment whose destination goes through `p^`
    pub ptr_write: bool,
    /// a read `p^` / `p^.f` / `p^[i]`
    pub ptr_read: bool,
    /// a call with a pointer argument
    pub ptr_arg: bool,
    /// a function with a `^mut` parameter that writes through it
    pub callee_writes: bool,
    /// a variable is the target of `^mut` and is also accessed by name in the same function
    pub alias_ptr_and_name: bool,
    /// two `^mut` to (parts of) the same variable, or a `^mut` pointer variable copied
    pub alias_two_ptrs: bool,
    /// a pointer field in a struct literal / an optional pointer
    pub ptr_in_struct: bool,
    pub ptr_in_opt: bool,
    /// some array -> slice conversion
    pub slices: bool,
    pub slice_read: bool,
    pub slice_write: bool,
    pub slice_arg: bool,
    pub slice_len: bool,
    /// an index into a slice that may be out of bounds at run time
    pub slice_oob_possible: bool,
    /// `[N]T.(slice)`
    pub slice_to_array: bool,
    /// a function stored in a local and called through it
    pub fn_value_call: bool,
    /// a function that calls itself (bounded by a counter parameter)
    pub recursion: bool,
    /// … passing a pointer to one of its own locals / parameters down
    pub recursion_with_pointer: bool,
    pub chars: bool,
}

impl Features {
    pub fn labels(&self) -> Vec<&'static str> {
        let mut v = vec![];
        let mut add = |b: bool, l: &'static str| {
            if b {
                v.push(l)
            }
        };
        add(self.pointers, "pointers");
        add(self.ptr_write, "write-through-pointer");
        add(self.ptr_read, "read-through-pointer");
        add(self.ptr_arg, "pointer-argument");
        add(self.callee_writes, "callee-writes-through-mut-parameter");
        add(self.alias_ptr_and_name, "alias:pointer+name");
        add(self.alias_two_ptrs, "alias:two-pointers");
        add(self.ptr_in_struct, "pointer-in-struct");
        add(self.ptr_in_opt, "pointer-in-optional");
        add(self.slices, "slices");
        add(self.slice_read, "slice-read");
        add(self.slice_write, "write-through-slice");
        add(self.slice_arg, "slice-argument");
        add(self.slice_len, "slice-len");
        add(self.slice_oob_possible, "slice-index-possibly-out-of-bounds");
        add(self.slice_to_array, "slice-to-array-cast");
        add(self.fn_value_call, "call-through-function-value");
        add(self.recursion, "recursion");
        add(self.recursion_with_pointer, "recursion-passing-pointer");
        add(self.chars, "char");
        v
    }
}

impl Program {
    pub fn features(&self) -> Features {
        use std::collections::{HashMap, HashSet};
        let mut ft = Features { slice_oob_possible: self.slice_oob, ..Default::default() };
        for (fi, f) in self.fns.iter().enumerate() {
            visit_stmts(&f.body, &mut |_| {}, &mut |e| match e {
                Expr::Call(g, args) if *g == fi => {
                    ft.recursion = true;
                    if args.iter().any(|a| matches!(a, Expr::AddrOf(..))) {
                        ft.recursion_with_pointer = true;
                    }
                }
                Expr::CallV(..) => ft.fn_value_call = true,
                Expr::CharLit(_) | Expr::Cast(_, Ty::Char, _) => ft.chars = true,
                Expr::SliceToArr(..) => ft.slice_to_array = true,
                _ => {}
            });
            // variable -> type, as declared in this function
            let mut tys: HashMap<usize, Ty> = f.params.iter().cloned().collect();
            visit_stmts(&f.body, &mut |s| {
                if let Stmt::Let(x, t, _, _) = s {
                    tys.insert(*x, t.clone());
                }
            }, &mut |_| {});
            let is_slice_var = |e: &Expr| matches!(e, Expr::Var(x) if matches!(tys.get(x), Some(Ty::Slice(_))));
            let mut mut_targets: HashMap<usize, usize> = HashMap::new();
            let mut named: HashSet<usize> = HashSet::new();
            let mut_params: HashSet<usize> = f.params.iter().filter(|p| matches!(p.1, Ty::Ptr(true, _))).map(|p| p.0).collect();
            let mut stmt_facts: Vec<(bool, bool, Option<usize>, bool)> = vec![];
            visit_stmts(
                &f.body,
                &mut |s| match s {
                    Stmt::Assign(p, _) | Stmt::OpAssign(_, _, p, _) => {
                        // (through deref, through slice, root variable, deref of a ^mut parameter)
                        let mut q = p;
                        let mut through_slice = false;
                        let mut deref_param = false;
                        loop {
                            match q {
                                Place::Index(inner, _) => {
                                    if let Place::Var(x) = &**inner {
                                        if matches!(tys.get(x), Some(Ty::Slice(_))) {
                                            through_slice = true;
                                        }
                                    }
                                    q = inner;
                                }
                                Place::Field(inner, _) => q = inner,
                                Place::Deref(e) => {
                                    if let Expr::Var(x) = &**e {
                                        deref_param = mut_params.contains(x);
                                    }
                                    break;
                                }
                                Place::Var(_) => break,
                            }
                        }
                        stmt_facts.push((p.through_deref(), through_slice, p.root_var(), deref_param));
                    }
                    Stmt::Let(_, Ty::Ptr(true, _), _, Expr::Var(_)) => ft.alias_two_ptrs = true,
                    Stmt::Let(_, Ty::Opt(p), _, _) if matches!(**p, Ty::Ptr(..)) => ft.ptr_in_opt = true,
                    _ => {}
                },
                &mut |_| {},
            );
            visit_stmts(
                &f.body,
                &mut |_| {},
                &mut |e| match e {
                    Expr::AddrOf(m, p) => {
                        ft.pointers = true;
                        if *m {
                            if let Some(x) = p.root_var() {
                                *mut_targets.entry(x).or_insert(0) += 1;
                            }
                        }
                    }
                    Expr::Deref(_) => ft.ptr_read = true,
                    Expr::SliceOf(_) => ft.slices = true,
                    Expr::Len(a) if is_slice_var(a) => ft.slice_len = true,
                    Expr::Index(a, _) if is_slice_var(a) => ft.slice_read = true,
                    Expr::Var(x) => {
                        named.insert(*x);
                    }
                    Expr::Call(_, args) => {
                        for a in args {
                            match a {
                                Expr::AddrOf(..) => ft.ptr_arg = true,
                                Expr::SliceOf(_) => ft.slice_arg = true,
                                Expr::Var(x) => match tys.get(x) {
                                    Some(Ty::Ptr(..)) => ft.ptr_arg = true,
                                    Some(Ty::Slice(_)) => ft.slice_arg = true,
                                    _ => {}
                                },
                                _ => {}
                            }
                        }
                    }
                    Expr::StructLit(_, es) => {
                        if es.iter().any(|e| matches!(e, Expr::AddrOf(..)) || matches!(e, Expr::Var(x) if matches!(tys.get(x), Some(Ty::Ptr(..))))) {
                            ft.ptr_in_struct = true;
                        }
                    }
                    _ => {}
                },
            );
            for (through_deref, through_slice, root, deref_param) in stmt_facts {
                if through_deref {
                    ft.ptr_write = true;
                }
                if through_slice {
                    ft.slice_write = true;
                }
                if deref_param {
                    ft.callee_writes = true;
                }
                if let Some(x) = root {
                    named.insert(x);
                }
            }
            for (x, n) in &mut_targets {
                if *n >= 2 {
                    ft.alias_two_ptrs = true;
                }
                if named.contains(x) {
                    ft.alias_ptr_and_name = true;
                }
            }
        }
        ft
    }
}

// ---- generator ----------------------------------------------------------------------------

#[derive(Clone)]
struct VarInfo {
    id: usize,
    ty: Ty,
    mutable: bool,
    /// loop counters must not be assigned by generated code
    reserved: bool,
    /// block nesting depth of the declaration (parameters and function-level locals: 0). A
    /// pointer stored in a variable of depth d only ever refers to variables of depth <= d, so no
    /// pointer outlives the block of its pointee.
    depth: u32,
    /// slice variable through which elements may be written (mutable binding over a mutable array)
    writable_slice: bool,
    /// slice variable: every array it may refer to has at least this many elements
    min_len: u32,
    /// immutable slice binding made from an array of exactly this length
    exact_len: Option<u32>,
}

fn vinfo(id: usize, ty: Ty, mutable: bool, reserved: bool, depth: u32) -> VarInfo {
    VarInfo { id, ty, mutable, reserved, depth, writable_slice: false, min_len: 1, exact_len: None }
}

pub struct GenCfg {
    pub max_fns: usize,
    pub max_stmts: usize,
    pub max_depth: u32,
    /// allow expressions that may fault at run time (out-of-range index, wrong unwrap)
    pub faults: bool,
    /// pointers and slices (`^T`, `^mut T`, `[]T`), function values
    pub pointers: bool,
    /// bounded self-recursion (a `u8` counter parameter)
    pub recursion: bool,
    /// the `char` type
    pub chars: bool,
}

impl Default for GenCfg {
    fn default() -> Self {
        GenCfg { max_fns: 4, max_stmts: 10, max_depth: 4, faults: true, pointers: true, recursion: true, chars: true }
    }
}

struct Gen<'a> {
    rng: &'a mut Rng,
    cfg: &'a GenCfg,
    structs: Vec<StructDef>,
    enums: Vec<EnumDef>,
    /// signatures of the functions generated so far (callable from later ones): index → (params, ret)
    sigs: Vec<(usize, Vec<Ty>, Ty)>,
    next_var: usize,
    next_label: usize,
    vars: Vec<VarInfo>,
    /// enclosing labelled constructs: (label, is_loop)
    labels: Vec<(usize, bool)>,
    ret_ty: Ty,
    fault_budget: u32,
    /// structs without pointer fields (the only ones `any_ty` hands out)
    plain_structs: Vec<usize>,
    /// block depth of the statement list being generated
    #[allow(dead_code)]
    cur_depth: u32,
    slice_oob: bool,
    /// function index -> position of its recursion counter parameter
    rec_param: std::collections::HashMap<usize, usize>,
    /// the function being generated, if it may call itself: (index, parameter types, result, counter variable)
    self_fn: Option<(usize, Vec<Ty>, Ty, usize)>,
    self_called: bool,
}

const INT_TYS: [(bool, u32); 8] = [(true, 8), (true, 16), (true, 32), (true, 64), (false, 8), (false, 16), (false, 32), (false, 64)];

impl<'a> Gen<'a> {
    fn int_ty(&mut self) -> Ty {
        let (s, b) = *self.rng.pick(&INT_TYS);
        Ty::Int(s, b)
    }
    fn scalar_ty(&mut self) -> Ty {
        if self.cfg.chars && self.rng.chance(1, 45) {
            return Ty::Char;
        }
        if self.rng.chance(1, 6) { Ty::Bool } else { self.int_ty() }
    }
    fn any_ty(&mut self, depth: u32) -> Ty {
        match self.rng.below(10) {
            0 | 1 if depth > 0 => {
                let n = 1 + self.rng.below(4) as u32;
                let e = if self.rng.chance(1, 4) { self.any_ty(depth - 1) } else { self.scalar_ty() };
                Ty::Arr(n, Box::new(e))
            }
            2 if depth > 0 => Ty::Opt(Box::new(self.scalar_ty())),
            3 | 4 if !self.plain_structs.is_empty() => Ty::Struct(*self.rng.pick(&self.plain_structs.clone())),
            5 if !self.enums.is_empty() => Ty::Enum(self.rng.below(self.enums.len() as u64) as usize),
            6 if depth > 0 => {
                // error union: the error side is bool or an enum, the ok side an integer
                let e = if !self.enums.is_empty() && self.rng.chance(1, 2) { Ty::Enum(self.rng.below(self.enums.len() as u64) as usize) } else { Ty::Bool };
                Ty::Eu(Box::new(e), Box::new(self.int_ty()))
            }
            _ => self.scalar_ty(),
        }
    }
    fn fresh_var(&mut self) -> usize {
        self.next_var += 1;
        self.next_var
    }
    fn fresh_label(&mut self) -> usize {
        self.next_label += 1;
        self.next_label
    }
    fn lit(&mut self, t: &Ty) -> Expr {
        let (lo, hi) = t.range();
        let z = match self.rng.below(8) {
            0 => lo,
            1 => hi,
            2 => 0,
            3 => 1,
            4 => if lo < 0 { -1 } else { hi - 1 },
            _ => {
                let span = (hi - lo).min(200);
                (self.rng.below(span as u64 + 1) as i128 - if lo < 0 { span / 2 } else { 0 }).clamp(lo, hi)
            }
        };
        Expr::Lit(t.clone(), z)
    }
    fn vars_of(&self, t: &Ty) -> Vec<VarInfo> {
        self.vars.iter().filter(|v| &v.ty == t).cloned().collect()
    }

    // ---- pointers and slices ------------------------------------------------------------
    //
    // Lifetime discipline (so that no pointer outlives its pointee; C01 is about defined
    // behaviour only): every pointer-carrying *value* built for a destination of block depth
    // `limit` mentions only variables of depth <= limit (both in `^place` and when an existing
    // pointer variable is copied). Pointee types never contain pointers, functions never return
    // pointer-carrying types, and pointer-carrying values are never written through a pointer.

    fn char_lit(&mut self) -> Expr {
        let set = b"abcdefghijklmnopqrstuvwxyzABCDEFGHIJKLMNOPQRSTUVWXYZ0123456789";
        Expr::CharLit(*self.rng.pick(set))
    }

    /// an in-range literal index
    fn lit_index(&mut self, n: u32) -> Expr {
        Expr::Lit(Ty::Int(false, 64), self.rng.below(n.max(1) as u64) as i128)
    }

    /// an index into the slice variable `v`: a literal below its minimum length, a run-time value
    /// reduced modulo `.len`, or (rarely, in main) a literal that may be out of bounds
    fn slice_index(&mut self, v: &VarInfo, depth: u32) -> Expr {
        let ut = Ty::Int(false, 64);
        match self.rng.below(10) {
            0..=4 => self.lit_index(v.min_len),
            5..=7 if depth > 0 => {
                let a = self.expr(&ut, depth.saturating_sub(1).min(1));
                Expr::Bin(BinOp::Rem, ut.clone(), Box::new(a), Box::new(Expr::Len(Box::new(Expr::Var(v.id)))))
            }
            _ => {
                if self.cfg.faults && self.fault_budget > 0 && self.rng.chance(1, 2) {
                    self.fault_budget -= 1;
                    self.slice_oob = true;
                    Expr::Lit(ut, self.rng.below(v.min_len as u64 + 5) as i128)
                } else {
                    self.lit_index(v.min_len)
                }
            }
        }
    }

    /// all places of exactly type `t` reachable from variables of depth <= `limit` (through fields,
    /// in-range literal indices, `^mut`/`^` pointers and slices); `need_mut`: assignable ones only
    fn places_of_type(&mut self, t: &Ty, need_mut: bool, limit: u32) -> Vec<Place> {
        let mut out = vec![];
        let vars = self.vars.clone();
        for v in &vars {
            if v.depth > limit {
                continue;
            }
            // (root place, its type, writable)
            let mut roots: Vec<(Place, Ty, bool)> = vec![];
            match &v.ty {
                Ty::Ptr(pm, inner) => roots.push((Place::Deref(Box::new(Expr::Var(v.id))), (**inner).clone(), *pm)),
                Ty::Slice(e) => {
                    let i = self.lit_index(v.min_len);
                    roots.push((Place::Index(Box::new(Place::Var(v.id)), Box::new(i)), (**e).clone(), v.writable_slice && v.mutable));
                }
                _ => roots.push((Place::Var(v.id), v.ty.clone(), v.mutable && !v.reserved)),
            }
            if let Ty::Struct(id) = &v.ty {
                // pointer fields of a struct variable
                for (k, ft) in self.structs[*id].fields.clone().iter().enumerate() {
                    if let Ty::Ptr(pm, inner) = ft {
                        roots.push((Place::Deref(Box::new(Expr::Field(Box::new(Expr::Var(v.id)), k))), (**inner).clone(), *pm));
                    }
                }
            }
            for (root, rt, w) in roots {
                if need_mut && !w {
                    continue;
                }
                if &rt == t {
                    out.push(root.clone());
                }
                match &rt {
                    Ty::Arr(n, e) if &**e == t => {
                        let i = self.lit_index(*n);
                        out.push(Place::Index(Box::new(root.clone()), Box::new(i)));
                    }
                    Ty::Struct(id) => {
                        for (k, ft) in self.structs[*id].fields.clone().iter().enumerate() {
                            if ft == t {
                                out.push(Place::Field(Box::new(root.clone()), k));
                            } else if let Ty::Arr(n, e) = ft {
                                if &**e == t {
                                    let i = self.lit_index(*n);
                                    out.push(Place::Index(Box::new(Place::Field(Box::new(root.clone()), k)), Box::new(i)));
                                }
                            }
                        }
                    }
                    _ => {}
                }
            }
        }
        out
    }

    /// a value of type `^T` / `^mut T` for a destination of depth `limit`
    fn ptr_expr(&mut self, m: bool, inner: &Ty, limit: u32) -> Option<Expr> {
        let mut cands: Vec<Expr> = vec![];
        let vars = self.vars.clone();
        for v in &vars {
            if v.depth > limit {
                continue;
            }
            let fits = |t: &Ty| matches!(t, Ty::Ptr(pm, i) if &**i == inner && (*pm || !m));
            if fits(&v.ty) {
                cands.push(Expr::Var(v.id));
            }
            if let Ty::Struct(id) = &v.ty {
                for (k, ft) in self.structs[*id].fields.iter().enumerate() {
                    if fits(ft) {
                        cands.push(Expr::Field(Box::new(Expr::Var(v.id)), k));
                    }
                }
            }
        }
        let places = self.places_of_type(inner, m, limit);
        // taking a fresh address is the common case
        if !places.is_empty() && (cands.is_empty() || self.rng.chance(2, 3)) {
            let p = self.rng.pick(&places).clone();
            return Some(Expr::AddrOf(m, Box::new(p)));
        }
        if cands.is_empty() {
            return None;
        }
        Some(self.rng.pick(&cands).clone())
    }

    /// a value of type `[]elem` (and the length of the array it is made from, a lower bound when it
    /// is a copy of a slice variable); `writable`: over a mutable array
    fn slice_expr(&mut self, elem: &Ty, writable: bool, min_len: u32, limit: u32) -> Option<(Expr, u32)> {
        let mut cands: Vec<(Expr, u32)> = vec![];
        let vars = self.vars.clone();
        for v in &vars {
            if v.depth > limit {
                continue;
            }
            if let Ty::Slice(e) = &v.ty {
                if &**e == elem && (!writable || v.writable_slice) && v.min_len >= min_len {
                    cands.push((Expr::Var(v.id), v.min_len));
                }
            }
        }
        for n in min_len.max(1)..=4 {
            let at = Ty::Arr(n, Box::new(elem.clone()));
            for p in self.places_of_type(&at, writable, limit) {
                cands.push((Expr::SliceOf(Box::new(p)), n));
            }
        }
        if cands.is_empty() {
            return None;
        }
        Some(self.rng.pick(&cands).clone())
    }

    /// an expression of a type that may carry pointers, for a destination of depth `limit`;
    /// `None` when nothing suitable is in scope
    fn try_expr(&mut self, t: &Ty, depth: u32, limit: u32) -> Option<Expr> {
        if !t.has_ptr(&self.structs) {
            return Some(self.expr(t, depth));
        }
        match t {
            Ty::Ptr(m, inner) => self.ptr_expr(*m, inner, limit),
            Ty::Slice(e) => self.slice_expr(e, false, 1, limit).map(|x| x.0),
            Ty::Opt(p) => {
                let vs: Vec<VarInfo> = self.vars_of(t).into_iter().filter(|v| v.depth <= limit).collect();
                if !vs.is_empty() && self.rng.chance(1, 3) {
                    return Some(Expr::Var(self.rng.pick(&vs).id));
                }
                if self.rng.chance(1, 4) {
                    return Some(Expr::Nil);
                }
                Some(match self.try_expr(p, depth, limit) {
                    Some(e) => Expr::SomeE(Box::new(e)),
                    None => Expr::Nil,
                })
            }
            Ty::Struct(id) => {
                let vs: Vec<VarInfo> = self.vars_of(t).into_iter().filter(|v| v.depth <= limit).collect();
                if !vs.is_empty() && self.rng.chance(1, 3) {
                    return Some(Expr::Var(self.rng.pick(&vs).id));
                }
                let fields = self.structs[*id].fields.clone();
                let d = depth.saturating_sub(1);
                let mut es = vec![];
                for ft in &fields {
                    es.push(self.try_expr(ft, d, limit)?);
                }
                Some(Expr::StructLit(*id, es))
            }
            _ => None,
        }
    }

    /// reads through pointers and slices that yield a value of type `t`
    fn mem_reads(&mut self, t: &Ty, depth: u32) -> Vec<Expr> {
        let mut cands: Vec<Expr> = vec![];
        let vars = self.vars.clone();
        for v in &vars {
            let mut roots: Vec<(Expr, Ty)> = vec![];
            match &v.ty {
                Ty::Ptr(_, inner) => roots.push((Expr::Deref(Box::new(Expr::Var(v.id))), (**inner).clone())),
                Ty::Slice(e) => {
                    let i = self.slice_index(v, depth);
                    roots.push((Expr::Index(Box::new(Expr::Var(v.id)), Box::new(i)), (**e).clone()));
                    if *t == Ty::Int(false, 64) {
                        cands.push(Expr::Len(Box::new(Expr::Var(v.id))));
                    }
                }
                Ty::Struct(id) => {
                    for (k, ft) in self.structs[*id].fields.clone().iter().enumerate() {
                        if let Ty::Ptr(_, inner) = ft {
                            roots.push((Expr::Deref(Box::new(Expr::Field(Box::new(Expr::Var(v.id)), k))), (**inner).clone()));
                        }
                    }
                }
                _ => {}
            }
            for (root, rt) in roots {
                if &rt == t {
                    cands.push(root.clone());
                }
                match &rt {
                    Ty::Arr(n, e) if &**e == t => {
                        let i = self.index_expr(*n, depth);
                        cands.push(Expr::Index(Box::new(root.clone()), Box::new(i)));
                    }
                    Ty::Struct(id) => {
                        for (k, ft) in self.structs[*id].fields.clone().iter().enumerate() {
                            if ft == t {
                                cands.push(Expr::Field(Box::new(root.clone()), k));
                            }
                        }
                    }
                    _ => {}
                }
            }
        }
        cands
    }

    fn has_mem_vars(&self) -> bool {
        self.vars.iter().any(|v| matches!(v.ty, Ty::Ptr(..) | Ty::Slice(_)) || v.ty.has_ptr(&self.structs))
    }

    /// make sure a place of type `inner` (assignable if `m`) is in scope, declaring a local if needed
    fn ensure_place(&mut self, inner: &Ty, m: bool, depth: u32, out: &mut Vec<Stmt>) {
        if self.places_of_type(inner, m, u32::MAX).is_empty() || self.rng.chance(1, 4) {
            let id = self.fresh_var();
            let init = self.expr(inner, 1);
            out.push(Stmt::Let(id, inner.clone(), true, init));
            self.vars.push(vinfo(id, inner.clone(), true, false, depth));
        }
    }

    /// declarations of pointers / slices / optional pointers / pointer-carrying structs
    fn mem_let(&mut self, depth: u32, out: &mut Vec<Stmt>) -> bool {
        let edepth = 2.min(self.cfg.max_depth);
        let have_ptr_structs = self.plain_structs.len() < self.structs.len();
        let roll = match self.rng.below(20) {
            0..=7 => 0,
            8..=11 => 5,
            12 | 13 => 7,
            14..=16 => if have_ptr_structs { 8 } else { 0 },
            _ => 9,
        };
        match roll {
            0..=4 => {
                // p : ^mut T : ^mut place   |   p : ^T = ^place
                let cands: Vec<VarInfo> = self.vars.iter().filter(|v| !v.ty.has_ptr(&self.structs) && !matches!(v.ty, Ty::FnPtr(..))).cloned().collect();
                if cands.is_empty() {
                    return false;
                }
                let v = self.rng.pick(&cands).clone();
                // a sub-place of v
                let mut t = v.ty.clone();
                let mut p = Place::Var(v.id);
                for _ in 0..2 {
                    match t.clone() {
                        Ty::Arr(n, e) if self.rng.chance(2, 3) => {
                            let i = self.lit_index(n);
                            p = Place::Index(Box::new(p), Box::new(i));
                            t = *e;
                        }
                        Ty::Struct(id) if self.rng.chance(2, 3) => {
                            let fields = self.structs[id].fields.clone();
                            let k = self.rng.below(fields.len() as u64) as usize;
                            p = Place::Field(Box::new(p), k);
                            t = fields[k].clone();
                        }
                        _ => break,
                    }
                }
                let m = v.mutable && !v.reserved && self.rng.chance(3, 4);
                let pt = Ty::Ptr(m, Box::new(t));
                let id = self.fresh_var();
                let vm = self.rng.chance(1, 3);
                out.push(Stmt::Let(id, pt.clone(), vm, Expr::AddrOf(m, Box::new(p))));
                self.vars.push(vinfo(id, pt, vm, false, depth));
                true
            }
            5 | 6 => {
                // s : []T = array place
                let elem = self.scalar_ty();
                let elems: Vec<Ty> = self
                    .vars
                    .iter()
                    .filter_map(|v| match &v.ty {
                        Ty::Arr(_, e) if !e.has_ptr(&self.structs) => Some((**e).clone()),
                        _ => None,
                    })
                    .collect();
                let elem = if elems.is_empty() { elem } else { self.rng.pick(&elems).clone() };
                let mut writable = self.rng.chance(2, 3);
                let mut got = self.slice_expr(&elem, writable, 1, u32::MAX);
                if got.is_none() && writable {
                    writable = false;
                    got = self.slice_expr(&elem, false, 1, u32::MAX);
                }
                if got.is_none() {
                    // no array in scope: make one
                    let n = 1 + self.rng.below(4) as u32;
                    let at = Ty::Arr(n, Box::new(elem.clone()));
                    let aid = self.fresh_var();
                    let init = self.expr(&at, 1);
                    out.push(Stmt::Let(aid, at.clone(), true, init));
                    self.vars.push(vinfo(aid, at, true, false, depth));
                    writable = self.rng.chance(2, 3);
                    got = Some((Expr::SliceOf(Box::new(Place::Var(aid))), n));
                }
                let Some((e, n)) = got else { return false };
                let wr = match &e {
                    Expr::SliceOf(_) => writable,
                    Expr::Var(x) => self.vars.iter().any(|v| v.id == *x && v.writable_slice),
                    _ => false,
                };
                let m = wr || self.rng.chance(1, 3);
                let st = Ty::Slice(Box::new(elem));
                let id = self.fresh_var();
                out.push(Stmt::Let(id, st.clone(), m, e));
                let mut vi = vinfo(id, st, m, false, depth);
                vi.writable_slice = wr && m;
                vi.min_len = n;
                if !m && matches!(out.last(), Some(Stmt::Let(_, _, _, Expr::SliceOf(_)))) {
                    vi.exact_len = Some(n);
                }
                self.vars.push(vi);
                true
            }
            7 => {
                // o : ?^mut T = p / nil
                let ptrs: Vec<VarInfo> = self.vars.iter().filter(|v| matches!(v.ty, Ty::Ptr(..))).cloned().collect();
                let pty = if ptrs.is_empty() {
                    let inner = self.int_ty();
                    let m = self.rng.chance(2, 3);
                    self.ensure_place(&inner, m, depth, out);
                    Ty::Ptr(m, Box::new(inner))
                } else {
                    self.rng.pick(&ptrs).ty.clone()
                };
                let ot = Ty::Opt(Box::new(pty));
                let Some(e) = self.try_expr(&ot, edepth, u32::MAX) else { return false };
                let id = self.fresh_var();
                let m = self.rng.chance(1, 2);
                out.push(Stmt::Let(id, ot.clone(), m, e));
                self.vars.push(vinfo(id, ot, m, false, depth));
                true
            }
            8 => {
                // a struct with pointer fields
                let ptr_structs: Vec<usize> = (0..self.structs.len()).filter(|i| !self.plain_structs.contains(i)).collect();
                if ptr_structs.is_empty() {
                    return false;
                }
                let sid = *self.rng.pick(&ptr_structs);
                let t = Ty::Struct(sid);
                for ft in self.structs[sid].fields.clone() {
                    if let Ty::Ptr(m, inner) = ft {
                        self.ensure_place(&inner, m, depth, out);
                    }
                }
                let Some(e) = self.try_expr(&t, edepth, u32::MAX) else { return false };
                let id = self.fresh_var();
                let m = self.rng.chance(2, 3);
                out.push(Stmt::Let(id, t.clone(), m, e));
                self.vars.push(vinfo(id, t, m, false, depth));
                true
            }
            _ => self.alias_burst(depth, out),
        }
    }

    /// two names for one cell, used alternately: `p := ^mut x; p^ = a; print(x); x += b; print(p^);
    /// q := p; q^ = c; print(p^); print(x)`
    fn alias_burst(&mut self, depth: u32, out: &mut Vec<Stmt>) -> bool {
        let cands: Vec<VarInfo> = self.vars.iter().filter(|v| v.mutable && !v.reserved && v.ty.is_int()).cloned().collect();
        if cands.is_empty() {
            return false;
        }
        let x = self.rng.pick(&cands).clone();
        let t = x.ty.clone();
        let pt = Ty::Ptr(true, Box::new(t.clone()));
        let p = self.fresh_var();
        out.push(Stmt::Let(p, pt.clone(), false, Expr::AddrOf(true, Box::new(Place::Var(x.id)))));
        self.vars.push(vinfo(p, pt.clone(), false, false, depth));
        let a = self.expr(&t, 1);
        out.push(Stmt::Assign(Place::Deref(Box::new(Expr::Var(p))), a));
        out.push(Stmt::Print(Expr::Var(x.id)));
        let b = self.expr(&t, 1);
        out.push(Stmt::OpAssign(BinOp::Add, t.clone(), Place::Var(x.id), b));
        out.push(Stmt::Print(Expr::Deref(Box::new(Expr::Var(p)))));
        if self.rng.chance(1, 2) {
            let q = self.fresh_var();
            out.push(Stmt::Let(q, pt.clone(), false, Expr::Var(p)));
            self.vars.push(vinfo(q, pt, false, false, depth));
            let c = self.expr(&t, 1);
            out.push(Stmt::OpAssign(BinOp::Xor, t.clone(), Place::Deref(Box::new(Expr::Var(q))), c));
            out.push(Stmt::Print(Expr::Deref(Box::new(Expr::Var(p)))));
            out.push(Stmt::Print(Expr::Var(x.id)));
        }
        true
    }

    /// arguments for a call of `f`; the recursion counter (if any) gets a small literal
    fn call_args(&mut self, f: Option<usize>, ps: &[Ty], d: u32) -> Option<Vec<Expr>> {
        let rec = f.and_then(|f| self.rec_param.get(&f).copied());
        let mut args = vec![];
        for (j, p) in ps.iter().enumerate() {
            if Some(j) == rec {
                args.push(Expr::Lit(p.clone(), self.rng.below(3) as i128));
                continue;
            }
            // arguments may refer to anything in scope: the callee cannot keep a pointer
            args.push(self.try_expr(p, d, u32::MAX)?);
        }
        Some(args)
    }

    /// `v : (p0: T0, ..) -> R = fK;` — a function stored in a local
    fn fn_let(&mut self, depth: u32, out: &mut Vec<Stmt>) -> bool {
        let c: Vec<(usize, Vec<Ty>, Ty)> = self.sigs.iter().filter(|s| !self.rec_param.contains_key(&s.0)).cloned().collect();
        if c.is_empty() {
            return false;
        }
        let (f, ps, r) = self.rng.pick(&c).clone();
        let t = Ty::FnPtr(ps, Box::new(r));
        let id = self.fresh_var();
        let m = self.rng.chance(1, 3);
        out.push(Stmt::Let(id, t.clone(), m, Expr::FnRef(f)));
        self.vars.push(vinfo(id, t.clone(), m, false, depth));
        // … and usually called through it right away (later calls come from `call_or`/`call_stmt`)
        if let (Ty::FnPtr(ps, r), true) = (&t, self.rng.chance(3, 4)) {
            if let Some(args) = self.call_args(None, ps, 1) {
                let call = Expr::CallV(Box::new(Expr::Var(id)), args);
                match &**r {
                    Ty::Void => out.push(Stmt::ExprS(call)),
                    Ty::Int(..) | Ty::Bool | Ty::Char => out.push(Stmt::Print(call)),
                    rt => {
                        let rid = self.fresh_var();
                        out.push(Stmt::Let(rid, rt.clone(), false, call));
                        self.vars.push(vinfo(rid, rt.clone(), false, false, depth));
                    }
                }
            }
        }
        true
    }

    /// `if cnt > 0 { self(cnt - 1, ..) }`: the function being generated calls itself
    fn self_call(&mut self, depth: u32, out: &mut Vec<Stmt>) -> bool {
        let Some((f, ps, ret, cnt)) = self.self_fn.clone() else { return false };
        let j = self.rec_param[&f];
        let ct = ps[j].clone();
        let mut args = vec![];
        for (i, p) in ps.iter().enumerate() {
            if i == j {
                args.push(Expr::Bin(BinOp::Sub, ct.clone(), Box::new(Expr::Var(cnt)), Box::new(Expr::Lit(ct.clone(), 1))));
            } else {
                match self.try_expr(p, 1, u32::MAX) {
                    Some(e) => args.push(e),
                    None => return false,
                }
            }
        }
        let call = Expr::Call(f, args);
        let inner = match &ret {
            Ty::Void => Stmt::ExprS(call),
            Ty::Int(..) | Ty::Bool | Ty::Char => Stmt::Print(call),
            t => Stmt::Let(self.fresh_var(), t.clone(), false, call),
        };
        let _ = depth;
        let cond = Expr::Cmp(CmpOp::Gt, ct.clone(), Box::new(Expr::Var(cnt)), Box::new(Expr::Lit(ct, 0)));
        out.push(Stmt::If(cond, vec![inner], vec![]));
        self.self_called = true;
        true
    }

    /// a call statement (the only way `void` functions — typically writers through `^mut`
    /// parameters — are called)
    fn call_stmt(&mut self, depth: u32, out: &mut Vec<Stmt>) -> bool {
        if self.sigs.is_empty() {
            return false;
        }
        let with_ptr: Vec<(usize, Vec<Ty>, Ty)> = self.sigs.iter().filter(|s| s.1.iter().any(|t| t.has_ptr(&self.structs))).cloned().collect();
        let (f, ps, ret) = if !with_ptr.is_empty() && self.rng.chance(3, 4) { self.rng.pick(&with_ptr).clone() } else { self.rng.pick(&self.sigs.clone()).clone() };
        let mut args = vec![];
        let mut after: Vec<Stmt> = vec![];
        let rec = self.rec_param.get(&f).copied();
        for (j, p) in ps.iter().enumerate() {
            if Some(j) == rec {
                args.push(Expr::Lit(p.clone(), self.rng.below(3) as i128));
                continue;
            }
            // a fresh local as the pointee (always possible), or whatever is in scope
            match p {
                Ty::Ptr(m, inner) if self.rng.chance(1, 2) || self.places_of_type(inner, *m, u32::MAX).is_empty() => {
                    let id = self.fresh_var();
                    let init = self.expr(inner, 1);
                    out.push(Stmt::Let(id, (**inner).clone(), true, init));
                    self.vars.push(vinfo(id, (**inner).clone(), true, false, depth));
                    args.push(Expr::AddrOf(*m, Box::new(Place::Var(id))));
                    if matches!(**inner, Ty::Int(..) | Ty::Bool) {
                        after.push(Stmt::Print(Expr::Var(id)));
                    }
                    continue;
                }
                Ty::Slice(el) if self.slice_expr(el, false, 1, u32::MAX).is_none() => {
                    let n = 1 + self.rng.below(4) as u32;
                    let at = Ty::Arr(n, el.clone());
                    let id = self.fresh_var();
                    let init = self.expr(&at, 1);
                    out.push(Stmt::Let(id, at.clone(), true, init));
                    self.vars.push(vinfo(id, at, true, false, depth));
                    args.push(Expr::SliceOf(Box::new(Place::Var(id))));
                    continue;
                }
                _ => {}
            }
            match self.try_expr(p, 1, u32::MAX) {
                Some(e) => args.push(e),
                None => return false,
            }
        }
        // sometimes through a function-valued local of that signature
        let fv: Vec<usize> = self.vars.iter().filter(|v| matches!(&v.ty, Ty::FnPtr(p2, r2) if p2 == &ps && **r2 == ret)).map(|v| v.id).collect();
        let call = if rec.is_none() && !fv.is_empty() && self.rng.chance(1, 2) { Expr::CallV(Box::new(Expr::Var(*self.rng.pick(&fv))), args) } else { Expr::Call(f, args) };
        match &ret {
            Ty::Void => out.push(Stmt::ExprS(call)),
            Ty::Int(..) | Ty::Bool | Ty::Char => out.push(Stmt::Print(call)),
            t => {
                let id = self.fresh_var();
                out.push(Stmt::Let(id, t.clone(), false, call));
                self.vars.push(vinfo(id, t.clone(), false, false, depth));
            }
        }
        out.extend(after);
        true
    }

    /// an expression of type `t`
    fn expr(&mut self, t: &Ty, depth: u32) -> Expr {
        let leaf = depth == 0 || self.rng.chance(1, 4);
        if self.cfg.pointers && !leaf && matches!(t, Ty::Int(..) | Ty::Bool | Ty::Char) && self.has_mem_vars() && self.rng.chance(1, 4) {
            let c = self.mem_reads(t, depth);
            if !c.is_empty() {
                return self.rng.pick(&c).clone();
            }
        }
        match t {
            Ty::Int(..) => {
                if leaf {
                    let vs = self.vars_of(t);
                    if !vs.is_empty() && self.rng.chance(3, 5) {
                        return Expr::Var(self.rng.pick(&vs).id);
                    }
                    return self.lit(t);
                }
                match self.rng.below(12) {
                    0..=3 => {
                        let op = *self.rng.pick(&[BinOp::Add, BinOp::Sub, BinOp::Mul, BinOp::And, BinOp::Or, BinOp::Xor]);
                        let a = self.expr(t, depth - 1);
                        let b = self.expr(t, depth - 1);
                        Expr::Bin(op, t.clone(), Box::new(a), Box::new(b))
                    }
                    4 => {
                        // division / remainder by a small positive literal (never 0, never MIN / -1)
                        let op = *self.rng.pick(&[BinOp::Div, BinOp::Rem]);
                        let a = self.expr(t, depth - 1);
                        let k = 1 + self.rng.below(7) as i128;
                        Expr::Bin(op, t.clone(), Box::new(a), Box::new(Expr::Lit(t.clone(), k)))
                    }
                    5 => {
                        let op = *self.rng.pick(&[BinOp::Shl, BinOp::Shr]);
                        let a = self.expr(t, depth - 1);
                        let bits = if let Ty::Int(_, b) = t { *b } else { 8 };
                        let k = self.rng.below(bits as u64) as i128;
                        Expr::Bin(op, t.clone(), Box::new(a), Box::new(Expr::Lit(t.clone(), k.min(t.range().1))))
                    }
                    6 => {
                        // cast from another scalar
                        let src = self.scalar_ty();
                        let a = self.expr(&src, depth - 1);
                        Expr::Cast(src, t.clone(), Box::new(a))
                    }
                    7 => self.call_or(t, depth),
                    8 => self.element_of(t, depth),
                    9 => {
                        if matches!(t, Ty::Int(true, _)) && self.rng.chance(1, 2) {
                            let a = self.expr(t, depth - 1);
                            Expr::Neg(t.clone(), Box::new(a))
                        } else {
                            let a = self.expr(t, depth - 1);
                            Expr::BNot(t.clone(), Box::new(a))
                        }
                    }
                    10 => {
                        let c = self.expr(&Ty::Bool, depth - 1);
                        let a = self.expr(t, depth - 1);
                        let b = self.expr(t, depth - 1);
                        Expr::Ite(Box::new(c), Box::new(a), Box::new(b))
                    }
                    _ => self.unwrap_of(t, depth),
                }
            }
            Ty::Bool => {
                if leaf {
                    let vs = self.vars_of(t);
                    if !vs.is_empty() && self.rng.chance(1, 2) {
                        return Expr::Var(self.rng.pick(&vs).id);
                    }
                    return Expr::BLit(self.rng.chance(1, 2));
                }
                if self.cfg.chars && self.rng.chance(1, 40) {
                    // `char` supports `==` and `!=` only
                    let op = *self.rng.pick(&[CmpOp::Eq, CmpOp::Ne]);
                    let a = self.expr(&Ty::Char, depth - 1);
                    let b = self.expr(&Ty::Char, depth - 1);
                    return Expr::Cmp(op, Ty::Char, Box::new(a), Box::new(b));
                }
                match self.rng.below(8) {
                    0..=3 => {
                        let it = self.int_ty();
                        let op = *self.rng.pick(&[CmpOp::Eq, CmpOp::Ne, CmpOp::Lt, CmpOp::Le, CmpOp::Gt, CmpOp::Ge]);
                        let a = self.expr(&it, depth - 1);
                        let b = self.expr(&it, depth - 1);
                        Expr::Cmp(op, it, Box::new(a), Box::new(b))
                    }
                    4 => {
                        let a = self.expr(t, depth - 1);
                        let b = self.expr(t, depth - 1);
                        if self.rng.chance(1, 2) { Expr::LAnd(Box::new(a), Box::new(b)) } else { Expr::LOr(Box::new(a), Box::new(b)) }
                    }
                    5 => {
                        let a = self.expr(t, depth - 1);
                        Expr::LNot(Box::new(a))
                    }
                    6 => {
                        // #is_variant on an optional variable
                        let opts: Vec<VarInfo> = self.vars.iter().filter(|v| matches!(v.ty, Ty::Opt(_))).cloned().collect();
                        if let Some(v) = opts.first().cloned() {
                            if let Ty::Opt(p) = &v.ty {
                                return Expr::IsSome((**p).clone(), Box::new(Expr::Var(v.id)));
                            }
                        }
                        Expr::BLit(true)
                    }
                    _ => self.element_of(t, depth),
                }
            }
            Ty::Arr(n, e) => {
                // `[N]T.(slice)`: the copy of the elements a slice of exactly that length refers to
                let exact: Vec<usize> = self.vars.iter().filter(|v| v.exact_len == Some(*n) && v.ty == Ty::Slice(e.clone())).map(|v| v.id).collect();
                if self.cfg.pointers && !exact.is_empty() && self.rng.chance(1, 3) {
                    return Expr::SliceToArr(*n, (**e).clone(), Box::new(Expr::Var(*self.rng.pick(&exact))));
                }
                let vs = self.vars_of(t);
                if !vs.is_empty() && self.rng.chance(1, 2) {
                    return Expr::Var(self.rng.pick(&vs).id);
                }
                if depth > 0 && self.rng.chance(1, 5) {
                    return self.call_or(t, depth);
                }
                let d = depth.saturating_sub(1);
                Expr::ArrLit((**e).clone(), (0..*n).map(|_| self.expr(e, d)).collect())
            }
            Ty::Struct(_) | Ty::Opt(_) if t.has_ptr(&self.structs) => self.try_expr(t, depth, 0).unwrap_or(Expr::Nil),
            Ty::Struct(id) => {
                let vs = self.vars_of(t);
                if !vs.is_empty() && self.rng.chance(1, 2) {
                    return Expr::Var(self.rng.pick(&vs).id);
                }
                if depth > 0 && self.rng.chance(1, 5) {
                    return self.call_or(t, depth);
                }
                let fields = self.structs[*id].fields.clone();
                let d = depth.saturating_sub(1);
                Expr::StructLit(*id, fields.iter().map(|ft| self.expr(ft, d)).collect())
            }
            Ty::Opt(p) => {
                let vs = self.vars_of(t);
                if !vs.is_empty() && self.rng.chance(1, 3) {
                    return Expr::Var(self.rng.pick(&vs).id);
                }
                if self.rng.chance(1, 3) {
                    Expr::Nil
                } else {
                    let d = depth.saturating_sub(1);
                    Expr::SomeE(Box::new(self.expr(p, d)))
                }
            }
            Ty::Enum(id) => {
                let vs = self.vars_of(t);
                if !vs.is_empty() && self.rng.chance(1, 2) {
                    return Expr::Var(self.rng.pick(&vs).id);
                }
                if depth > 0 && self.rng.chance(1, 5) {
                    return self.call_or(t, depth);
                }
                let variants = self.enums[*id].variants.clone();
                let k = self.rng.below(variants.len() as u64) as usize;
                let d = depth.saturating_sub(1);
                match &variants[k] {
                    None => Expr::VariantLit(*id, k, None),
                    Some(pt) => Expr::VariantLit(*id, k, Some(Box::new(self.expr(pt, d)))),
                }
            }
            Ty::Eu(e, o) => {
                let vs = self.vars_of(t);
                if !vs.is_empty() && self.rng.chance(1, 3) {
                    return Expr::Var(self.rng.pick(&vs).id);
                }
                if depth > 0 && self.rng.chance(1, 5) {
                    return self.call_or(t, depth);
                }
                let d = depth.saturating_sub(1);
                if self.rng.chance(2, 3) {
                    Expr::EuLit(true, Box::new(self.expr(o, d)))
                } else {
                    Expr::EuLit(false, Box::new(self.expr(e, d)))
                }
            }
            Ty::Void => Expr::BLit(false),
            // pointer-carrying types are only requested through `try_expr` (which knows the
            // destination's lifetime); reaching this is a generator bug, made visible as a rejection
            Ty::Ptr(..) | Ty::Slice(_) => self.try_expr(t, depth, 0).unwrap_or(Expr::Nil),
            Ty::Char => {
                let vs = self.vars_of(t);
                if !vs.is_empty() && self.rng.chance(2, 5) {
                    return Expr::Var(self.rng.pick(&vs).id);
                }
                if leaf {
                    return self.char_lit();
                }
                match self.rng.below(6) {
                    0 | 1 => {
                        // a printable character computed from an integer: base + (e % span)
                        let (base, span) = *self.rng.pick(&[(65i128, 26i128), (97, 26), (48, 10)]);
                        let u8t = Ty::Int(false, 8);
                        let e = self.expr(&u8t, depth - 1);
                        let off = Expr::Bin(BinOp::Rem, u8t.clone(), Box::new(e), Box::new(Expr::Lit(u8t.clone(), span)));
                        let sum = Expr::Bin(BinOp::Add, u8t.clone(), Box::new(Expr::Lit(u8t.clone(), base)), Box::new(off));
                        Expr::Cast(u8t, Ty::Char, Box::new(sum))
                    }
                    2 => self.call_or(t, depth),
                    3 => self.element_of(t, depth),
                    4 => {
                        let c = self.expr(&Ty::Bool, depth - 1);
                        let a = self.expr(t, depth - 1);
                        let b = self.expr(t, depth - 1);
                        Expr::Ite(Box::new(c), Box::new(a), Box::new(b))
                    }
                    _ => self.char_lit(),
                }
            }
            Ty::FnPtr(ps, r) => {
                // a function of that signature (one exists: the type was made from one)
                let c: Vec<usize> = self.sigs.iter().filter(|s| &s.1 == ps && s.2 == **r && !self.rec_param.contains_key(&s.0)).map(|s| s.0).collect();
                if c.is_empty() { Expr::Nil } else { Expr::FnRef(*self.rng.pick(&c)) }
            }
        }
    }

    /// a statement that switches over a variable of sum type
    fn switch_stmt(&mut self, depth: u32, budget: &mut usize) -> Option<Stmt> {
        let cands: Vec<VarInfo> = self.vars.iter().filter(|v| matches!(v.ty, Ty::Enum(_) | Ty::Opt(_) | Ty::Eu(..))).cloned().collect();
        if cands.is_empty() {
            return None;
        }
        let v = self.rng.pick(&cands).clone();
        // payload type per variant index
        let payloads: Vec<Option<Ty>> = match &v.ty {
            Ty::Enum(id) => self.enums[*id].variants.clone(),
            Ty::Opt(p) => vec![None, Some((**p).clone())],
            Ty::Eu(e, o) => vec![Some((**e).clone()), Some((**o).clone())],
            _ => return None,
        };
        let with_arg = self.rng.chance(2, 3);
        let arg = if with_arg { Some(self.fresh_var()) } else { None };
        let mut arms = vec![];
        let mut covered = 0;
        for (k, p) in payloads.iter().enumerate() {
            if self.rng.chance(3, 4) {
                covered += 1;
                let saved = self.vars.len();
                let mut pre = vec![];
                if let (Some(a), Some(pt)) = (arg, p) {
                    if matches!(v.ty, Ty::Enum(_)) {
                        // the argument has the VARIANT type; a plain copy is made with a cast
                        let c = self.fresh_var();
                        pre.push(Stmt::Let(c, pt.clone(), false, Expr::Coerce(pt.clone(), Box::new(Expr::Var(a)))));
                        self.vars.push(vinfo(c, pt.clone(), false, false, depth + 1));
                    } else {
                        self.vars.push(vinfo(a, pt.clone(), false, false, depth + 1));
                    }
                }
                let mut body = pre;
                body.extend(self.stmts(depth + 1, budget));
                self.vars.truncate(saved);
                arms.push((k, body));
            }
        }
        let default = if covered < payloads.len() || self.rng.chance(1, 5) {
            let saved = self.vars.len();
            if let Some(a) = arg {
                self.vars.push(vinfo(a, v.ty.clone(), false, false, depth + 1));
            }
            let body = self.stmts(depth + 1, budget);
            self.vars.truncate(saved);
            Some(body)
        } else {
            None
        };
        if arms.is_empty() && default.is_none() {
            return None;
        }
        Some(Stmt::Switch(Expr::Var(v.id), v.ty.clone(), arg, arms, default))
    }

    fn call_or(&mut self, t: &Ty, depth: u32) -> Expr {
        let d = depth.saturating_sub(1);
        // through a function-valued local
        let fvars: Vec<VarInfo> = self.vars.iter().filter(|v| matches!(&v.ty, Ty::FnPtr(_, r) if &**r == t)).cloned().collect();
        if !fvars.is_empty() && self.rng.chance(1, 2) {
            let v = self.rng.pick(&fvars).clone();
            if let Ty::FnPtr(ps, _) = &v.ty {
                if let Some(args) = self.call_args(None, ps, d) {
                    return Expr::CallV(Box::new(Expr::Var(v.id)), args);
                }
            }
        }
        let cands: Vec<(usize, Vec<Ty>, Ty)> = self.sigs.iter().filter(|s| &s.2 == t).cloned().collect();
        if cands.is_empty() {
            return self.expr(t, 0);
        }
        let (f, ps, _) = self.rng.pick(&cands).clone();
        match self.call_args(Some(f), &ps, d) {
            Some(args) => Expr::Call(f, args),
            None => self.expr(t, 0),
        }
    }

    /// index into an array variable / field of a struct variable yielding `t`
    fn element_of(&mut self, t: &Ty, depth: u32) -> Expr {
        let mut cands: Vec<Expr> = vec![];
        let vars = self.vars.clone();
        for v in &vars {
            match &v.ty {
                Ty::Arr(n, e) if &**e == t => {
                    let idx = self.index_expr(*n, depth);
                    cands.push(Expr::Index(Box::new(Expr::Var(v.id)), Box::new(idx)));
                }
                Ty::Struct(id) => {
                    for (k, ft) in self.structs[*id].fields.clone().iter().enumerate() {
                        if ft == t {
                            cands.push(Expr::Field(Box::new(Expr::Var(v.id)), k));
                        } else if let Ty::Arr(n, e) = ft {
                            if &**e == t {
                                let idx = self.index_expr(*n, depth);
                                cands.push(Expr::Index(Box::new(Expr::Field(Box::new(Expr::Var(v.id)), k)), Box::new(idx)));
                            }
                        }
                    }
                }
                Ty::Arr(n, e) => {
                    if let Ty::Arr(m, e2) = &**e {
                        if &**e2 == t {
                            let i1 = self.index_expr(*n, depth);
                            let i2 = self.index_expr(*m, depth);
                            cands.push(Expr::Index(Box::new(Expr::Index(Box::new(Expr::Var(v.id)), Box::new(i1))), Box::new(i2)));
                        }
                    }
                }
                _ => {}
            }
        }
        if cands.is_empty() {
            self.expr(t, 0)
        } else {
            self.rng.pick(&cands).clone()
        }
    }

    /// an index for an array of length `n`: usize literal in range, a runtime value reduced
    /// modulo n, or (rarely, if faults are allowed) possibly out of range
    fn index_expr(&mut self, n: u32, depth: u32) -> Expr {
        let ut = Ty::Int(false, 64);
        match self.rng.below(10) {
            0..=5 => Expr::Lit(ut, self.rng.below(n as u64) as i128),
            6..=8 if depth > 0 => {
                let a = self.expr(&ut, depth.saturating_sub(1).min(1));
                Expr::Bin(BinOp::Rem, ut.clone(), Box::new(a), Box::new(Expr::Lit(ut, n as i128)))
            }
            _ => {
                if self.cfg.faults && self.fault_budget > 0 && self.rng.chance(2, 3) {
                    self.fault_budget -= 1;
                    // runtime index in [0, n + 4]
                    let vs = self.vars_of(&ut);
                    let base = if let Some(v) = vs.first() { Expr::Var(v.id) } else { Expr::Lit(ut.clone(), self.rng.below(n as u64 + 5) as i128) };
                    Expr::Bin(BinOp::Rem, ut.clone(), Box::new(base), Box::new(Expr::Lit(ut, n as i128 + 5)))
                } else {
                    Expr::Lit(ut, self.rng.below(n as u64) as i128)
                }
            }
        }
    }

    fn unwrap_of(&mut self, t: &Ty, _depth: u32) -> Expr {
        // a guarded #unwrap of an enum variant / the ok side of an error union with payload `t`
        let vars = self.vars.clone();
        for v in &vars {
            match &v.ty {
                Ty::Enum(id) if self.rng.chance(1, 2) => {
                    for (k, p) in self.enums[*id].variants.clone().iter().enumerate() {
                        if p.as_ref() == Some(t) {
                            return Expr::Ite(
                                Box::new(Expr::IsVariant(*id, k, Box::new(Expr::Var(v.id)))),
                                Box::new(Expr::Coerce(t.clone(), Box::new(Expr::UnwrapVariant(*id, k, Box::new(Expr::Var(v.id)))))),
                                Box::new(self.lit(t)),
                            );
                        }
                    }
                }
                Ty::Eu(_, o) if &**o == t && self.rng.chance(1, 2) => {
                    return Expr::Ite(
                        Box::new(Expr::EuIsOk(t.clone(), Box::new(Expr::Var(v.id)))),
                        Box::new(Expr::EuUnwrap(true, t.clone(), Box::new(Expr::Var(v.id)))),
                        Box::new(self.lit(t)),
                    );
                }
                _ => {}
            }
        }
        let want = Ty::Opt(Box::new(t.clone()));
        let vs = self.vars_of(&want);
        if let Some(v) = vs.first().cloned() {
            if self.cfg.faults && self.fault_budget > 0 && self.rng.chance(1, 4) {
                self.fault_budget -= 1;
                return Expr::Unwrap(t.clone(), Box::new(Expr::Var(v.id)));
            }
            // guarded unwrap
            return Expr::Ite(
                Box::new(Expr::IsSome(t.clone(), Box::new(Expr::Var(v.id)))),
                Box::new(Expr::Unwrap(t.clone(), Box::new(Expr::Var(v.id)))),
                Box::new(self.lit(t)),
            );
        }
        self.lit(t)
    }

    /// an assignable place through a `^mut` pointer (variable or struct field) or a writable slice
    fn mem_place_root(&mut self, depth: u32) -> Option<(Place, Ty)> {
        let mut roots: Vec<(Place, Ty)> = vec![];
        let vars = self.vars.clone();
        for v in &vars {
            match &v.ty {
                Ty::Ptr(true, inner) => roots.push((Place::Deref(Box::new(Expr::Var(v.id))), (**inner).clone())),
                Ty::Slice(e) if v.writable_slice && v.mutable => {
                    let i = self.slice_index(v, depth);
                    roots.push((Place::Index(Box::new(Place::Var(v.id)), Box::new(i)), (**e).clone()));
                }
                Ty::Struct(id) => {
                    for (k, ft) in self.structs[*id].fields.clone().iter().enumerate() {
                        if let Ty::Ptr(true, inner) = ft {
                            roots.push((Place::Deref(Box::new(Expr::Field(Box::new(Expr::Var(v.id)), k))), (**inner).clone()));
                        }
                    }
                }
                _ => {}
            }
        }
        if roots.is_empty() {
            return None;
        }
        // writes through slices are the rarer kind: prefer them sometimes
        let sl: Vec<(Place, Ty)> = roots.iter().filter(|r| matches!(r.0, Place::Index(..))).cloned().collect();
        if !sl.is_empty() && self.rng.chance(1, 3) {
            return Some(self.rng.pick(&sl).clone());
        }
        Some(self.rng.pick(&roots).clone())
    }

    /// an assignable place, its type, and the depth bound for pointer-carrying values stored there
    fn place(&mut self, depth: u32) -> Option<(Place, Ty, u32)> {
        let muts: Vec<VarInfo> = self.vars.iter().filter(|v| v.mutable && !v.reserved).cloned().collect();
        let mem = if self.cfg.pointers && (muts.is_empty() || self.rng.chance(2, 5)) { self.mem_place_root(depth) } else { None };
        let (mut p, mut t, limit) = match mem {
            Some((p, t)) => (p, t, 0),
            None => {
                if muts.is_empty() {
                    return None;
                }
                let v = self.rng.pick(&muts).clone();
                (Place::Var(v.id), v.ty.clone(), v.depth)
            }
        };
        for _ in 0..3 {
            match t.clone() {
                Ty::Arr(n, e) if self.rng.chance(3, 4) => {
                    let i = self.index_expr(n, depth);
                    p = Place::Index(Box::new(p), Box::new(i));
                    t = *e;
                }
                Ty::Struct(id) if self.rng.chance(3, 4) => {
                    let fields = self.structs[id].fields.clone();
                    let k = self.rng.below(fields.len() as u64) as usize;
                    p = Place::Field(Box::new(p), k);
                    t = fields[k].clone();
                }
                _ => break,
            }
        }
        Some((p, t, limit))
    }

    fn print_stmt(&mut self, depth: u32) -> Stmt {
        let t = self.scalar_ty();
        Stmt::Print(self.expr(&t, depth))
    }

    fn stmts(&mut self, depth: u32, budget: &mut usize) -> Vec<Stmt> {
        let n = 1 + self.rng.below(self.cfg.max_stmts as u64 / 2 + 1) as usize;
        let saved_vars = self.vars.len();
        let mut out = vec![];
        let mut defers = 0;
        for _ in 0..n {
            if *budget == 0 {
                break;
            }
            *budget -= 1;
            if self.cfg.pointers && self.fault_budget > 0 && self.rng.chance(1, 6) {
                // a slice index that may be past the end (the length is a run-time value)
                let ss: Vec<VarInfo> = self.vars.iter().filter(|v| matches!(&v.ty, Ty::Slice(e) if matches!(**e, Ty::Int(..) | Ty::Bool))).cloned().collect();
                if !ss.is_empty() {
                    let v = self.rng.pick(&ss).clone();
                    self.fault_budget -= 1;
                    self.slice_oob = true;
                    let k = self.rng.below(v.min_len as u64 + 4) as i128;
                    out.push(Stmt::Print(Expr::Index(Box::new(Expr::Var(v.id)), Box::new(Expr::Lit(Ty::Int(false, 64), k)))));
                    continue;
                }
                // … or an array index held in a variable (a literal would be checked at compile time)
                let arrs: Vec<VarInfo> = self.vars.iter().filter(|v| matches!(&v.ty, Ty::Arr(_, e) if matches!(**e, Ty::Int(..) | Ty::Bool))).cloned().collect();
                if !arrs.is_empty() {
                    let v = self.rng.pick(&arrs).clone();
                    let n = if let Ty::Arr(n, _) = &v.ty { *n } else { 1 };
                    self.fault_budget -= 1;
                    let ut = Ty::Int(false, 64);
                    let id = self.fresh_var();
                    let k = self.rng.below(n as u64 + 3) as i128;
                    out.push(Stmt::Let(id, ut.clone(), true, Expr::Lit(ut.clone(), k)));
                    self.vars.push(vinfo(id, ut, true, false, depth));
                    out.push(Stmt::Print(Expr::Index(Box::new(Expr::Var(v.id)), Box::new(Expr::Var(id)))));
                    continue;
                }
            }
            if self.cfg.recursion && depth == 0 && self.self_fn.is_some() && !self.self_called && self.rng.chance(1, 4) && self.self_call(depth, &mut out) {
                continue;
            }
            if self.cfg.pointers && self.rng.chance(1, 5) {
                let done = match self.rng.below(8) {
                    0..=4 => self.mem_let(depth, &mut out),
                    5 => self.fn_let(depth, &mut out),
                    _ => self.call_stmt(depth, &mut out),
                };
                if done {
                    continue;
                }
            }
            let c = self.rng.below(100);
            let edepth = 2.min(self.cfg.max_depth);
            if c < 22 {
                let t = self.any_ty(2);
                let e = self.expr(&t, edepth);
                let id = self.fresh_var();
                let m = self.rng.chance(2, 3);
                out.push(Stmt::Let(id, t.clone(), m, e));
                self.vars.push(vinfo(id, t, m, false, depth));
            } else if c < 40 {
                if let Some((p, t, lim)) = self.place(edepth) {
                    if t.has_ptr(&self.structs) {
                        // a pointer-carrying destination: the value may only mention variables that
                        // live at least as long as the destination's root
                        let e = match (&p, &t) {
                            (Place::Var(x), Ty::Slice(el)) => {
                                // a slice variable keeps its facts (writable, minimum length)
                                let v = self.vars.iter().find(|v| v.id == *x).cloned();
                                v.and_then(|v| self.slice_expr(el, v.writable_slice, v.min_len, lim)).map(|r| r.0)
                            }
                            _ => self.try_expr(&t, edepth, lim),
                        };
                        match e {
                            Some(e) => out.push(Stmt::Assign(p, e)),
                            None => out.push(self.print_stmt(edepth)),
                        }
                    } else if t.is_int() && self.rng.chance(1, 3) && !place_has_call(&p) {
                        // (`a[f()] += e` evaluates `f()` twice in the compiler: the place of a
                        // compound assignment is kept free of calls)
                        let op = *self.rng.pick(&[BinOp::Add, BinOp::Sub, BinOp::Mul, BinOp::And, BinOp::Or, BinOp::Xor]);
                        let e = self.expr(&t, edepth);
                        out.push(Stmt::OpAssign(op, t, p, e));
                    } else {
                        let e = self.expr(&t, edepth);
                        out.push(Stmt::Assign(p, e));
                    }
                } else {
                    out.push(self.print_stmt(edepth));
                }
            } else if c < 60 {
                out.push(self.print_stmt(edepth));
            } else if c < 68 && defers < 3 {
                defers += 1;
                let p = self.print_stmt(1);
                out.push(Stmt::Defer(Box::new(p)));
            } else if c < 78 && depth < self.cfg.max_depth {
                let cnd = self.expr(&Ty::Bool, edepth);
                let a = self.stmts(depth + 1, budget);
                let b = if self.rng.chance(1, 2) { self.stmts(depth + 1, budget) } else { vec![] };
                out.push(Stmt::If(cnd, a, b));
            } else if c < 86 && depth < self.cfg.max_depth {
                // bounded loop: counter declared before, decremented first thing in the body
                let ct = Ty::Int(false, 8);
                let cid = self.fresh_var();
                let iters = 1 + self.rng.below(if depth == 0 { 6 } else { 3 }) as i128;
                out.push(Stmt::Let(cid, ct.clone(), true, Expr::Lit(ct.clone(), iters)));
                self.vars.push(vinfo(cid, ct.clone(), true, true, depth));
                let l = self.fresh_label();
                self.labels.push((l, true));
                let mut body = vec![Stmt::OpAssign(BinOp::Sub, ct.clone(), Place::Var(cid), Expr::Lit(ct.clone(), 1))];
                body.extend(self.stmts(depth + 1, budget));
                self.labels.pop();
                let cond = Expr::Cmp(CmpOp::Gt, ct.clone(), Box::new(Expr::Var(cid)), Box::new(Expr::Lit(ct, 0)));
                out.push(Stmt::While(l, cond, body));
            } else if c < 91 && depth < self.cfg.max_depth {
                let l = if self.rng.chance(2, 3) { Some(self.fresh_label()) } else { None };
                if let Some(l) = l {
                    self.labels.push((l, false));
                }
                let b = self.stmts(depth + 1, budget);
                if l.is_some() {
                    self.labels.pop();
                }
                out.push(Stmt::Block(l, b));
            } else if c < 94 && depth < self.cfg.max_depth {
                match self.switch_stmt(depth, budget) {
                    Some(sw) => out.push(sw),
                    None => out.push(self.print_stmt(edepth)),
                }
            } else if c < 95 {
                // `.try`: only where the enclosing function can propagate
                match self.ret_ty.clone() {
                    rt @ (Ty::Opt(_) | Ty::Eu(..)) => {
                        // the operand is a variable of optional / error-union type (same error type)
                        let cands: Vec<VarInfo> = self
                            .vars
                            .iter()
                            .filter(|v| match (&v.ty, &rt) {
                                (Ty::Opt(p), Ty::Opt(_)) => matches!(**p, Ty::Int(..) | Ty::Bool),
                                (Ty::Eu(e1, _), Ty::Eu(e2, _)) => e1 == e2,
                                _ => false,
                            })
                            .cloned()
                            .collect();
                        if let Some(v) = cands.first().cloned() {
                            let pt = match &v.ty {
                                Ty::Opt(p) => (**p).clone(),
                                Ty::Eu(_, o) => (**o).clone(),
                                _ => unreachable!(),
                            };
                            let id = self.fresh_var();
                            out.push(Stmt::Let(id, pt.clone(), false, Expr::Try(Box::new(Expr::Var(v.id)))));
                            self.vars.push(vinfo(id, pt, false, false, depth));
                        } else {
                            out.push(self.print_stmt(edepth));
                        }
                    }
                    _ => out.push(self.print_stmt(edepth)),
                }
            } else if c < 97 && (depth > 0) {
                // conditional jump
                let cnd = self.expr(&Ty::Bool, 1);
                let j = self.jump();
                out.push(Stmt::If(cnd, vec![j], vec![]));
            } else {
                out.push(self.print_stmt(edepth));
            }
        }
        self.vars.truncate(saved_vars);
        out
    }

    #[allow(dead_code)]
    fn _unused(&self) {}

    fn jump(&mut self) -> Stmt {
        let loops: Vec<usize> = self.labels.iter().filter(|l| l.1).map(|l| l.0).collect();
        if !loops.is_empty() && self.rng.chance(1, 3) {
            return Stmt::Cont(*self.rng.pick(&loops));
        }
        if self.labels.is_empty() || self.rng.chance(1, 4) {
            let rt = self.ret_ty.clone();
            return if rt == Ty::Void { Stmt::Ret(None) } else { Stmt::Ret(Some(self.expr(&rt, 1))) };
        }
        let labels = self.labels.clone();
        Stmt::Brk(self.rng.pick(&labels).0)
    }
}

pub fn gen_program(rng: &mut Rng, cfg: &GenCfg) -> Program {
    let mut g = Gen {
        rng,
        cfg,
        structs: vec![],
        enums: vec![],
        sigs: vec![],
        next_var: 0,
        next_label: 0,
        vars: vec![],
        labels: vec![],
        ret_ty: Ty::Void,
        fault_budget: 0,
        plain_structs: vec![],
        cur_depth: 0,
        slice_oob: false,
        rec_param: Default::default(),
        self_fn: None,
        self_called: false,
    };
    // structs: fields of scalars and small arrays (a later struct may contain an earlier one)
    let ns = g.rng.below(3) as usize;
    for _ in 0..ns {
        let nf = 1 + g.rng.below(4) as usize;
        let mut fields = vec![];
        for _ in 0..nf {
            let t = match g.rng.below(6) {
                0 => Ty::Arr(1 + g.rng.below(3) as u32, Box::new(g.scalar_ty())),
                1 if !g.plain_structs.is_empty() => Ty::Struct(*g.rng.pick(&g.plain_structs.clone())),
                _ => g.scalar_ty(),
            };
            fields.push(t);
        }
        // a pointer field (`^mut T` / `^T` of an integer or of an earlier plain struct)
        let mut plain = true;
        if cfg.pointers && g.rng.chance(1, 3) {
            let inner = if !g.plain_structs.is_empty() && g.rng.chance(1, 4) { Ty::Struct(*g.rng.pick(&g.plain_structs.clone())) } else { g.int_ty() };
            let m = g.rng.chance(2, 3);
            let pos = g.rng.below(fields.len() as u64 + 1) as usize;
            fields.insert(pos, Ty::Ptr(m, Box::new(inner)));
            plain = false;
        }
        g.structs.push(StructDef { fields });
        if plain {
            g.plain_structs.push(g.structs.len() - 1);
        }
    }
    // enums: 1-4 variants with scalar / array / struct payloads or none
    let ne = g.rng.below(3) as usize;
    for _ in 0..ne {
        let nv = 1 + g.rng.below(4) as usize;
        let mut variants = vec![];
        for _ in 0..nv {
            variants.push(match g.rng.below(5) {
                0 | 1 => None,
                2 if !g.plain_structs.is_empty() => Some(Ty::Struct(*g.rng.pick(&g.plain_structs.clone()))),
                3 => Some(Ty::Arr(1 + g.rng.below(3) as u32, Box::new(g.scalar_ty()))),
                _ => Some(g.scalar_ty()),
            });
        }
        g.enums.push(EnumDef { variants });
    }
    // helper functions f_k … f_1 (each may call the ones generated before it), then main
    let nf = g.rng.below(cfg.max_fns as u64) as usize;
    let mut fns: Vec<Option<Fn>> = vec![None; nf + 1];
    for k in (1..=nf).rev() {
        let mut np = g.rng.below(4) as usize;
        let mut params = vec![];
        g.vars.clear();
        let recursive = cfg.recursion && g.rng.chance(1, 4);
        let mut cnt_var = 0;
        if recursive {
            // the recursion counter: a `u8` parameter (callers pass 0..=2)
            let ct = Ty::Int(false, 8);
            cnt_var = g.fresh_var();
            params.push((cnt_var, ct.clone()));
            g.vars.push(vinfo(cnt_var, ct, false, true, 0));
            g.rec_param.insert(k, 0);
        }
        for _ in 0..np {
            let mut t = g.any_ty(2);
            if cfg.pointers && g.rng.chance(2, 5) {
                // `^mut T` / `^T` of a value type, a slice, or (rarely) a pointer-carrying struct by value
                let ptr_structs: Vec<usize> = (0..g.structs.len()).filter(|i| !g.plain_structs.contains(i)).collect();
                t = match g.rng.below(8) {
                    0 | 1 => Ty::Slice(Box::new(g.scalar_ty())),
                    2 if !ptr_structs.is_empty() => Ty::Struct(*g.rng.pick(&ptr_structs)),
                    3 | 4 => Ty::Ptr(g.rng.chance(3, 4), Box::new(g.int_ty())),
                    _ => Ty::Ptr(g.rng.chance(3, 4), Box::new(t)),
                };
            }
            let id = g.fresh_var();
            params.push((id, t.clone()));
            g.vars.push(vinfo(id, t, false, false, 0));
        }
        let ret = if g.rng.chance(1, 6) { Ty::Void } else { g.any_ty(1) };
        g.ret_ty = ret.clone();
        g.labels.clear();
        g.fault_budget = 0; // faults only from main, so that the expected output is a clean prefix
        if recursive {
            np += 1;
            g.self_fn = Some((k, params.iter().map(|p| p.1.clone()).collect(), ret.clone(), cnt_var));
            g.self_called = false;
        }
        let mut budget = 12;
        let mut body = g.stmts(0, &mut budget);
        g.vars.truncate(np);
        if recursive && !g.self_called {
            // with only the parameters in scope
            g.self_call(0, &mut body);
        }
        g.self_fn = None;
        if ret != Ty::Void {
            g.vars.truncate(np);
            let e = g.expr(&ret, 2);
            body.push(Stmt::Ret(Some(e)));
        }
        fns[k] = Some(Fn { params: params.clone(), ret: ret.clone(), body });
        g.sigs.push((k, params.iter().map(|p| p.1.clone()).collect(), ret));
    }
    // main
    g.vars.clear();
    g.labels.clear();
    let main_ret = if g.rng.chance(1, 5) { Ty::Void } else { g.int_ty() };
    g.ret_ty = main_ret.clone();
    g.fault_budget = if cfg.faults && g.rng.chance(1, 3) { 1 } else { 0 };
    let mut budget = 30;
    let mut body = g.stmts(0, &mut budget);
    if main_ret != Ty::Void {
        let e = g.expr(&main_ret, 2);
        body.push(Stmt::Ret(Some(e)));
    }
    fns[0] = Some(Fn { params: vec![], ret: main_ret, body });
    Program { structs: g.structs.clone(), enums: g.enums.clone(), fns: fns.into_iter().map(|f| f.unwrap()).collect(), slice_oob: g.slice_oob }
}
