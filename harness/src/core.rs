//! CapyCore on the Rust side: the mirror AST of `lean/CapyV/Spec/CapyCore.lean`, a
//! type-directed generator of well-typed programs, a pretty-printer to Capy source and the
//! S-expression serialiser understood by `lean/CapyV/Driver/Core.lean`.
use crate::rng::Rng;

/// How global names are spelled from the file currently being printed (C20 splits a program
/// over several files): `None` = everything is in one file.
#[derive(Clone, Debug, Default)]
pub struct Qual {
    pub file_of_fn: Vec<usize>,
    pub file_of_struct: Vec<usize>,
    pub file_of_enum: Vec<usize>,
    pub current: usize,
}

thread_local! {
    static QUAL: std::cell::RefCell<Option<Qual>> = const { std::cell::RefCell::new(None) };
}

fn qualify_enum(idx: usize, base: String) -> String {
    QUAL.with(|q| match q.borrow().as_ref() {
        None => base,
        Some(q) => {
            let f = q.file_of_enum[idx];
            if f == q.current { base } else { format!("file{f}.{base}") }
        }
    })
}

fn qualify(is_fn: bool, idx: usize, base: String) -> String {
    QUAL.with(|q| match q.borrow().as_ref() {
        None => base,
        Some(q) => {
            let f = if is_fn { q.file_of_fn[idx] } else { q.file_of_struct[idx] };
            if f == q.current { base } else { format!("file{f}.{base}") }
        }
    })
}

#[derive(Clone, Debug, PartialEq, Eq, Hash)]
pub enum Ty {
    Int(bool, u32),
    Bool,
    Void,
    Arr(u32, Box<Ty>),
    Opt(Box<Ty>),
    Struct(usize),
    Enum(usize),
    /// error union `err!ok`
    Eu(Box<Ty>, Box<Ty>),
}

impl Ty {
    pub fn capy(&self) -> String {
        match self {
            Ty::Int(s, b) => format!("{}{}", if *s { "i" } else { "u" }, b),
            Ty::Bool => "bool".into(),
            Ty::Void => "void".into(),
            Ty::Arr(n, t) => format!("[{}]{}", n, t.capy()),
            Ty::Opt(t) => format!("?{}", t.capy()),
            Ty::Struct(i) => qualify(false, *i, format!("S{i}")),
            Ty::Enum(i) => qualify_enum(*i, format!("E{i}")),
            Ty::Eu(e, o) => format!("{}!{}", e.capy(), o.capy()),
        }
    }
    pub fn sexp(&self) -> String {
        match self {
            Ty::Int(s, b) => format!("{}{}", if *s { "i" } else { "u" }, b),
            Ty::Bool => "bool".into(),
            Ty::Void => "void".into(),
            Ty::Arr(n, t) => format!("(arr {} {})", n, t.sexp()),
            Ty::Opt(t) => format!("(opt {})", t.sexp()),
            Ty::Struct(i) => format!("(struct {i})"),
            Ty::Enum(i) => format!("(enum {i})"),
            Ty::Eu(e, o) => format!("(eu {} {})", e.sexp(), o.sexp()),
        }
    }
    pub fn is_int(&self) -> bool {
        matches!(self, Ty::Int(..))
    }
    pub fn range(&self) -> (i128, i128) {
        match self {
            Ty::Int(true, b) => (-(1i128 << (b - 1)), (1i128 << (b - 1)) - 1),
            Ty::Int(false, b) => (0, (1i128 << b) - 1),
            _ => (0, 0),
        }
    }
}

#[derive(Clone, Copy, Debug, PartialEq, Eq)]
pub enum BinOp { Add, Sub, Mul, Div, Rem, And, Or, Xor, Shl, Shr }
#[derive(Clone, Copy, Debug, PartialEq, Eq)]
pub enum CmpOp { Eq, Ne, Lt, Le, Gt, Ge }

impl BinOp {
    fn capy(self) -> &'static str {
        match self { BinOp::Add => "+", BinOp::Sub => "-", BinOp::Mul => "*", BinOp::Div => "/", BinOp::Rem => "%",
            BinOp::And => "&", BinOp::Or => "|", BinOp::Xor => "~", BinOp::Shl => "<<", BinOp::Shr => ">>" }
    }
    fn sexp(self) -> &'static str {
        match self { BinOp::Add => "add", BinOp::Sub => "sub", BinOp::Mul => "mul", BinOp::Div => "div", BinOp::Rem => "rem",
            BinOp::And => "band", BinOp::Or => "bor", BinOp::Xor => "bxor", BinOp::Shl => "shl", BinOp::Shr => "shr" }
    }
}
impl CmpOp {
    fn capy(self) -> &'static str {
        match self { CmpOp::Eq => "==", CmpOp::Ne => "!=", CmpOp::Lt => "<", CmpOp::Le => "<=", CmpOp::Gt => ">", CmpOp::Ge => ">=" }
    }
    fn sexp(self) -> &'static str {
        match self { CmpOp::Eq => "eq", CmpOp::Ne => "ne", CmpOp::Lt => "lt", CmpOp::Le => "le", CmpOp::Gt => "gt", CmpOp::Ge => "ge" }
    }
}

#[derive(Clone, Debug)]
pub enum Expr {
    Lit(Ty, i128),
    BLit(bool),
    Var(usize),
    Bin(BinOp, Ty, Box<Expr>, Box<Expr>),
    Cmp(CmpOp, Ty, Box<Expr>, Box<Expr>),
    LAnd(Box<Expr>, Box<Expr>),
    LOr(Box<Expr>, Box<Expr>),
    LNot(Box<Expr>),
    Neg(Ty, Box<Expr>),
    BNot(Ty, Box<Expr>),
    Cast(Ty, Ty, Box<Expr>),
    Call(usize, Vec<Expr>),
    Index(Box<Expr>, Box<Expr>),
    Field(Box<Expr>, usize),
    ArrLit(Ty, Vec<Expr>),          // element type (for printing)
    StructLit(usize, Vec<Expr>),
    Nil,
    SomeE(Box<Expr>),
    Unwrap(Ty, Box<Expr>),          // payload type (for printing)
    IsSome(Ty, Box<Expr>),
    Ite(Box<Expr>, Box<Expr>, Box<Expr>),
    VariantLit(usize, usize, Option<Box<Expr>>),   // enum id, variant, payload
    IsVariant(usize, usize, Box<Expr>),
    UnwrapVariant(usize, usize, Box<Expr>),
    EuLit(bool, Box<Expr>),
    EuIsOk(Ty, Box<Expr>),                          // ok type (for printing)
    EuUnwrap(bool, Ty, Box<Expr>),                  // which side, its type
    Try(Box<Expr>),
    /// `T.(e)` where `e` has a variant type whose payload is `T` (the value is unchanged)
    Coerce(Ty, Box<Expr>),
}

#[derive(Clone, Debug)]
pub enum Place {
    Var(usize),
    Index(Box<Place>, Box<Expr>),
    Field(Box<Place>, usize),
}

#[derive(Clone, Debug)]
pub enum Stmt {
    Let(usize, Ty, bool, Expr),      // id, type, mutable, value
    Assign(Place, Expr),
    OpAssign(BinOp, Ty, Place, Expr),
    Print(Expr),
    If(Expr, Vec<Stmt>, Vec<Stmt>),
    While(usize, Expr, Vec<Stmt>),
    Block(Option<usize>, Vec<Stmt>),
    Brk(usize),
    Cont(usize),
    Ret(Option<Expr>),
    Defer(Box<Stmt>),
    ExprS(Expr),
    /// scrutinee, its type, argument variable, arms (variant index → body), default arm
    Switch(Expr, Ty, Option<usize>, Vec<(usize, Vec<Stmt>)>, Option<Vec<Stmt>>),
    /// raw Capy text (used by mutators that deliberately leave the fragment); never sent to Lean
    Raw(String),
}

#[derive(Clone, Debug)]
pub struct Fn {
    pub params: Vec<(usize, Ty)>,
    pub ret: Ty,
    pub body: Vec<Stmt>,
}

#[derive(Clone, Debug)]
pub struct StructDef {
    pub fields: Vec<Ty>,
}

#[derive(Clone, Debug)]
pub struct EnumDef {
    /// payload type per variant (`None` = no payload)
    pub variants: Vec<Option<Ty>>,
}

#[derive(Clone, Debug)]
pub struct Program {
    pub structs: Vec<StructDef>,
    pub enums: Vec<EnumDef>,
    /// fns[0] is main
    pub fns: Vec<Fn>,
}

// ---- S-expressions for the Lean interpreter -----------------------------------------------

fn sx_list(items: &[String]) -> String {
    items.join(" ")
}

impl Expr {
    pub fn sexp(&self) -> String {
        match self {
            Expr::Lit(t, z) => format!("(lit {} {})", t.sexp(), z),
            Expr::BLit(b) => format!("(blit {})", *b as u8),
            Expr::Var(x) => format!("(var {x})"),
            Expr::Bin(op, t, a, b) => format!("(bin {} {} {} {})", op.sexp(), t.sexp(), a.sexp(), b.sexp()),
            Expr::Cmp(op, t, a, b) => format!("(cmp {} {} {} {})", op.sexp(), t.sexp(), a.sexp(), b.sexp()),
            Expr::LAnd(a, b) => format!("(land {} {})", a.sexp(), b.sexp()),
            Expr::LOr(a, b) => format!("(lor {} {})", a.sexp(), b.sexp()),
            Expr::LNot(a) => format!("(lnot {})", a.sexp()),
            Expr::Neg(t, a) => format!("(neg {} {})", t.sexp(), a.sexp()),
            Expr::BNot(t, a) => format!("(bnot {} {})", t.sexp(), a.sexp()),
            Expr::Cast(s, d, a) => format!("(cast {} {} {})", s.sexp(), d.sexp(), a.sexp()),
            Expr::Call(f, args) => format!("(call {} {})", f, sx_list(&args.iter().map(|a| a.sexp()).collect::<Vec<_>>())),
            Expr::Index(a, i) => format!("(index {} {})", a.sexp(), i.sexp()),
            Expr::Field(a, k) => format!("(field {} {})", a.sexp(), k),
            Expr::ArrLit(_, es) => format!("(arrlit {})", sx_list(&es.iter().map(|a| a.sexp()).collect::<Vec<_>>())),
            Expr::StructLit(id, es) => format!("(structlit {} {})", id, sx_list(&es.iter().map(|a| a.sexp()).collect::<Vec<_>>())),
            Expr::Nil => "nil".into(),
            Expr::SomeE(a) => format!("(some {})", a.sexp()),
            Expr::Unwrap(_, a) => format!("(unwrap {})", a.sexp()),
            Expr::IsSome(_, a) => format!("(issome {})", a.sexp()),
            Expr::Ite(c, a, b) => format!("(ite {} {} {})", c.sexp(), a.sexp(), b.sexp()),
            Expr::VariantLit(_, k, None) => format!("(variant {k})"),
            Expr::VariantLit(_, k, Some(a)) => format!("(variant {k} {})", a.sexp()),
            Expr::IsVariant(_, k, a) => format!("(isvariant {k} {})", a.sexp()),
            Expr::UnwrapVariant(_, k, a) => format!("(unwrapv {k} {})", a.sexp()),
            Expr::EuLit(b, a) => format!("(eulit {} {})", *b as u8, a.sexp()),
            Expr::EuIsOk(_, a) => format!("(euisok {})", a.sexp()),
            Expr::EuUnwrap(b, _, a) => format!("(euunwrap {} {})", *b as u8, a.sexp()),
            Expr::Try(a) => format!("(try {})", a.sexp()),
            Expr::Coerce(_, a) => a.sexp(),
        }
    }
}

impl Place {
    pub fn sexp(&self) -> String {
        match self {
            Place::Var(x) => format!("(pvar {x})"),
            Place::Index(p, i) => format!("(pindex {} {})", p.sexp(), i.sexp()),
            Place::Field(p, k) => format!("(pfield {} {})", p.sexp(), k),
        }
    }
}

fn stmts_sexp(ss: &[Stmt]) -> String {
    sx_list(&ss.iter().map(|s| s.sexp()).collect::<Vec<_>>())
}

impl Stmt {
    pub fn sexp(&self) -> String {
        match self {
            Stmt::Let(x, _, _, e) => format!("(let {} {})", x, e.sexp()),
            Stmt::Assign(p, e) => format!("(assign {} {})", p.sexp(), e.sexp()),
            Stmt::OpAssign(op, t, p, e) => format!("(opassign {} {} {} {})", op.sexp(), t.sexp(), p.sexp(), e.sexp()),
            Stmt::Print(e) => format!("(print {})", e.sexp()),
            Stmt::If(c, a, b) => format!("(if {} (then {}) (else {}))", c.sexp(), stmts_sexp(a), stmts_sexp(b)),
            Stmt::While(l, c, b) => format!("(while {} {} {})", l, c.sexp(), stmts_sexp(b)),
            Stmt::Block(l, b) => format!("(block {} {})", l.map(|x| x.to_string()).unwrap_or("-".into()), stmts_sexp(b)),
            Stmt::Brk(l) => format!("(brk {l})"),
            Stmt::Cont(l) => format!("(cont {l})"),
            Stmt::Ret(None) => "(ret)".into(),
            Stmt::Ret(Some(e)) => format!("(ret {})", e.sexp()),
            Stmt::Defer(s) => format!("(defer {})", s.sexp()),
            Stmt::ExprS(e) => format!("(expr {})", e.sexp()),
            Stmt::Raw(_) => "(raw)".into(),
            Stmt::Switch(sc, _, arg, arms, d) => {
                let mut parts: Vec<String> = arms.iter().map(|(k, b)| format!("(arm {} {})", k, stmts_sexp(b))).collect();
                if let Some(d) = d {
                    parts.push(format!("(default {})", stmts_sexp(d)));
                }
                format!("(switch {} {} {})", sc.sexp(), arg.map(|x| x.to_string()).unwrap_or("-".into()), parts.join(" "))
            }
        }
    }
}

impl Program {
    pub fn sexp(&self) -> String {
        let fns: Vec<String> = self
            .fns
            .iter()
            .map(|f| {
                format!(
                    "(fn ({}) {} {})",
                    sx_list(&f.params.iter().map(|p| p.0.to_string()).collect::<Vec<_>>()),
                    f.ret.sexp(),
                    stmts_sexp(&f.body)
                )
            })
            .collect();
        format!("(prog {})", sx_list(&fns))
    }
}

// ---- Capy source --------------------------------------------------------------------------

fn lit_capy(t: &Ty, z: i128) -> String {
    let (lo, _) = t.range();
    let tn = t.capy();
    if z == lo && lo < 0 {
        // the most negative value cannot be spelled as one literal (`-128`: 128 does not fit i8)
        format!("({tn}.({}) - {tn}.(1))", z + 1)
    } else {
        format!("{tn}.({z})")
    }
}

impl Expr {
    pub fn capy(&self) -> String {
        match self {
            Expr::Lit(t, z) => lit_capy(t, *z),
            Expr::BLit(b) => b.to_string(),
            Expr::Var(x) => format!("v{x}"),
            Expr::Bin(op, _, a, b) => format!("({} {} {})", a.capy(), op.capy(), b.capy()),
            Expr::Cmp(op, _, a, b) => format!("({} {} {})", a.capy(), op.capy(), b.capy()),
            Expr::LAnd(a, b) => format!("({} && {})", a.capy(), b.capy()),
            Expr::LOr(a, b) => format!("({} || {})", a.capy(), b.capy()),
            Expr::LNot(a) => format!("(!{})", a.capy()),
            Expr::Neg(_, a) => format!("(-{})", a.capy()),
            Expr::BNot(_, a) => format!("(~{})", a.capy()),
            Expr::Cast(_, d, a) => format!("{}.({})", d.capy(), a.capy()),
            Expr::Call(f, args) => format!("{}({})", qualify(true, *f, format!("f{f}")), args.iter().map(|a| a.capy()).collect::<Vec<_>>().join(", ")),
            Expr::Index(a, i) => format!("{}[{}]", a.capy(), i.capy()),
            Expr::Field(a, k) => format!("{}.m{}", a.capy(), k),
            Expr::ArrLit(t, es) => format!("{}.[{}]", t.capy(), es.iter().map(|a| a.capy()).collect::<Vec<_>>().join(", ")),
            Expr::StructLit(id, es) => format!(
                "{}.{{ {} }}",
                qualify(false, *id, format!("S{id}")),
                es.iter().enumerate().map(|(k, e)| format!("m{} = {}", k, e.capy())).collect::<Vec<_>>().join(", ")
            ),
            Expr::Nil => "nil".into(),
            Expr::SomeE(a) => a.capy(),
            Expr::Unwrap(t, a) => format!("#unwrap({}, {})", a.capy(), t.capy()),
            Expr::IsSome(t, a) => format!("#is_variant({}, {})", a.capy(), t.capy()),
            Expr::Ite(c, a, b) => format!("(if {} {{ {} }} else {{ {} }})", c.capy(), a.capy(), b.capy()),
            Expr::VariantLit(e, k, None) => format!("{}.V{k}", qualify_enum(*e, format!("E{e}"))),
            Expr::VariantLit(e, k, Some(a)) => format!("{}.V{k}.({})", qualify_enum(*e, format!("E{e}")), a.capy()),
            Expr::IsVariant(e, k, a) => format!("#is_variant({}, {}.V{k})", a.capy(), qualify_enum(*e, format!("E{e}"))),
            Expr::UnwrapVariant(e, k, a) => format!("#unwrap({}, {}.V{k})", a.capy(), qualify_enum(*e, format!("E{e}"))),
            Expr::EuLit(_, a) => a.capy(),
            Expr::EuIsOk(t, a) => format!("#is_variant({}, {})", a.capy(), t.capy()),
            Expr::EuUnwrap(_, t, a) => format!("#unwrap({}, {})", a.capy(), t.capy()),
            Expr::Try(a) => format!("{}.try", a.capy()),
            Expr::Coerce(t, a) => format!("{}.({})", t.capy(), a.capy()),
        }
    }
}

impl Place {
    pub fn capy(&self) -> String {
        match self {
            Place::Var(x) => format!("v{x}"),
            Place::Index(p, i) => format!("{}[{}]", p.capy(), i.capy()),
            Place::Field(p, k) => format!("{}.m{}", p.capy(), k),
        }
    }
}

fn stmts_capy(ss: &[Stmt], ind: usize, out: &mut String) {
    for s in ss {
        s.capy(ind, out);
    }
}

impl Stmt {
    pub fn capy(&self, ind: usize, out: &mut String) {
        let pad = "    ".repeat(ind);
        match self {
            Stmt::Let(x, t, m, e) => out.push_str(&format!("{pad}v{x} : {} {} {};\n", t.capy(), if *m { "=" } else { ":" }, e.capy())),
            Stmt::Assign(p, e) => out.push_str(&format!("{pad}{} = {};\n", p.capy(), e.capy())),
            Stmt::OpAssign(op, _, p, e) => out.push_str(&format!("{pad}{} {}= {};\n", p.capy(), op.capy(), e.capy())),
            Stmt::Print(e) => out.push_str(&format!("{pad}core.println({});\n", e.capy())),
            Stmt::If(c, a, b) => {
                out.push_str(&format!("{pad}if {} {{\n", c.capy()));
                stmts_capy(a, ind + 1, out);
                if b.is_empty() {
                    out.push_str(&format!("{pad}}}\n"));
                } else {
                    out.push_str(&format!("{pad}}} else {{\n"));
                    stmts_capy(b, ind + 1, out);
                    out.push_str(&format!("{pad}}}\n"));
                }
            }
            Stmt::While(l, c, b) => {
                out.push_str(&format!("{pad}`l{l}: while {} {{\n", c.capy()));
                stmts_capy(b, ind + 1, out);
                out.push_str(&format!("{pad}}}\n"));
            }
            Stmt::Block(l, b) => {
                match l {
                    Some(l) => out.push_str(&format!("{pad}`l{l}: {{\n")),
                    None => out.push_str(&format!("{pad}{{\n")),
                }
                stmts_capy(b, ind + 1, out);
                out.push_str(&format!("{pad}}}\n"));
            }
            Stmt::Brk(l) => out.push_str(&format!("{pad}break `l{l};\n")),
            Stmt::Cont(l) => out.push_str(&format!("{pad}continue `l{l};\n")),
            Stmt::Ret(None) => out.push_str(&format!("{pad}return;\n")),
            Stmt::Ret(Some(e)) => out.push_str(&format!("{pad}return {};\n", e.capy())),
            Stmt::Defer(s) => {
                let mut inner = String::new();
                s.capy(0, &mut inner);
                out.push_str(&format!("{pad}defer {}", inner.trim_start()));
            }
            Stmt::ExprS(e) => out.push_str(&format!("{pad}{};\n", e.capy())),
            Stmt::Raw(t) => out.push_str(&format!("{pad}{t}\n")),
            Stmt::Switch(sc, ty, arg, arms, d) => {
                match arg {
                    Some(x) => out.push_str(&format!("{pad}switch v{x} in {} {{\n", sc.capy())),
                    None => out.push_str(&format!("{pad}switch {} {{\n", sc.capy())),
                }
                for (k, b) in arms {
                    let head = match ty {
                        Ty::Enum(_) => format!(".V{k}"),
                        Ty::Opt(p) => if *k == 0 { "nil".to_string() } else { p.capy() },
                        Ty::Eu(e, o) => if *k == 0 { e.capy() } else { o.capy() },
                        _ => "?".into(),
                    };
                    out.push_str(&format!("{pad}    {head} => {{\n"));
                    stmts_capy(b, ind + 2, out);
                    out.push_str(&format!("{pad}    }},\n"));
                }
                if let Some(d) = d {
                    out.push_str(&format!("{pad}    _ => {{\n"));
                    stmts_capy(d, ind + 2, out);
                    out.push_str(&format!("{pad}    }},\n"));
                }
                out.push_str(&format!("{pad}}}\n"));
            }
        }
    }
}

#[derive(Clone, Copy, Debug, PartialEq, Eq)]
pub enum Global {
    Struct(usize),
    Enum(usize),
    Fn(usize),
}

impl Program {
    pub fn globals(&self) -> Vec<Global> {
        (0..self.structs.len()).map(Global::Struct).chain((0..self.enums.len()).map(Global::Enum)).chain((0..self.fns.len()).map(Global::Fn)).collect()
    }

    fn global_capy(&self, g: Global) -> String {
        match g {
            Global::Struct(i) => format!(
                "S{} :: struct {{ {} }};\n\n",
                i,
                self.structs[i].fields.iter().enumerate().map(|(k, t)| format!("m{}: {}", k, t.capy())).collect::<Vec<_>>().join(", ")
            ),
            Global::Enum(i) => format!(
                "E{} :: enum {{ {} }};\n\n",
                i,
                self.enums[i]
                    .variants
                    .iter()
                    .enumerate()
                    .map(|(k, t)| match t {
                        Some(t) => format!("V{}: {}", k, t.capy()),
                        None => format!("V{k}"),
                    })
                    .collect::<Vec<_>>()
                    .join(", ")
            ),
            Global::Fn(i) => {
                let f = &self.fns[i];
                let name = if i == 0 { "main".to_string() } else { format!("f{i}") };
                let params = f.params.iter().map(|(x, t)| format!("v{}: {}", x, t.capy())).collect::<Vec<_>>().join(", ");
                let ret = if f.ret == Ty::Void { String::new() } else { format!(" -> {}", f.ret.capy()) };
                let mut s = format!("{name} :: ({params}){ret} {{\n");
                stmts_capy(&f.body, 1, &mut s);
                s.push_str("}\n\n");
                s
            }
        }
    }

    /// one file, global definitions in the given textual order
    pub fn capy_ordered(&self, order: &[Global]) -> String {
        let mut s = String::from("core :: #mod(\"core\");\n\n");
        for g in order {
            s.push_str(&self.global_capy(*g));
        }
        s
    }

    /// several files: `file_of[k]` = file index of `self.globals()[k]`; file 0 is the root and must
    /// contain `main`. Every file imports all the others (import cycles are allowed).
    pub fn capy_files(&self, order: &[Global], file_of: &dyn std::ops::Fn(Global) -> usize, nfiles: usize) -> Vec<(String, String)> {
        let q = Qual {
            file_of_fn: (0..self.fns.len()).map(|i| file_of(Global::Fn(i))).collect(),
            file_of_struct: (0..self.structs.len()).map(|i| file_of(Global::Struct(i))).collect(),
            file_of_enum: (0..self.enums.len()).map(|i| file_of(Global::Enum(i))).collect(),
            current: 0,
        };
        let mut files = vec![];
        for f in 0..nfiles {
            QUAL.with(|c| *c.borrow_mut() = Some(Qual { current: f, ..q.clone() }));
            let mut s = String::from("core :: #mod(\"core\");\n");
            for g in 0..nfiles {
                if g != f {
                    s.push_str(&format!("file{g} :: #import(\"file{g}.capy\");\n"));
                }
            }
            s.push('\n');
            for g in order {
                if file_of(*g) == f {
                    s.push_str(&self.global_capy(*g));
                }
            }
            files.push((format!("file{f}.capy"), s));
        }
        QUAL.with(|c| *c.borrow_mut() = None);
        files
    }

    /// one file: structs, enums, then the functions (callers after callees)
    pub fn capy(&self) -> String {
        let mut order: Vec<Global> = (0..self.structs.len()).map(Global::Struct).collect();
        order.extend((0..self.enums.len()).map(Global::Enum));
        order.extend((0..self.fns.len()).rev().map(Global::Fn));
        self.capy_ordered(&order)
    }
}

// ---- generator ----------------------------------------------------------------------------

#[derive(Clone)]
struct VarInfo {
    id: usize,
    ty: Ty,
    mutable: bool,
    /// loop counters must not be assigned by generated code
    reserved: bool,
}

pub struct GenCfg {
    pub max_fns: usize,
    pub max_stmts: usize,
    pub max_depth: u32,
    /// allow expressions that may fault at run time (out-of-range index, wrong unwrap)
    pub faults: bool,
}

impl Default for GenCfg {
    fn default() -> Self {
        GenCfg { max_fns: 4, max_stmts: 10, max_depth: 4, faults: true }
    }
}

struct Gen<'a> {
    rng: &'a mut Rng,
    cfg: &'a GenCfg,
    structs: Vec<StructDef>,
    enums: Vec<EnumDef>,
    /// signatures of the functions generated so far (callable from later ones): index → (params, ret)
    sigs: Vec<(usize, Vec<Ty>, Ty)>,
    next_var: usize,
    next_label: usize,
    vars: Vec<VarInfo>,
    /// enclosing labelled constructs: (label, is_loop)
    labels: Vec<(usize, bool)>,
    ret_ty: Ty,
    fault_budget: u32,
}

const INT_TYS: [(bool, u32); 8] = [(true, 8), (true, 16), (true, 32), (true, 64), (false, 8), (false, 16), (false, 32), (false, 64)];

impl<'a> Gen<'a> {
    fn int_ty(&mut self) -> Ty {
        let (s, b) = *self.rng.pick(&INT_TYS);
        Ty::Int(s, b)
    }
    fn scalar_ty(&mut self) -> Ty {
        if self.rng.chance(1, 6) { Ty::Bool } else { self.int_ty() }
    }
    fn any_ty(&mut self, depth: u32) -> Ty {
        match self.rng.below(10) {
            0 | 1 if depth > 0 => {
                let n = 1 + self.rng.below(4) as u32;
                let e = if self.rng.chance(1, 4) { self.any_ty(depth - 1) } else { self.scalar_ty() };
                Ty::Arr(n, Box::new(e))
            }
            2 if depth > 0 => Ty::Opt(Box::new(self.scalar_ty())),
            3 | 4 if !self.structs.is_empty() => Ty::Struct(self.rng.below(self.structs.len() as u64) as usize),
            5 if !self.enums.is_empty() => Ty::Enum(self.rng.below(self.enums.len() as u64) as usize),
            6 if depth > 0 => {
                // error union: the error side is bool or an enum, the ok side an integer
                let e = if !self.enums.is_empty() && self.rng.chance(1, 2) { Ty::Enum(self.rng.below(self.enums.len() as u64) as usize) } else { Ty::Bool };
                Ty::Eu(Box::new(e), Box::new(self.int_ty()))
            }
            _ => self.scalar_ty(),
        }
    }
    fn fresh_var(&mut self) -> usize {
        self.next_var += 1;
        self.next_var
    }
    fn fresh_label(&mut self) -> usize {
        self.next_label += 1;
        self.next_label
    }
    fn lit(&mut self, t: &Ty) -> Expr {
        let (lo, hi) = t.range();
        let z = match self.rng.below(8) {
            0 => lo,
            1 => hi,
            2 => 0,
            3 => 1,
            4 => if lo < 0 { -1 } else { hi - 1 },
            _ => {
                let span = (hi - lo).min(200);
                (self.rng.below(span as u64 + 1) as i128 - if lo < 0 { span / 2 } else { 0 }).clamp(lo, hi)
            }
        };
        Expr::Lit(t.clone(), z)
    }
    fn vars_of(&self, t: &Ty) -> Vec<VarInfo> {
        self.vars.iter().filter(|v| &v.ty == t).cloned().collect()
    }

    /// an expression of type `t`
    fn expr(&mut self, t: &Ty, depth: u32) -> Expr {
        let leaf = depth == 0 || self.rng.chance(1, 4);
        match t {
            Ty::Int(..) => {
                if leaf {
                    let vs = self.vars_of(t);
                    if !vs.is_empty() && self.rng.chance(3, 5) {
                        return Expr::Var(self.rng.pick(&vs).id);
                    }
                    return self.lit(t);
                }
                match self.rng.below(12) {
                    0..=3 => {
                        let op = *self.rng.pick(&[BinOp::Add, BinOp::Sub, BinOp::Mul, BinOp::And, BinOp::Or, BinOp::Xor]);
                        let a = self.expr(t, depth - 1);
                        let b = self.expr(t, depth - 1);
                        Expr::Bin(op, t.clone(), Box::new(a), Box::new(b))
                    }
                    4 => {
                        // division / remainder by a small positive literal (never 0, never MIN / -1)
                        let op = *self.rng.pick(&[BinOp::Div, BinOp::Rem]);
                        let a = self.expr(t, depth - 1);
                        let k = 1 + self.rng.below(7) as i128;
                        Expr::Bin(op, t.clone(), Box::new(a), Box::new(Expr::Lit(t.clone(), k)))
                    }
                    5 => {
                        let op = *self.rng.pick(&[BinOp::Shl, BinOp::Shr]);
                        let a = self.expr(t, depth - 1);
                        let bits = if let Ty::Int(_, b) = t { *b } else { 8 };
                        let k = self.rng.below(bits as u64) as i128;
                        Expr::Bin(op, t.clone(), Box::new(a), Box::new(Expr::Lit(t.clone(), k.min(t.range().1))))
                    }
                    6 => {
                        // cast from another scalar
                        let src = self.scalar_ty();
                        let a = self.expr(&src, depth - 1);
                        Expr::Cast(src, t.clone(), Box::new(a))
                    }
                    7 => self.call_or(t, depth),
                    8 => self.element_of(t, depth),
                    9 => {
                        if matches!(t, Ty::Int(true, _)) && self.rng.chance(1, 2) {
                            let a = self.expr(t, depth - 1);
                            Expr::Neg(t.clone(), Box::new(a))
                        } else {
                            let a = self.expr(t, depth - 1);
                            Expr::BNot(t.clone(), Box::new(a))
                        }
                    }
                    10 => {
                        let c = self.expr(&Ty::Bool, depth - 1);
                        let a = self.expr(t, depth - 1);
                        let b = self.expr(t, depth - 1);
                        Expr::Ite(Box::new(c), Box::new(a), Box::new(b))
                    }
                    _ => self.unwrap_of(t, depth),
                }
            }
            Ty::Bool => {
                if leaf {
                    let vs = self.vars_of(t);
                    if !vs.is_empty() && self.rng.chance(1, 2) {
                        return Expr::Var(self.rng.pick(&vs).id);
                    }
                    return Expr::BLit(self.rng.chance(1, 2));
                }
                match self.rng.below(8) {
                    0..=3 => {
                        let it = self.int_ty();
                        let op = *self.rng.pick(&[CmpOp::Eq, CmpOp::Ne, CmpOp::Lt, CmpOp::Le, CmpOp::Gt, CmpOp::Ge]);
                        let a = self.expr(&it, depth - 1);
                        let b = self.expr(&it, depth - 1);
                        Expr::Cmp(op, it, Box::new(a), Box::new(b))
                    }
                    4 => {
                        let a = self.expr(t, depth - 1);
                        let b = self.expr(t, depth - 1);
                        if self.rng.chance(1, 2) { Expr::LAnd(Box::new(a), Box::new(b)) } else { Expr::LOr(Box::new(a), Box::new(b)) }
                    }
                    5 => {
                        let a = self.expr(t, depth - 1);
                        Expr::LNot(Box::new(a))
                    }
                    6 => {
                        // #is_variant on an optional variable
                        let opts: Vec<VarInfo> = self.vars.iter().filter(|v| matches!(v.ty, Ty::Opt(_))).cloned().collect();
                        if let Some(v) = opts.first().cloned() {
                            if let Ty::Opt(p) = &v.ty {
                                return Expr::IsSome((**p).clone(), Box::new(Expr::Var(v.id)));
                            }
                        }
                        Expr::BLit(true)
                    }
                    _ => self.element_of(t, depth),
                }
            }
            Ty::Arr(n, e) => {
                let vs = self.vars_of(t);
                if !vs.is_empty() && self.rng.chance(1, 2) {
                    return Expr::Var(self.rng.pick(&vs).id);
                }
                if depth > 0 && self.rng.chance(1, 5) {
                    return self.call_or(t, depth);
                }
                let d = depth.saturating_sub(1);
                Expr::ArrLit((**e).clone(), (0..*n).map(|_| self.expr(e, d)).collect())
            }
            Ty::Struct(id) => {
                let vs = self.vars_of(t);
                if !vs.is_empty() && self.rng.chance(1, 2) {
                    return Expr::Var(self.rng.pick(&vs).id);
                }
                if depth > 0 && self.rng.chance(1, 5) {
                    return self.call_or(t, depth);
                }
                let fields = self.structs[*id].fields.clone();
                let d = depth.saturating_sub(1);
                Expr::StructLit(*id, fields.iter().map(|ft| self.expr(ft, d)).collect())
            }
            Ty::Opt(p) => {
                let vs = self.vars_of(t);
                if !vs.is_empty() && self.rng.chance(1, 3) {
                    return Expr::Var(self.rng.pick(&vs).id);
                }
                if self.rng.chance(1, 3) {
                    Expr::Nil
                } else {
                    let d = depth.saturating_sub(1);
                    Expr::SomeE(Box::new(self.expr(p, d)))
                }
            }
            Ty::Enum(id) => {
                let vs = self.vars_of(t);
                if !vs.is_empty() && self.rng.chance(1, 2) {
                    return Expr::Var(self.rng.pick(&vs).id);
                }
                if depth > 0 && self.rng.chance(1, 5) {
                    return self.call_or(t, depth);
                }
                let variants = self.enums[*id].variants.clone();
                let k = self.rng.below(variants.len() as u64) as usize;
                let d = depth.saturating_sub(1);
                match &variants[k] {
                    None => Expr::VariantLit(*id, k, None),
                    Some(pt) => Expr::VariantLit(*id, k, Some(Box::new(self.expr(pt, d)))),
                }
            }
            Ty::Eu(e, o) => {
                let vs = self.vars_of(t);
                if !vs.is_empty() && self.rng.chance(1, 3) {
                    return Expr::Var(self.rng.pick(&vs).id);
                }
                if depth > 0 && self.rng.chance(1, 5) {
                    return self.call_or(t, depth);
                }
                let d = depth.saturating_sub(1);
                if self.rng.chance(2, 3) {
                    Expr::EuLit(true, Box::new(self.expr(o, d)))
                } else {
                    Expr::EuLit(false, Box::new(self.expr(e, d)))
                }
            }
            Ty::Void => Expr::BLit(false),
        }
    }

    /// a statement that switches over a variable of sum type
    fn switch_stmt(&mut self, depth: u32, budget: &mut usize) -> Option<Stmt> {
        let cands: Vec<VarInfo> = self.vars.iter().filter(|v| matches!(v.ty, Ty::Enum(_) | Ty::Opt(_) | Ty::Eu(..))).cloned().collect();
        if cands.is_empty() {
            return None;
        }
        let v = self.rng.pick(&cands).clone();
        // payload type per variant index
        let payloads: Vec<Option<Ty>> = match &v.ty {
            Ty::Enum(id) => self.enums[*id].variants.clone(),
            Ty::Opt(p) => vec![None, Some((**p).clone())],
            Ty::Eu(e, o) => vec![Some((**e).clone()), Some((**o).clone())],
            _ => return None,
        };
        let with_arg = self.rng.chance(2, 3);
        let arg = if with_arg { Some(self.fresh_var()) } else { None };
        let mut arms = vec![];
        let mut covered = 0;
        for (k, p) in payloads.iter().enumerate() {
            if self.rng.chance(3, 4) {
                covered += 1;
                let saved = self.vars.len();
                let mut pre = vec![];
                if let (Some(a), Some(pt)) = (arg, p) {
                    if matches!(v.ty, Ty::Enum(_)) {
                        // the argument has the VARIANT type; a plain copy is made with a cast
                        let c = self.fresh_var();
                        pre.push(Stmt::Let(c, pt.clone(), false, Expr::Coerce(pt.clone(), Box::new(Expr::Var(a)))));
                        self.vars.push(VarInfo { id: c, ty: pt.clone(), mutable: false, reserved: false });
                    } else {
                        self.vars.push(VarInfo { id: a, ty: pt.clone(), mutable: false, reserved: false });
                    }
                }
                let mut body = pre;
                body.extend(self.stmts(depth + 1, budget));
                self.vars.truncate(saved);
                arms.push((k, body));
            }
        }
        let default = if covered < payloads.len() || self.rng.chance(1, 5) {
            let saved = self.vars.len();
            if let Some(a) = arg {
                self.vars.push(VarInfo { id: a, ty: v.ty.clone(), mutable: false, reserved: false });
            }
            let body = self.stmts(depth + 1, budget);
            self.vars.truncate(saved);
            Some(body)
        } else {
            None
        };
        if arms.is_empty() && default.is_none() {
            return None;
        }
        Some(Stmt::Switch(Expr::Var(v.id), v.ty.clone(), arg, arms, default))
    }

    fn call_or(&mut self, t: &Ty, depth: u32) -> Expr {
        let cands: Vec<(usize, Vec<Ty>, Ty)> = self.sigs.iter().filter(|s| &s.2 == t).cloned().collect();
        if cands.is_empty() {
            return self.expr(t, 0);
        }
        let (f, ps, _) = self.rng.pick(&cands).clone();
        let d = depth.saturating_sub(1);
        Expr::Call(f, ps.iter().map(|p| self.expr(p, d)).collect())
    }

    /// index into an array variable / field of a struct variable yielding `t`
    fn element_of(&mut self, t: &Ty, depth: u32) -> Expr {
        let mut cands: Vec<Expr> = vec![];
        let vars = self.vars.clone();
        for v in &vars {
            match &v.ty {
                Ty::Arr(n, e) if &**e == t => {
                    let idx = self.index_expr(*n, depth);
                    cands.push(Expr::Index(Box::new(Expr::Var(v.id)), Box::new(idx)));
                }
                Ty::Struct(id) => {
                    for (k, ft) in self.structs[*id].fields.clone().iter().enumerate() {
                        if ft == t {
                            cands.push(Expr::Field(Box::new(Expr::Var(v.id)), k));
                        } else if let Ty::Arr(n, e) = ft {
                            if &**e == t {
                                let idx = self.index_expr(*n, depth);
                                cands.push(Expr::Index(Box::new(Expr::Field(Box::new(Expr::Var(v.id)), k)), Box::new(idx)));
                            }
                        }
                    }
                }
                Ty::Arr(n, e) => {
                    if let Ty::Arr(m, e2) = &**e {
                        if &**e2 == t {
                            let i1 = self.index_expr(*n, depth);
                            let i2 = self.index_expr(*m, depth);
                            cands.push(Expr::Index(Box::new(Expr::Index(Box::new(Expr::Var(v.id)), Box::new(i1))), Box::new(i2)));
                        }
                    }
                }
                _ => {}
            }
        }
        if cands.is_empty() {
            self.expr(t, 0)
        } else {
            self.rng.pick(&cands).clone()
        }
    }

    /// an index for an array of length `n`: usize literal in range, a runtime value reduced
    /// modulo n, or (rarely, if faults are allowed) possibly out of range
    fn index_expr(&mut self, n: u32, depth: u32) -> Expr {
        let ut = Ty::Int(false, 64);
        match self.rng.below(10) {
            0..=5 => Expr::Lit(ut, self.rng.below(n as u64) as i128),
            6..=8 if depth > 0 => {
                let a = self.expr(&ut, depth.saturating_sub(1).min(1));
                Expr::Bin(BinOp::Rem, ut.clone(), Box::new(a), Box::new(Expr::Lit(ut, n as i128)))
            }
            _ => {
                if self.cfg.faults && self.fault_budget > 0 && self.rng.chance(1, 3) {
                    self.fault_budget -= 1;
                    // runtime index in [0, n + 4]
                    let vs = self.vars_of(&ut);
                    let base = if let Some(v) = vs.first() { Expr::Var(v.id) } else { Expr::Lit(ut.clone(), self.rng.below(n as u64 + 5) as i128) };
                    Expr::Bin(BinOp::Rem, ut.clone(), Box::new(base), Box::new(Expr::Lit(ut, n as i128 + 5)))
                } else {
                    Expr::Lit(ut, self.rng.below(n as u64) as i128)
                }
            }
        }
    }

    fn unwrap_of(&mut self, t: &Ty, _depth: u32) -> Expr {
        // a guarded #unwrap of an enum variant / the ok side of an error union with payload `t`
        let vars = self.vars.clone();
        for v in &vars {
            match &v.ty {
                Ty::Enum(id) if self.rng.chance(1, 2) => {
                    for (k, p) in self.enums[*id].variants.clone().iter().enumerate() {
                        if p.as_ref() == Some(t) {
                            return Expr::Ite(
                                Box::new(Expr::IsVariant(*id, k, Box::new(Expr::Var(v.id)))),
                                Box::new(Expr::Coerce(t.clone(), Box::new(Expr::UnwrapVariant(*id, k, Box::new(Expr::Var(v.id)))))),
                                Box::new(self.lit(t)),
                            );
                        }
                    }
                }
                Ty::Eu(_, o) if &**o == t && self.rng.chance(1, 2) => {
                    return Expr::Ite(
                        Box::new(Expr::EuIsOk(t.clone(), Box::new(Expr::Var(v.id)))),
                        Box::new(Expr::EuUnwrap(true, t.clone(), Box::new(Expr::Var(v.id)))),
                        Box::new(self.lit(t)),
                    );
                }
                _ => {}
            }
        }
        let want = Ty::Opt(Box::new(t.clone()));
        let vs = self.vars_of(&want);
        if let Some(v) = vs.first().cloned() {
            if self.cfg.faults && self.fault_budget > 0 && self.rng.chance(1, 4) {
                self.fault_budget -= 1;
                return Expr::Unwrap(t.clone(), Box::new(Expr::Var(v.id)));
            }
            // guarded unwrap
            return Expr::Ite(
                Box::new(Expr::IsSome(t.clone(), Box::new(Expr::Var(v.id)))),
                Box::new(Expr::Unwrap(t.clone(), Box::new(Expr::Var(v.id)))),
                Box::new(self.lit(t)),
            );
        }
        self.lit(t)
    }

    /// an assignable place and its type
    fn place(&mut self, depth: u32) -> Option<(Place, Ty)> {
        let muts: Vec<VarInfo> = self.vars.iter().filter(|v| v.mutable && !v.reserved).cloned().collect();
        if muts.is_empty() {
            return None;
        }
        let v = self.rng.pick(&muts).clone();
        let mut p = Place::Var(v.id);
        let mut t = v.ty.clone();
        for _ in 0..3 {
            match t.clone() {
                Ty::Arr(n, e) if self.rng.chance(3, 4) => {
                    let i = self.index_expr(n, depth);
                    p = Place::Index(Box::new(p), Box::new(i));
                    t = *e;
                }
                Ty::Struct(id) if self.rng.chance(3, 4) => {
                    let fields = self.structs[id].fields.clone();
                    let k = self.rng.below(fields.len() as u64) as usize;
                    p = Place::Field(Box::new(p), k);
                    t = fields[k].clone();
                }
                _ => break,
            }
        }
        Some((p, t))
    }

    fn print_stmt(&mut self, depth: u32) -> Stmt {
        let t = self.scalar_ty();
        Stmt::Print(self.expr(&t, depth))
    }

    fn stmts(&mut self, depth: u32, budget: &mut usize) -> Vec<Stmt> {
        let n = 1 + self.rng.below(self.cfg.max_stmts as u64 / 2 + 1) as usize;
        let saved_vars = self.vars.len();
        let mut out = vec![];
        let mut defers = 0;
        for _ in 0..n {
            if *budget == 0 {
                break;
            }
            *budget -= 1;
            let c = self.rng.below(100);
            let edepth = 2.min(self.cfg.max_depth);
            if c < 22 {
                let t = self.any_ty(2);
                let e = self.expr(&t, edepth);
                let id = self.fresh_var();
                let m = self.rng.chance(2, 3);
                out.push(Stmt::Let(id, t.clone(), m, e));
                self.vars.push(VarInfo { id, ty: t, mutable: m, reserved: false });
            } else if c < 40 {
                if let Some((p, t)) = self.place(edepth) {
                    if t.is_int() && self.rng.chance(1, 3) {
                        let op = *self.rng.pick(&[BinOp::Add, BinOp::Sub, BinOp::Mul, BinOp::And, BinOp::Or, BinOp::Xor]);
                        let e = self.expr(&t, edepth);
                        out.push(Stmt::OpAssign(op, t, p, e));
                    } else {
                        let e = self.expr(&t, edepth);
                        out.push(Stmt::Assign(p, e));
                    }
                } else {
                    out.push(self.print_stmt(edepth));
                }
            } else if c < 60 {
                out.push(self.print_stmt(edepth));
            } else if c < 68 && defers < 3 {
                defers += 1;
                let p = self.print_stmt(1);
                out.push(Stmt::Defer(Box::new(p)));
            } else if c < 78 && depth < self.cfg.max_depth {
                let cnd = self.expr(&Ty::Bool, edepth);
                let a = self.stmts(depth + 1, budget);
                let b = if self.rng.chance(1, 2) { self.stmts(depth + 1, budget) } else { vec![] };
                out.push(Stmt::If(cnd, a, b));
            } else if c < 86 && depth < self.cfg.max_depth {
                // bounded loop: counter declared before, decremented first thing in the body
                let ct = Ty::Int(false, 8);
                let cid = self.fresh_var();
                let iters = 1 + self.rng.below(if depth == 0 { 6 } else { 3 }) as i128;
                out.push(Stmt::Let(cid, ct.clone(), true, Expr::Lit(ct.clone(), iters)));
                self.vars.push(VarInfo { id: cid, ty: ct.clone(), mutable: true, reserved: true });
                let l = self.fresh_label();
                self.labels.push((l, true));
                let mut body = vec![Stmt::OpAssign(BinOp::Sub, ct.clone(), Place::Var(cid), Expr::Lit(ct.clone(), 1))];
                body.extend(self.stmts(depth + 1, budget));
                self.labels.pop();
                let cond = Expr::Cmp(CmpOp::Gt, ct.clone(), Box::new(Expr::Var(cid)), Box::new(Expr::Lit(ct, 0)));
                out.push(Stmt::While(l, cond, body));
            } else if c < 91 && depth < self.cfg.max_depth {
                let l = if self.rng.chance(2, 3) { Some(self.fresh_label()) } else { None };
                if let Some(l) = l {
                    self.labels.push((l, false));
                }
                let b = self.stmts(depth + 1, budget);
                if l.is_some() {
                    self.labels.pop();
                }
                out.push(Stmt::Block(l, b));
            } else if c < 94 && depth < self.cfg.max_depth {
                match self.switch_stmt(depth, budget) {
                    Some(sw) => out.push(sw),
                    None => out.push(self.print_stmt(edepth)),
                }
            } else if c < 95 {
                // `.try`: only where the enclosing function can propagate
                match self.ret_ty.clone() {
                    rt @ (Ty::Opt(_) | Ty::Eu(..)) => {
                        // the operand is a variable of optional / error-union type (same error type)
                        let cands: Vec<VarInfo> = self
                            .vars
                            .iter()
                            .filter(|v| match (&v.ty, &rt) {
                                (Ty::Opt(p), Ty::Opt(_)) => matches!(**p, Ty::Int(..) | Ty::Bool),
                                (Ty::Eu(e1, _), Ty::Eu(e2, _)) => e1 == e2,
                                _ => false,
                            })
                            .cloned()
                            .collect();
                        if let Some(v) = cands.first().cloned() {
                            let pt = match &v.ty {
                                Ty::Opt(p) => (**p).clone(),
                                Ty::Eu(_, o) => (**o).clone(),
                                _ => unreachable!(),
                            };
                            let id = self.fresh_var();
                            out.push(Stmt::Let(id, pt.clone(), false, Expr::Try(Box::new(Expr::Var(v.id)))));
                            self.vars.push(VarInfo { id, ty: pt, mutable: false, reserved: false });
                        } else {
                            out.push(self.print_stmt(edepth));
                        }
                    }
                    _ => out.push(self.print_stmt(edepth)),
                }
            } else if c < 97 && (depth > 0) {
                // conditional jump
                let cnd = self.expr(&Ty::Bool, 1);
                let j = self.jump();
                out.push(Stmt::If(cnd, vec![j], vec![]));
            } else {
                out.push(self.print_stmt(edepth));
            }
        }
        self.vars.truncate(saved_vars);
        out
    }

    fn jump(&mut self) -> Stmt {
        let loops: Vec<usize> = self.labels.iter().filter(|l| l.1).map(|l| l.0).collect();
        if !loops.is_empty() && self.rng.chance(1, 3) {
            return Stmt::Cont(*self.rng.pick(&loops));
        }
        if self.labels.is_empty() || self.rng.chance(1, 4) {
            let rt = self.ret_ty.clone();
            return if rt == Ty::Void { Stmt::Ret(None) } else { Stmt::Ret(Some(self.expr(&rt, 1))) };
        }
        let labels = self.labels.clone();
        Stmt::Brk(self.rng.pick(&labels).0)
    }
}

pub fn gen_program(rng: &mut Rng, cfg: &GenCfg) -> Program {
    let mut g = Gen {
        rng,
        cfg,
        structs: vec![],
        enums: vec![],
        sigs: vec![],
        next_var: 0,
        next_label: 0,
        vars: vec![],
        labels: vec![],
        ret_ty: Ty::Void,
        fault_budget: 0,
    };
    // structs: fields of scalars and small arrays (a later struct may contain an earlier one)
    let ns = g.rng.below(3) as usize;
    for _ in 0..ns {
        let nf = 1 + g.rng.below(4) as usize;
        let mut fields = vec![];
        for _ in 0..nf {
            let t = match g.rng.below(6) {
                0 => Ty::Arr(1 + g.rng.below(3) as u32, Box::new(g.scalar_ty())),
                1 if !g.structs.is_empty() => Ty::Struct(g.rng.below(g.structs.len() as u64) as usize),
                _ => g.scalar_ty(),
            };
            fields.push(t);
        }
        g.structs.push(StructDef { fields });
    }
    // enums: 1-4 variants with scalar / array / struct payloads or none
    let ne = g.rng.below(3) as usize;
    for _ in 0..ne {
        let nv = 1 + g.rng.below(4) as usize;
        let mut variants = vec![];
        for _ in 0..nv {
            variants.push(match g.rng.below(5) {
                0 | 1 => None,
                2 if !g.structs.is_empty() => Some(Ty::Struct(g.rng.below(g.structs.len() as u64) as usize)),
                3 => Some(Ty::Arr(1 + g.rng.below(3) as u32, Box::new(g.scalar_ty()))),
                _ => Some(g.scalar_ty()),
            });
        }
        g.enums.push(EnumDef { variants });
    }
    // helper functions f_k … f_1 (each may call the ones generated before it), then main
    let nf = g.rng.below(cfg.max_fns as u64) as usize;
    let mut fns: Vec<Option<Fn>> = vec![None; nf + 1];
    for k in (1..=nf).rev() {
        let np = g.rng.below(4) as usize;
        let mut params = vec![];
        g.vars.clear();
        for _ in 0..np {
            let t = g.any_ty(2);
            let id = g.fresh_var();
            params.push((id, t.clone()));
            g.vars.push(VarInfo { id, ty: t, mutable: false, reserved: false });
        }
        let ret = if g.rng.chance(1, 6) { Ty::Void } else { g.any_ty(1) };
        g.ret_ty = ret.clone();
        g.labels.clear();
        g.fault_budget = 0; // faults only from main, so that the expected output is a clean prefix
        let mut budget = 12;
        let mut body = g.stmts(0, &mut budget);
        if ret != Ty::Void {
            g.vars.truncate(np);
            let e = g.expr(&ret, 2);
            body.push(Stmt::Ret(Some(e)));
        }
        fns[k] = Some(Fn { params: params.clone(), ret: ret.clone(), body });
        g.sigs.push((k, params.iter().map(|p| p.1.clone()).collect(), ret));
    }
    // main
    g.vars.clear();
    g.labels.clear();
    let main_ret = if g.rng.chance(1, 5) { Ty::Void } else { g.int_ty() };
    g.ret_ty = main_ret.clone();
    g.fault_budget = if cfg.faults && g.rng.chance(1, 4) { 1 } else { 0 };
    let mut budget = 30;
    let mut body = g.stmts(0, &mut budget);
    if main_ret != Ty::Void {
        let e = g.expr(&main_ret, 2);
        body.push(Stmt::Ret(Some(e)));
    }
    fns[0] = Some(Fn { params: vec![], ret: main_ret, body });
    Program { structs: g.structs.clone(), enums: g.enums.clone(), fns: fns.into_iter().map(|f| f.unwrap()).collect() }
}
